"""Equivalence check for refactoring 2 (``Array.__post_init__`` in ceos_alos2/array.py).

Constructs ``Array`` objects for a spread of ``records_per_chunk`` settings (missing, integer
like, byte-size strings, "auto", malformed), byte range layouts and declared shapes, and
compares the normalized ``records_per_chunk`` (value and type), the derived chunk offsets,
``chunks``, the repr, equality and the data read through the resulting chunk layout
(including the I/O requests) with what the unchanged code produced.

Run as ``PYTHONPATH=<worktree> python equiv.py`` (exit status 0 = equivalent) or with pytest.
"""

import io
import pprint
import sys

import numpy as np


def canon(obj):
    """Canonical, type-preserving text form of a result."""
    if isinstance(obj, BaseException):
        return f"raise {type(obj).__module__}.{type(obj).__qualname__}: {obj}"
    if isinstance(obj, np.ndarray):
        return f"ndarray[{obj.dtype.str}{obj.shape}]{obj.tolist()!r}"
    if isinstance(obj, np.generic):
        return f"{type(obj).__name__}({obj.item()!r})"
    if isinstance(obj, dict):
        items = ", ".join(f"{canon(k)}: {canon(v)}" for k, v in obj.items())
        return f"{type(obj).__name__}{{{items}}}"
    if isinstance(obj, (list, tuple)):
        return f"{type(obj).__name__}({', '.join(canon(v) for v in obj)})"
    return f"{type(obj).__name__}:{obj!r}"


def attempt(func, *args, **kwargs):
    try:
        return canon(func(*args, **kwargs))
    except Exception as e:  # noqa: BLE001
        return canon(e)


class RecordingFile:
    def __init__(self, content, log):
        self._buffer = io.BytesIO(content)
        self._log = log

    def __enter__(self):
        self._log.append("enter")
        return self

    def __exit__(self, *exc_info):
        self._log.append("exit")
        return False

    def seek(self, *args, **kwargs):
        self._log.append(("seek", args, kwargs))
        return self._buffer.seek(*args, **kwargs)

    def read(self, *args, **kwargs):
        self._log.append(("read", args, kwargs))
        return self._buffer.read(*args, **kwargs)


class RecordingFS:
    """minimal file system: records every request made by the code under test"""

    def __init__(self, files):
        self.files = files
        self.log = []

    def open(self, *args, **kwargs):
        self.log.append(("open", args, kwargs))
        return RecordingFile(self.files[args[0]], self.log)

    def take_log(self):
        log, self.log = self.log, []
        return repr(log)


import dataclasses  # noqa: E402
from fractions import Fraction  # noqa: E402

from ceos_alos2.array import Array  # noqa: E402


def layout(row_sizes, gap=20):
    byte_ranges = []
    position = 0
    for size in row_sizes:
        position += gap
        byte_ranges.append((position, position + size))
        position += size
    return byte_ranges


class IntLike:
    """compares like an integer but is none"""

    def __init__(self, value):
        self.value = value

    def __gt__(self, other):
        return self.value > other

    def __eq__(self, other):
        return self.value == other

    def __hash__(self):
        return hash(self.value)

    def __index__(self):
        return self.value

    def __repr__(self):
        return f"IntLike({self.value})"


class Text(str):
    pass


RECORDS_PER_CHUNK = {
    "None": None,
    "1": 1,
    "2": 2,
    "3": 3,
    "4": 4,
    "5": 5,
    "6": 6,
    "1024": 1024,
    "-1": -1,
    "True": True,
    "np.int64(2)": np.int64(2),
    "np.int64(-1)": np.int64(-1),
    "np.uint8(9)": np.uint8(9),
    "IntLike(2)": IntLike(2),
    "IntLike(-1)": IntLike(-1),
    "IntLike(99)": IntLike(99),
    "Fraction(2)": Fraction(2),
    "2.0": 2.0,
    "nan": float("nan"),
    "inf": float("inf"),
    "'auto'": "auto",
    "Text('auto')": Text("auto"),
    "'AUTO'": "AUTO",
    "' auto'": " auto",
    "'1B'": "1B",
    "'39B'": "39B",
    "'40B'": "40B",
    "'60B'": "60B",
    "'61B'": "61B",
    "'80B'": "80B",
    "'100 B'": "100 B",
    "'0.1kB'": "0.1kB",
    "'1kB'": "1kB",
    "'1KiB'": "1KiB",
    "'1e2'": "1e2",
    "'120'": "120",
    "'2'": "2",
    "'0'": "0",
    "'-1'": "-1",
    "'-80B'": "-80B",
    "'5GB'": "5GB",
    "'MB'": "MB",
    "''": "",
    "'B'": "B",
    "'5 foos'": "5 foos",
    "'abc'": "abc",
    "'1.2.3B'": "1.2.3B",
    "Text('80B')": Text("80B"),
    "b'auto'": b"auto",
    "b'80B'": b"80B",
    "[2]": [2],
    "(2,)": (2,),
    "{}": {},
    "2j": 2j,
    "object": object,
}

LAYOUTS = {
    "regular4": layout([40, 40, 40, 40]),
    "regular1": layout([40]),
    "ragged5": layout([10, 70, 30, 50, 40]),
    "tight3": [(0, 40), (40, 80), (80, 120)],
    "unordered3": [(100, 140), (20, 60), (40, 80)],
    "reversed2": [(60, 20), (140, 100)],
    "empty-rows": layout([0, 0, 0]),
    "none": [],
    "as-tuple": tuple(layout([40, 40, 40])),
    "as-lists": [list(r) for r in layout([40, 40])],
    "float-ranges": [(0.0, 40.0), (40.5, 80.5)],
    "array-ranges": np.array(layout([40, 40, 40])),
    "triples": [(0, 40, 1), (40, 80, 1)],
    "singles": [(0,), (40,)],
    "scalars": [0, 40],
    "strings": [("a", "b")],
    "not-iterable": None,
    "mapping": {0: 40, 60: 100},
}

SHAPES = {
    "rows-match": lambda n: (n, 20),
    "rows-more": lambda n: (n + 3, 20),
    "rows-fewer": lambda n: (max(n - 1, 0), 20),
    "3d": lambda n: (n, 5, 4),
    "1d": lambda n: (n,),
    "list": lambda n: [n, 20],
    "empty": lambda n: (),
    "None": lambda n: None,
    "int": lambda n: n,
    "float-rows": lambda n: (float(n), 20),
    "str-rows": lambda n: ("x", 20),
    "array": lambda n: np.array([n, 20]),
}


def describe(arr):
    parts = {
        "records_per_chunk": canon(arr.records_per_chunk),
        "chunk_offsets": canon(arr.chunk_offsets),
        "chunks": attempt(lambda: arr.chunks),
        "ndim": attempt(lambda: arr.ndim),
        "repr": repr(arr).replace(repr(arr.fs), "<fs>"),
        "fields": canon([f.name for f in dataclasses.fields(arr)]),
        "byte_ranges is": arr.byte_ranges is arr.__dict__["byte_ranges"],
    }
    return repr(parts)


def construct(fs, byte_ranges, shape, records_per_chunk, **kwargs):
    def build():
        return Array(
            fs=fs,
            url="image-file",
            byte_ranges=byte_ranges,
            shape=shape,
            dtype="uint16",
            type_code="IU2",
            **kwargs,
        )

    if records_per_chunk is not NOT_GIVEN:
        kwargs["records_per_chunk"] = records_per_chunk

    try:
        arr = build()
    except Exception as e:  # noqa: BLE001
        return None, canon(e)
    return arr, describe(arr)


NOT_GIVEN = object()


def collect():
    results = {}
    content = bytes(range(256)) * 4
    fs = RecordingFS({"image-file": content})

    # every setting on every layout, with a matching 2d shape
    for lname, byte_ranges in LAYOUTS.items():
        try:
            n_rows = len(byte_ranges)
        except TypeError:
            n_rows = 2
        for rname, rpc in RECORDS_PER_CHUNK.items():
            _, results[f"{lname} rpc={rname}"] = construct(fs, byte_ranges, (n_rows, 20), rpc)
        _, results[f"{lname} rpc not given"] = construct(fs, byte_ranges, (n_rows, 20), NOT_GIVEN)

    # declared shapes: only integer-like settings look at the shape
    for sname, make_shape in SHAPES.items():
        for lname in ("regular4", "ragged5", "none"):
            byte_ranges = LAYOUTS[lname]
            shape = make_shape(len(byte_ranges))
            for rname in ("None", "2", "-1", "1024", "np.int64(2)", "'auto'", "'80B'", "'abc'", "[2]"):
                key = f"shape {sname} {lname} rpc={rname}"
                _, results[key] = construct(fs, byte_ranges, shape, RECORDS_PER_CHUNK[rname])

    # the target sizes for byte strings / "auto" on bigger layouts
    big = layout([3 * 2**20] * 40, gap=720)
    for rname in ("'auto'", "'5GB'", "'1kB'", "None", "-1", "32"):
        rpc = RECORDS_PER_CHUNK.get(rname, 32)
        arr, described = construct(fs, big, (40, 100), rpc)
        results[f"big rpc={rname}"] = described
    for size in ("100MiB", "100MB", "104857599", "104857600", "104857601", "99MiB", "50 MiB", "3MiB"):
        _, results[f"big rpc={size!r}"] = construct(fs, big, (40, 100), size)

    # the normalized setting drives reading: values and I/O requests
    data_ranges = layout([40, 40, 40, 40, 40])
    for rname in ("None", "1", "2", "3", "5", "6", "-1", "'auto'", "'1B'", "'80B'", "'100 B'", "'1kB'"):
        rpc = RECORDS_PER_CHUNK.get(rname, 5)
        arr, described = construct(fs, data_ranges, (5, 20), rpc)
        for iname, indexer in {"all": slice(None), "3": 3, "[4,0]": [4, 0], "::2": slice(None, None, 2)}.items():
            value = attempt(lambda: arr[(indexer, slice(None, 3))])
            results[f"read rpc={rname} [{iname}]"] = f"{value} || io={fs.take_log()}"

    # equality and re-normalisation of already normalized settings
    for a, b in (("None", "1024"), ("2", "np.int64(2)"), ("'80B'", "2"), ("-1", "4"), ("'auto'", "4"), ("2", "3")):
        left, _ = construct(fs, LAYOUTS["regular4"], (4, 20), RECORDS_PER_CHUNK[a])
        right, _ = construct(fs, LAYOUTS["regular4"], (4, 20), RECORDS_PER_CHUNK[b])
        results[f"eq {a} {b}"] = canon(left == right)
        again = dataclasses.replace(left)
        results[f"replace {a}"] = describe(again) + f" equal={left == again}"

    # positional construction
    arr = Array(fs, "image-file", LAYOUTS["regular4"], (4, 20), "uint16", "IU2", "80B")
    results["positional"] = describe(arr)

    fs.take_log()
    return results


# recorded from the unchanged code (HEAD 405b008) with `python equiv.py --record`
EXPECTED = {'regular4 rpc=None': '{\'records_per_chunk\': \'int:1024\', \'chunk_offsets\': "dict{int:0: '
                      'dict{str:\'offset\': int:20, str:\'size\': int:220}}", \'chunks\': \'tuple(int:1024, '
                      'int:20)\', \'ndim\': \'int:2\', \'repr\': "Array(url=\'image-file\', shape=(4, 20), '
                      'dtype=\'uint16\', records_per_chunk=1024)", \'fields\': "list(str:\'fs\', '
                      "str:'url', str:'byte_ranges', str:'shape', str:'dtype', str:'type_code', "
                      'str:\'records_per_chunk\', str:\'chunk_offsets\')", \'byte_ranges is\': True}',
 'regular4 rpc=1': '{\'records_per_chunk\': \'int:1\', \'chunk_offsets\': "dict{int:0: dict{str:\'offset\': '
                   "int:20, str:'size': int:40}, int:1: dict{str:'offset': int:80, str:'size': int:40}, "
                   "int:2: dict{str:'offset': int:140, str:'size': int:40}, int:3: dict{str:'offset': "
                   'int:200, str:\'size\': int:40}}", \'chunks\': \'tuple(int:1, int:20)\', \'ndim\': '
                   '\'int:2\', \'repr\': "Array(url=\'image-file\', shape=(4, 20), dtype=\'uint16\', '
                   'records_per_chunk=1)", \'fields\': "list(str:\'fs\', str:\'url\', str:\'byte_ranges\', '
                   "str:'shape', str:'dtype', str:'type_code', str:'records_per_chunk', "
                   'str:\'chunk_offsets\')", \'byte_ranges is\': True}',
 'regular4 rpc=2': '{\'records_per_chunk\': \'int:2\', \'chunk_offsets\': "dict{int:0: dict{str:\'offset\': '
                   "int:20, str:'size': int:100}, int:1: dict{str:'offset': int:140, str:'size': "
                   'int:100}}", \'chunks\': \'tuple(int:2, int:20)\', \'ndim\': \'int:2\', \'repr\': '
                   '"Array(url=\'image-file\', shape=(4, 20), dtype=\'uint16\', records_per_chunk=2)", '
                   '\'fields\': "list(str:\'fs\', str:\'url\', str:\'byte_ranges\', str:\'shape\', '
                   'str:\'dtype\', str:\'type_code\', str:\'records_per_chunk\', str:\'chunk_offsets\')", '
                   "'byte_ranges is': True}",
 'regular4 rpc=3': '{\'records_per_chunk\': \'int:3\', \'chunk_offsets\': "dict{int:0: dict{str:\'offset\': '
                   "int:20, str:'size': int:160}, int:1: dict{str:'offset': int:200, str:'size': "
                   'int:40}}", \'chunks\': \'tuple(int:3, int:20)\', \'ndim\': \'int:2\', \'repr\': '
                   '"Array(url=\'image-file\', shape=(4, 20), dtype=\'uint16\', records_per_chunk=3)", '
                   '\'fields\': "list(str:\'fs\', str:\'url\', str:\'byte_ranges\', str:\'shape\', '
                   'str:\'dtype\', str:\'type_code\', str:\'records_per_chunk\', str:\'chunk_offsets\')", '
                   "'byte_ranges is': True}",
 'regular4 rpc=4': '{\'records_per_chunk\': \'int:4\', \'chunk_offsets\': "dict{int:0: dict{str:\'offset\': '
                   'int:20, str:\'size\': int:220}}", \'chunks\': \'tuple(int:4, int:20)\', \'ndim\': '
                   '\'int:2\', \'repr\': "Array(url=\'image-file\', shape=(4, 20), dtype=\'uint16\', '
                   'records_per_chunk=4)", \'fields\': "list(str:\'fs\', str:\'url\', str:\'byte_ranges\', '
                   "str:'shape', str:'dtype', str:'type_code', str:'records_per_chunk', "
                   'str:\'chunk_offsets\')", \'byte_ranges is\': True}',
 'regular4 rpc=5': '{\'records_per_chunk\': \'int:4\', \'chunk_offsets\': "dict{int:0: dict{str:\'offset\': '
                   'int:20, str:\'size\': int:220}}", \'chunks\': \'tuple(int:4, int:20)\', \'ndim\': '
                   '\'int:2\', \'repr\': "Array(url=\'image-file\', shape=(4, 20), dtype=\'uint16\', '
                   'records_per_chunk=4)", \'fields\': "list(str:\'fs\', str:\'url\', str:\'byte_ranges\', '
                   "str:'shape', str:'dtype', str:'type_code', str:'records_per_chunk', "
                   'str:\'chunk_offsets\')", \'byte_ranges is\': True}',
 'regular4 rpc=6': '{\'records_per_chunk\': \'int:4\', \'chunk_offsets\': "dict{int:0: dict{str:\'offset\': '
                   'int:20, str:\'size\': int:220}}", \'chunks\': \'tuple(int:4, int:20)\', \'ndim\': '
                   '\'int:2\', \'repr\': "Array(url=\'image-file\', shape=(4, 20), dtype=\'uint16\', '
                   'records_per_chunk=4)", \'fields\': "list(str:\'fs\', str:\'url\', str:\'byte_ranges\', '
                   "str:'shape', str:'dtype', str:'type_code', str:'records_per_chunk', "
                   'str:\'chunk_offsets\')", \'byte_ranges is\': True}',
 'regular4 rpc=1024': '{\'records_per_chunk\': \'int:4\', \'chunk_offsets\': "dict{int:0: '
                      'dict{str:\'offset\': int:20, str:\'size\': int:220}}", \'chunks\': \'tuple(int:4, '
                      'int:20)\', \'ndim\': \'int:2\', \'repr\': "Array(url=\'image-file\', shape=(4, 20), '
                      'dtype=\'uint16\', records_per_chunk=4)", \'fields\': "list(str:\'fs\', str:\'url\', '
                      "str:'byte_ranges', str:'shape', str:'dtype', str:'type_code', "
                      'str:\'records_per_chunk\', str:\'chunk_offsets\')", \'byte_ranges is\': True}',
 'regular4 rpc=-1': '{\'records_per_chunk\': \'int:4\', \'chunk_offsets\': "dict{int:0: dict{str:\'offset\': '
                    'int:20, str:\'size\': int:220}}", \'chunks\': \'tuple(int:4, int:20)\', \'ndim\': '
                    '\'int:2\', \'repr\': "Array(url=\'image-file\', shape=(4, 20), dtype=\'uint16\', '
                    'records_per_chunk=4)", \'fields\': "list(str:\'fs\', str:\'url\', str:\'byte_ranges\', '
                    "str:'shape', str:'dtype', str:'type_code', str:'records_per_chunk', "
                    'str:\'chunk_offsets\')", \'byte_ranges is\': True}',
 'regular4 rpc=True': '{\'records_per_chunk\': \'bool:True\', \'chunk_offsets\': "dict{int:0: '
                      "dict{str:'offset': int:20, str:'size': int:40}, int:1: dict{str:'offset': int:80, "
                      "str:'size': int:40}, int:2: dict{str:'offset': int:140, str:'size': int:40}, int:3: "
                      'dict{str:\'offset\': int:200, str:\'size\': int:40}}", \'chunks\': \'tuple(bool:True, '
                      'int:20)\', \'ndim\': \'int:2\', \'repr\': "Array(url=\'image-file\', shape=(4, 20), '
                      'dtype=\'uint16\', records_per_chunk=True)", \'fields\': "list(str:\'fs\', '
                      "str:'url', str:'byte_ranges', str:'shape', str:'dtype', str:'type_code', "
                      'str:\'records_per_chunk\', str:\'chunk_offsets\')", \'byte_ranges is\': True}',
 'regular4 rpc=np.int64(2)': '{\'records_per_chunk\': \'int64(2)\', \'chunk_offsets\': "dict{int:0: '
                             "dict{str:'offset': int:20, str:'size': int:100}, int:1: dict{str:'offset': "
                             'int:140, str:\'size\': int:100}}", \'chunks\': \'tuple(int64(2), int:20)\', '
                             '\'ndim\': \'int:2\', \'repr\': "Array(url=\'image-file\', shape=(4, 20), '
                             'dtype=\'uint16\', records_per_chunk=np.int64(2))", \'fields\': '
                             '"list(str:\'fs\', str:\'url\', str:\'byte_ranges\', str:\'shape\', '
                             "str:'dtype', str:'type_code', str:'records_per_chunk', "
                             'str:\'chunk_offsets\')", \'byte_ranges is\': True}',
 'regular4 rpc=np.int64(-1)': '{\'records_per_chunk\': \'int:4\', \'chunk_offsets\': "dict{int:0: '
                              'dict{str:\'offset\': int:20, str:\'size\': int:220}}", \'chunks\': '
                              "'tuple(int:4, int:20)', 'ndim': 'int:2', 'repr': "
                              '"Array(url=\'image-file\', shape=(4, 20), dtype=\'uint16\', '
                              'records_per_chunk=4)", \'fields\': "list(str:\'fs\', str:\'url\', '
                              "str:'byte_ranges', str:'shape', str:'dtype', str:'type_code', "
                              'str:\'records_per_chunk\', str:\'chunk_offsets\')", \'byte_ranges is\': True}',
 'regular4 rpc=np.uint8(9)': '{\'records_per_chunk\': \'int:4\', \'chunk_offsets\': "dict{int:0: '
                             'dict{str:\'offset\': int:20, str:\'size\': int:220}}", \'chunks\': '
                             "'tuple(int:4, int:20)', 'ndim': 'int:2', 'repr': "
                             '"Array(url=\'image-file\', shape=(4, 20), dtype=\'uint16\', '
                             'records_per_chunk=4)", \'fields\': "list(str:\'fs\', str:\'url\', '
                             "str:'byte_ranges', str:'shape', str:'dtype', str:'type_code', "
                             'str:\'records_per_chunk\', str:\'chunk_offsets\')", \'byte_ranges is\': True}',
 'regular4 rpc=IntLike(2)': '{\'records_per_chunk\': \'IntLike:IntLike(2)\', \'chunk_offsets\': "dict{int:0: '
                            "dict{str:'offset': int:20, str:'size': int:100}, int:1: dict{str:'offset': "
                            'int:140, str:\'size\': int:100}}", \'chunks\': \'tuple(IntLike:IntLike(2), '
                            'int:20)\', \'ndim\': \'int:2\', \'repr\': "Array(url=\'image-file\', shape=(4, '
                            '20), dtype=\'uint16\', records_per_chunk=IntLike(2))", \'fields\': '
                            '"list(str:\'fs\', str:\'url\', str:\'byte_ranges\', str:\'shape\', '
                            "str:'dtype', str:'type_code', str:'records_per_chunk', "
                            'str:\'chunk_offsets\')", \'byte_ranges is\': True}',
 'regular4 rpc=IntLike(-1)': '{\'records_per_chunk\': \'int:4\', \'chunk_offsets\': "dict{int:0: '
                             'dict{str:\'offset\': int:20, str:\'size\': int:220}}", \'chunks\': '
                             "'tuple(int:4, int:20)', 'ndim': 'int:2', 'repr': "
                             '"Array(url=\'image-file\', shape=(4, 20), dtype=\'uint16\', '
                             'records_per_chunk=4)", \'fields\': "list(str:\'fs\', str:\'url\', '
                             "str:'byte_ranges', str:'shape', str:'dtype', str:'type_code', "
                             'str:\'records_per_chunk\', str:\'chunk_offsets\')", \'byte_ranges is\': True}',
 'regular4 rpc=IntLike(99)': '{\'records_per_chunk\': \'int:4\', \'chunk_offsets\': "dict{int:0: '
                             'dict{str:\'offset\': int:20, str:\'size\': int:220}}", \'chunks\': '
                             "'tuple(int:4, int:20)', 'ndim': 'int:2', 'repr': "
                             '"Array(url=\'image-file\', shape=(4, 20), dtype=\'uint16\', '
                             'records_per_chunk=4)", \'fields\': "list(str:\'fs\', str:\'url\', '
                             "str:'byte_ranges', str:'shape', str:'dtype', str:'type_code', "
                             'str:\'records_per_chunk\', str:\'chunk_offsets\')", \'byte_ranges is\': True}',
 'regular4 rpc=Fraction(2)': "raise builtins.TypeError: can't multiply sequence by non-int of type "
                             "'Fraction'",
 'regular4 rpc=2.0': "raise builtins.TypeError: can't multiply sequence by non-int of type 'float'",
 'regular4 rpc=nan': "raise builtins.TypeError: can't multiply sequence by non-int of type 'float'",
 'regular4 rpc=inf': '{\'records_per_chunk\': \'int:4\', \'chunk_offsets\': "dict{int:0: '
                     'dict{str:\'offset\': int:20, str:\'size\': int:220}}", \'chunks\': \'tuple(int:4, '
                     'int:20)\', \'ndim\': \'int:2\', \'repr\': "Array(url=\'image-file\', shape=(4, 20), '
                     'dtype=\'uint16\', records_per_chunk=4)", \'fields\': "list(str:\'fs\', str:\'url\', '
                     "str:'byte_ranges', str:'shape', str:'dtype', str:'type_code', str:'records_per_chunk', "
                     'str:\'chunk_offsets\')", \'byte_ranges is\': True}',
 "regular4 rpc='auto'": '{\'records_per_chunk\': \'int64(4)\', \'chunk_offsets\': "dict{int:0: '
                        'dict{str:\'offset\': int:20, str:\'size\': int:220}}", \'chunks\': '
                        "'tuple(int64(4), int:20)', 'ndim': 'int:2', 'repr': "
                        '"Array(url=\'image-file\', shape=(4, 20), dtype=\'uint16\', '
                        'records_per_chunk=np.int64(4))", \'fields\': "list(str:\'fs\', str:\'url\', '
                        "str:'byte_ranges', str:'shape', str:'dtype', str:'type_code', "
                        'str:\'records_per_chunk\', str:\'chunk_offsets\')", \'byte_ranges is\': True}',
 "regular4 rpc=Text('auto')": '{\'records_per_chunk\': \'int64(4)\', \'chunk_offsets\': "dict{int:0: '
                              'dict{str:\'offset\': int:20, str:\'size\': int:220}}", \'chunks\': '
                              "'tuple(int64(4), int:20)', 'ndim': 'int:2', 'repr': "
                              '"Array(url=\'image-file\', shape=(4, 20), dtype=\'uint16\', '
                              'records_per_chunk=np.int64(4))", \'fields\': "list(str:\'fs\', str:\'url\', '
                              "str:'byte_ranges', str:'shape', str:'dtype', str:'type_code', "
                              'str:\'records_per_chunk\', str:\'chunk_offsets\')", \'byte_ranges is\': True}',
 "regular4 rpc='AUTO'": "raise builtins.ValueError: Could not interpret 'AUTO' as a byte unit",
 "regular4 rpc=' auto'": "raise builtins.ValueError: Could not interpret 'auto' as a byte unit",
 "regular4 rpc='1B'": '{\'records_per_chunk\': \'int64(1)\', \'chunk_offsets\': "dict{int:0: '
                      "dict{str:'offset': int:20, str:'size': int:40}, int:1: dict{str:'offset': int:80, "
                      "str:'size': int:40}, int:2: dict{str:'offset': int:140, str:'size': int:40}, int:3: "
                      'dict{str:\'offset\': int:200, str:\'size\': int:40}}", \'chunks\': \'tuple(int64(1), '
                      'int:20)\', \'ndim\': \'int:2\', \'repr\': "Array(url=\'image-file\', shape=(4, 20), '
                      'dtype=\'uint16\', records_per_chunk=np.int64(1))", \'fields\': "list(str:\'fs\', '
                      "str:'url', str:'byte_ranges', str:'shape', str:'dtype', str:'type_code', "
                      'str:\'records_per_chunk\', str:\'chunk_offsets\')", \'byte_ranges is\': True}',
 "regular4 rpc='39B'": '{\'records_per_chunk\': \'int64(1)\', \'chunk_offsets\': "dict{int:0: '
                       "dict{str:'offset': int:20, str:'size': int:40}, int:1: dict{str:'offset': int:80, "
                       "str:'size': int:40}, int:2: dict{str:'offset': int:140, str:'size': int:40}, int:3: "
                       'dict{str:\'offset\': int:200, str:\'size\': int:40}}", \'chunks\': \'tuple(int64(1), '
                       'int:20)\', \'ndim\': \'int:2\', \'repr\': "Array(url=\'image-file\', shape=(4, 20), '
                       'dtype=\'uint16\', records_per_chunk=np.int64(1))", \'fields\': "list(str:\'fs\', '
                       "str:'url', str:'byte_ranges', str:'shape', str:'dtype', str:'type_code', "
                       'str:\'records_per_chunk\', str:\'chunk_offsets\')", \'byte_ranges is\': True}',
 "regular4 rpc='40B'": '{\'records_per_chunk\': \'int64(1)\', \'chunk_offsets\': "dict{int:0: '
                       "dict{str:'offset': int:20, str:'size': int:40}, int:1: dict{str:'offset': int:80, "
                       "str:'size': int:40}, int:2: dict{str:'offset': int:140, str:'size': int:40}, int:3: "
                       'dict{str:\'offset\': int:200, str:\'size\': int:40}}", \'chunks\': \'tuple(int64(1), '
                       'int:20)\', \'ndim\': \'int:2\', \'repr\': "Array(url=\'image-file\', shape=(4, 20), '
                       'dtype=\'uint16\', records_per_chunk=np.int64(1))", \'fields\': "list(str:\'fs\', '
                       "str:'url', str:'byte_ranges', str:'shape', str:'dtype', str:'type_code', "
                       'str:\'records_per_chunk\', str:\'chunk_offsets\')", \'byte_ranges is\': True}',
 "regular4 rpc='60B'": '{\'records_per_chunk\': \'int64(1)\', \'chunk_offsets\': "dict{int:0: '
                       "dict{str:'offset': int:20, str:'size': int:40}, int:1: dict{str:'offset': int:80, "
                       "str:'size': int:40}, int:2: dict{str:'offset': int:140, str:'size': int:40}, int:3: "
                       'dict{str:\'offset\': int:200, str:\'size\': int:40}}", \'chunks\': \'tuple(int64(1), '
                       'int:20)\', \'ndim\': \'int:2\', \'repr\': "Array(url=\'image-file\', shape=(4, 20), '
                       'dtype=\'uint16\', records_per_chunk=np.int64(1))", \'fields\': "list(str:\'fs\', '
                       "str:'url', str:'byte_ranges', str:'shape', str:'dtype', str:'type_code', "
                       'str:\'records_per_chunk\', str:\'chunk_offsets\')", \'byte_ranges is\': True}',
 "regular4 rpc='61B'": '{\'records_per_chunk\': \'int64(2)\', \'chunk_offsets\': "dict{int:0: '
                       "dict{str:'offset': int:20, str:'size': int:100}, int:1: dict{str:'offset': int:140, "
                       'str:\'size\': int:100}}", \'chunks\': \'tuple(int64(2), int:20)\', \'ndim\': '
                       '\'int:2\', \'repr\': "Array(url=\'image-file\', shape=(4, 20), dtype=\'uint16\', '
                       'records_per_chunk=np.int64(2))", \'fields\': "list(str:\'fs\', str:\'url\', '
                       "str:'byte_ranges', str:'shape', str:'dtype', str:'type_code', "
                       'str:\'records_per_chunk\', str:\'chunk_offsets\')", \'byte_ranges is\': True}',
 "regular4 rpc='80B'": '{\'records_per_chunk\': \'int64(2)\', \'chunk_offsets\': "dict{int:0: '
                       "dict{str:'offset': int:20, str:'size': int:100}, int:1: dict{str:'offset': int:140, "
                       'str:\'size\': int:100}}", \'chunks\': \'tuple(int64(2), int:20)\', \'ndim\': '
                       '\'int:2\', \'repr\': "Array(url=\'image-file\', shape=(4, 20), dtype=\'uint16\', '
                       'records_per_chunk=np.int64(2))", \'fields\': "list(str:\'fs\', str:\'url\', '
                       "str:'byte_ranges', str:'shape', str:'dtype', str:'type_code', "
                       'str:\'records_per_chunk\', str:\'chunk_offsets\')", \'byte_ranges is\': True}',
 "regular4 rpc='100 B'": '{\'records_per_chunk\': \'int64(2)\', \'chunk_offsets\': "dict{int:0: '
                         "dict{str:'offset': int:20, str:'size': int:100}, int:1: dict{str:'offset': "
                         'int:140, str:\'size\': int:100}}", \'chunks\': \'tuple(int64(2), int:20)\', '
                         '\'ndim\': \'int:2\', \'repr\': "Array(url=\'image-file\', shape=(4, 20), '
                         'dtype=\'uint16\', records_per_chunk=np.int64(2))", \'fields\': "list(str:\'fs\', '
                         "str:'url', str:'byte_ranges', str:'shape', str:'dtype', str:'type_code', "
                         'str:\'records_per_chunk\', str:\'chunk_offsets\')", \'byte_ranges is\': True}',
 "regular4 rpc='0.1kB'": '{\'records_per_chunk\': \'int64(2)\', \'chunk_offsets\': "dict{int:0: '
                         "dict{str:'offset': int:20, str:'size': int:100}, int:1: dict{str:'offset': "
                         'int:140, str:\'size\': int:100}}", \'chunks\': \'tuple(int64(2), int:20)\', '
                         '\'ndim\': \'int:2\', \'repr\': "Array(url=\'image-file\', shape=(4, 20), '
                         'dtype=\'uint16\', records_per_chunk=np.int64(2))", \'fields\': "list(str:\'fs\', '
                         "str:'url', str:'byte_ranges', str:'shape', str:'dtype', str:'type_code', "
                         'str:\'records_per_chunk\', str:\'chunk_offsets\')", \'byte_ranges is\': True}',
 "regular4 rpc='1kB'": '{\'records_per_chunk\': \'int64(4)\', \'chunk_offsets\': "dict{int:0: '
                       'dict{str:\'offset\': int:20, str:\'size\': int:220}}", \'chunks\': \'tuple(int64(4), '
                       'int:20)\', \'ndim\': \'int:2\', \'repr\': "Array(url=\'image-file\', shape=(4, 20), '
                       'dtype=\'uint16\', records_per_chunk=np.int64(4))", \'fields\': "list(str:\'fs\', '
                       "str:'url', str:'byte_ranges', str:'shape', str:'dtype', str:'type_code', "
                       'str:\'records_per_chunk\', str:\'chunk_offsets\')", \'byte_ranges is\': True}',
 "regular4 rpc='1KiB'": '{\'records_per_chunk\': \'int64(4)\', \'chunk_offsets\': "dict{int:0: '
                        'dict{str:\'offset\': int:20, str:\'size\': int:220}}", \'chunks\': '
                        "'tuple(int64(4), int:20)', 'ndim': 'int:2', 'repr': "
                        '"Array(url=\'image-file\', shape=(4, 20), dtype=\'uint16\', '
                        'records_per_chunk=np.int64(4))", \'fields\': "list(str:\'fs\', str:\'url\', '
                        "str:'byte_ranges', str:'shape', str:'dtype', str:'type_code', "
                        'str:\'records_per_chunk\', str:\'chunk_offsets\')", \'byte_ranges is\': True}',
 "regular4 rpc='1e2'": '{\'records_per_chunk\': \'int64(2)\', \'chunk_offsets\': "dict{int:0: '
                       "dict{str:'offset': int:20, str:'size': int:100}, int:1: dict{str:'offset': int:140, "
                       'str:\'size\': int:100}}", \'chunks\': \'tuple(int64(2), int:20)\', \'ndim\': '
                       '\'int:2\', \'repr\': "Array(url=\'image-file\', shape=(4, 20), dtype=\'uint16\', '
                       'records_per_chunk=np.int64(2))", \'fields\': "list(str:\'fs\', str:\'url\', '
                       "str:'byte_ranges', str:'shape', str:'dtype', str:'type_code', "
                       'str:\'records_per_chunk\', str:\'chunk_offsets\')", \'byte_ranges is\': True}',
 "regular4 rpc='120'": '{\'records_per_chunk\': \'int64(3)\', \'chunk_offsets\': "dict{int:0: '
                       "dict{str:'offset': int:20, str:'size': int:160}, int:1: dict{str:'offset': int:200, "
                       'str:\'size\': int:40}}", \'chunks\': \'tuple(int64(3), int:20)\', \'ndim\': '
                       '\'int:2\', \'repr\': "Array(url=\'image-file\', shape=(4, 20), dtype=\'uint16\', '
                       'records_per_chunk=np.int64(3))", \'fields\': "list(str:\'fs\', str:\'url\', '
                       "str:'byte_ranges', str:'shape', str:'dtype', str:'type_code', "
                       'str:\'records_per_chunk\', str:\'chunk_offsets\')", \'byte_ranges is\': True}',
 "regular4 rpc='2'": '{\'records_per_chunk\': \'int64(1)\', \'chunk_offsets\': "dict{int:0: '
                     "dict{str:'offset': int:20, str:'size': int:40}, int:1: dict{str:'offset': int:80, "
                     "str:'size': int:40}, int:2: dict{str:'offset': int:140, str:'size': int:40}, int:3: "
                     'dict{str:\'offset\': int:200, str:\'size\': int:40}}", \'chunks\': \'tuple(int64(1), '
                     'int:20)\', \'ndim\': \'int:2\', \'repr\': "Array(url=\'image-file\', shape=(4, 20), '
                     'dtype=\'uint16\', records_per_chunk=np.int64(1))", \'fields\': "list(str:\'fs\', '
                     "str:'url', str:'byte_ranges', str:'shape', str:'dtype', str:'type_code', "
                     'str:\'records_per_chunk\', str:\'chunk_offsets\')", \'byte_ranges is\': True}',
 "regular4 rpc='0'": '{\'records_per_chunk\': \'int64(1)\', \'chunk_offsets\': "dict{int:0: '
                     "dict{str:'offset': int:20, str:'size': int:40}, int:1: dict{str:'offset': int:80, "
                     "str:'size': int:40}, int:2: dict{str:'offset': int:140, str:'size': int:40}, int:3: "
                     'dict{str:\'offset\': int:200, str:\'size\': int:40}}", \'chunks\': \'tuple(int64(1), '
                     'int:20)\', \'ndim\': \'int:2\', \'repr\': "Array(url=\'image-file\', shape=(4, 20), '
                     'dtype=\'uint16\', records_per_chunk=np.int64(1))", \'fields\': "list(str:\'fs\', '
                     "str:'url', str:'byte_ranges', str:'shape', str:'dtype', str:'type_code', "
                     'str:\'records_per_chunk\', str:\'chunk_offsets\')", \'byte_ranges is\': True}',
 "regular4 rpc='-1'": '{\'records_per_chunk\': \'int64(1)\', \'chunk_offsets\': "dict{int:0: '
                      "dict{str:'offset': int:20, str:'size': int:40}, int:1: dict{str:'offset': int:80, "
                      "str:'size': int:40}, int:2: dict{str:'offset': int:140, str:'size': int:40}, int:3: "
                      'dict{str:\'offset\': int:200, str:\'size\': int:40}}", \'chunks\': \'tuple(int64(1), '
                      'int:20)\', \'ndim\': \'int:2\', \'repr\': "Array(url=\'image-file\', shape=(4, 20), '
                      'dtype=\'uint16\', records_per_chunk=np.int64(1))", \'fields\': "list(str:\'fs\', '
                      "str:'url', str:'byte_ranges', str:'shape', str:'dtype', str:'type_code', "
                      'str:\'records_per_chunk\', str:\'chunk_offsets\')", \'byte_ranges is\': True}',
 "regular4 rpc='-80B'": '{\'records_per_chunk\': \'int64(1)\', \'chunk_offsets\': "dict{int:0: '
                        "dict{str:'offset': int:20, str:'size': int:40}, int:1: dict{str:'offset': int:80, "
                        "str:'size': int:40}, int:2: dict{str:'offset': int:140, str:'size': int:40}, int:3: "
                        'dict{str:\'offset\': int:200, str:\'size\': int:40}}", \'chunks\': '
                        "'tuple(int64(1), int:20)', 'ndim': 'int:2', 'repr': "
                        '"Array(url=\'image-file\', shape=(4, 20), dtype=\'uint16\', '
                        'records_per_chunk=np.int64(1))", \'fields\': "list(str:\'fs\', str:\'url\', '
                        "str:'byte_ranges', str:'shape', str:'dtype', str:'type_code', "
                        'str:\'records_per_chunk\', str:\'chunk_offsets\')", \'byte_ranges is\': True}',
 "regular4 rpc='5GB'": '{\'records_per_chunk\': \'int64(4)\', \'chunk_offsets\': "dict{int:0: '
                       'dict{str:\'offset\': int:20, str:\'size\': int:220}}", \'chunks\': \'tuple(int64(4), '
                       'int:20)\', \'ndim\': \'int:2\', \'repr\': "Array(url=\'image-file\', shape=(4, 20), '
                       'dtype=\'uint16\', records_per_chunk=np.int64(4))", \'fields\': "list(str:\'fs\', '
                       "str:'url', str:'byte_ranges', str:'shape', str:'dtype', str:'type_code', "
                       'str:\'records_per_chunk\', str:\'chunk_offsets\')", \'byte_ranges is\': True}',
 "regular4 rpc='MB'": '{\'records_per_chunk\': \'int64(4)\', \'chunk_offsets\': "dict{int:0: '
                      'dict{str:\'offset\': int:20, str:\'size\': int:220}}", \'chunks\': \'tuple(int64(4), '
                      'int:20)\', \'ndim\': \'int:2\', \'repr\': "Array(url=\'image-file\', shape=(4, 20), '
                      'dtype=\'uint16\', records_per_chunk=np.int64(4))", \'fields\': "list(str:\'fs\', '
                      "str:'url', str:'byte_ranges', str:'shape', str:'dtype', str:'type_code', "
                      'str:\'records_per_chunk\', str:\'chunk_offsets\')", \'byte_ranges is\': True}',
 "regular4 rpc=''": '{\'records_per_chunk\': \'int64(1)\', \'chunk_offsets\': "dict{int:0: '
                    "dict{str:'offset': int:20, str:'size': int:40}, int:1: dict{str:'offset': int:80, "
                    "str:'size': int:40}, int:2: dict{str:'offset': int:140, str:'size': int:40}, int:3: "
                    'dict{str:\'offset\': int:200, str:\'size\': int:40}}", \'chunks\': \'tuple(int64(1), '
                    'int:20)\', \'ndim\': \'int:2\', \'repr\': "Array(url=\'image-file\', shape=(4, 20), '
                    'dtype=\'uint16\', records_per_chunk=np.int64(1))", \'fields\': "list(str:\'fs\', '
                    "str:'url', str:'byte_ranges', str:'shape', str:'dtype', str:'type_code', "
                    'str:\'records_per_chunk\', str:\'chunk_offsets\')", \'byte_ranges is\': True}',
 "regular4 rpc='B'": '{\'records_per_chunk\': \'int64(1)\', \'chunk_offsets\': "dict{int:0: '
                     "dict{str:'offset': int:20, str:'size': int:40}, int:1: dict{str:'offset': int:80, "
                     "str:'size': int:40}, int:2: dict{str:'offset': int:140, str:'size': int:40}, int:3: "
                     'dict{str:\'offset\': int:200, str:\'size\': int:40}}", \'chunks\': \'tuple(int64(1), '
                     'int:20)\', \'ndim\': \'int:2\', \'repr\': "Array(url=\'image-file\', shape=(4, 20), '
                     'dtype=\'uint16\', records_per_chunk=np.int64(1))", \'fields\': "list(str:\'fs\', '
                     "str:'url', str:'byte_ranges', str:'shape', str:'dtype', str:'type_code', "
                     'str:\'records_per_chunk\', str:\'chunk_offsets\')", \'byte_ranges is\': True}',
 "regular4 rpc='5 foos'": "raise builtins.ValueError: Could not interpret 'foos' as a byte unit",
 "regular4 rpc='abc'": "raise builtins.ValueError: Could not interpret 'abc' as a byte unit",
 "regular4 rpc='1.2.3B'": "raise builtins.ValueError: Could not interpret '1.2.3' as a number",
 "regular4 rpc=Text('80B')": '{\'records_per_chunk\': \'int64(2)\', \'chunk_offsets\': "dict{int:0: '
                             "dict{str:'offset': int:20, str:'size': int:100}, int:1: dict{str:'offset': "
                             'int:140, str:\'size\': int:100}}", \'chunks\': \'tuple(int64(2), int:20)\', '
                             '\'ndim\': \'int:2\', \'repr\': "Array(url=\'image-file\', shape=(4, 20), '
                             'dtype=\'uint16\', records_per_chunk=np.int64(2))", \'fields\': '
                             '"list(str:\'fs\', str:\'url\', str:\'byte_ranges\', str:\'shape\', '
                             "str:'dtype', str:'type_code', str:'records_per_chunk', "
                             'str:\'chunk_offsets\')", \'byte_ranges is\': True}',
 "regular4 rpc=b'auto'": "raise builtins.TypeError: '>' not supported between instances of 'bytes' and 'int'",
 "regular4 rpc=b'80B'": "raise builtins.TypeError: '>' not supported between instances of 'bytes' and 'int'",
 'regular4 rpc=[2]': "raise builtins.TypeError: '>' not supported between instances of 'list' and 'int'",
 'regular4 rpc=(2,)': "raise builtins.TypeError: '>' not supported between instances of 'tuple' and 'int'",
 'regular4 rpc={}': "raise builtins.TypeError: '>' not supported between instances of 'dict' and 'int'",
 'regular4 rpc=2j': "raise builtins.TypeError: '>' not supported between instances of 'complex' and 'int'",
 'regular4 rpc=object': "raise builtins.TypeError: '>' not supported between instances of 'type' and 'int'",
 'regular4 rpc not given': '{\'records_per_chunk\': \'int:1024\', \'chunk_offsets\': "dict{int:0: '
                           'dict{str:\'offset\': int:20, str:\'size\': int:220}}", \'chunks\': '
                           "'tuple(int:1024, int:20)', 'ndim': 'int:2', 'repr': "
                           '"Array(url=\'image-file\', shape=(4, 20), dtype=\'uint16\', '
                           'records_per_chunk=1024)", \'fields\': "list(str:\'fs\', str:\'url\', '
                           "str:'byte_ranges', str:'shape', str:'dtype', str:'type_code', "
                           'str:\'records_per_chunk\', str:\'chunk_offsets\')", \'byte_ranges is\': True}',
 'regular1 rpc=None': '{\'records_per_chunk\': \'int:1024\', \'chunk_offsets\': "dict{int:0: '
                      'dict{str:\'offset\': int:20, str:\'size\': int:40}}", \'chunks\': \'tuple(int:1024, '
                      'int:20)\', \'ndim\': \'int:2\', \'repr\': "Array(url=\'image-file\', shape=(1, 20), '
                      'dtype=\'uint16\', records_per_chunk=1024)", \'fields\': "list(str:\'fs\', '
                      "str:'url', str:'byte_ranges', str:'shape', str:'dtype', str:'type_code', "
                      'str:\'records_per_chunk\', str:\'chunk_offsets\')", \'byte_ranges is\': True}',
 'regular1 rpc=1': '{\'records_per_chunk\': \'int:1\', \'chunk_offsets\': "dict{int:0: dict{str:\'offset\': '
                   'int:20, str:\'size\': int:40}}", \'chunks\': \'tuple(int:1, int:20)\', \'ndim\': '
                   '\'int:2\', \'repr\': "Array(url=\'image-file\', shape=(1, 20), dtype=\'uint16\', '
                   'records_per_chunk=1)", \'fields\': "list(str:\'fs\', str:\'url\', str:\'byte_ranges\', '
                   "str:'shape', str:'dtype', str:'type_code', str:'records_per_chunk', "
                   'str:\'chunk_offsets\')", \'byte_ranges is\': True}',
 'regular1 rpc=2': '{\'records_per_chunk\': \'int:1\', \'chunk_offsets\': "dict{int:0: dict{str:\'offset\': '
                   'int:20, str:\'size\': int:40}}", \'chunks\': \'tuple(int:1, int:20)\', \'ndim\': '
                   '\'int:2\', \'repr\': "Array(url=\'image-file\', shape=(1, 20), dtype=\'uint16\', '
                   'records_per_chunk=1)", \'fields\': "list(str:\'fs\', str:\'url\', str:\'byte_ranges\', '
                   "str:'shape', str:'dtype', str:'type_code', str:'records_per_chunk', "
                   'str:\'chunk_offsets\')", \'byte_ranges is\': True}',
 'regular1 rpc=3': '{\'records_per_chunk\': \'int:1\', \'chunk_offsets\': "dict{int:0: dict{str:\'offset\': '
                   'int:20, str:\'size\': int:40}}", \'chunks\': \'tuple(int:1, int:20)\', \'ndim\': '
                   '\'int:2\', \'repr\': "Array(url=\'image-file\', shape=(1, 20), dtype=\'uint16\', '
                   'records_per_chunk=1)", \'fields\': "list(str:\'fs\', str:\'url\', str:\'byte_ranges\', '
                   "str:'shape', str:'dtype', str:'type_code', str:'records_per_chunk', "
                   'str:\'chunk_offsets\')", \'byte_ranges is\': True}',
 'regular1 rpc=4': '{\'records_per_chunk\': \'int:1\', \'chunk_offsets\': "dict{int:0: dict{str:\'offset\': '
                   'int:20, str:\'size\': int:40}}", \'chunks\': \'tuple(int:1, int:20)\', \'ndim\': '
                   '\'int:2\', \'repr\': "Array(url=\'image-file\', shape=(1, 20), dtype=\'uint16\', '
                   'records_per_chunk=1)", \'fields\': "list(str:\'fs\', str:\'url\', str:\'byte_ranges\', '
                   "str:'shape', str:'dtype', str:'type_code', str:'records_per_chunk', "
                   'str:\'chunk_offsets\')", \'byte_ranges is\': True}',
 'regular1 rpc=5': '{\'records_per_chunk\': \'int:1\', \'chunk_offsets\': "dict{int:0: dict{str:\'offset\': '
                   'int:20, str:\'size\': int:40}}", \'chunks\': \'tuple(int:1, int:20)\', \'ndim\': '
                   '\'int:2\', \'repr\': "Array(url=\'image-file\', shape=(1, 20), dtype=\'uint16\', '
                   'records_per_chunk=1)", \'fields\': "list(str:\'fs\', str:\'url\', str:\'byte_ranges\', '
                   "str:'shape', str:'dtype', str:'type_code', str:'records_per_chunk', "
                   'str:\'chunk_offsets\')", \'byte_ranges is\': True}',
 'regular1 rpc=6': '{\'records_per_chunk\': \'int:1\', \'chunk_offsets\': "dict{int:0: dict{str:\'offset\': '
                   'int:20, str:\'size\': int:40}}", \'chunks\': \'tuple(int:1, int:20)\', \'ndim\': '
                   '\'int:2\', \'repr\': "Array(url=\'image-file\', shape=(1, 20), dtype=\'uint16\', '
                   'records_per_chunk=1)", \'fields\': "list(str:\'fs\', str:\'url\', str:\'byte_ranges\', '
                   "str:'shape', str:'dtype', str:'type_code', str:'records_per_chunk', "
                   'str:\'chunk_offsets\')", \'byte_ranges is\': True}',
 'regular1 rpc=1024': '{\'records_per_chunk\': \'int:1\', \'chunk_offsets\': "dict{int:0: '
                      'dict{str:\'offset\': int:20, str:\'size\': int:40}}", \'chunks\': \'tuple(int:1, '
                      'int:20)\', \'ndim\': \'int:2\', \'repr\': "Array(url=\'image-file\', shape=(1, 20), '
                      'dtype=\'uint16\', records_per_chunk=1)", \'fields\': "list(str:\'fs\', str:\'url\', '
                      "str:'byte_ranges', str:'shape', str:'dtype', str:'type_code', "
                      'str:\'records_per_chunk\', str:\'chunk_offsets\')", \'byte_ranges is\': True}',
 'regular1 rpc=-1': '{\'records_per_chunk\': \'int:1\', \'chunk_offsets\': "dict{int:0: dict{str:\'offset\': '
                    'int:20, str:\'size\': int:40}}", \'chunks\': \'tuple(int:1, int:20)\', \'ndim\': '
                    '\'int:2\', \'repr\': "Array(url=\'image-file\', shape=(1, 20), dtype=\'uint16\', '
                    'records_per_chunk=1)", \'fields\': "list(str:\'fs\', str:\'url\', str:\'byte_ranges\', '
                    "str:'shape', str:'dtype', str:'type_code', str:'records_per_chunk', "
                    'str:\'chunk_offsets\')", \'byte_ranges is\': True}',
 'regular1 rpc=True': '{\'records_per_chunk\': \'bool:True\', \'chunk_offsets\': "dict{int:0: '
                      'dict{str:\'offset\': int:20, str:\'size\': int:40}}", \'chunks\': \'tuple(bool:True, '
                      'int:20)\', \'ndim\': \'int:2\', \'repr\': "Array(url=\'image-file\', shape=(1, 20), '
                      'dtype=\'uint16\', records_per_chunk=True)", \'fields\': "list(str:\'fs\', '
                      "str:'url', str:'byte_ranges', str:'shape', str:'dtype', str:'type_code', "
                      'str:\'records_per_chunk\', str:\'chunk_offsets\')", \'byte_ranges is\': True}',
 'regular1 rpc=np.int64(2)': '{\'records_per_chunk\': \'int:1\', \'chunk_offsets\': "dict{int:0: '
                             'dict{str:\'offset\': int:20, str:\'size\': int:40}}", \'chunks\': '
                             "'tuple(int:1, int:20)', 'ndim': 'int:2', 'repr': "
                             '"Array(url=\'image-file\', shape=(1, 20), dtype=\'uint16\', '
                             'records_per_chunk=1)", \'fields\': "list(str:\'fs\', str:\'url\', '
                             "str:'byte_ranges', str:'shape', str:'dtype', str:'type_code', "
                             'str:\'records_per_chunk\', str:\'chunk_offsets\')", \'byte_ranges is\': True}',
 'regular1 rpc=np.int64(-1)': '{\'records_per_chunk\': \'int:1\', \'chunk_offsets\': "dict{int:0: '
                              'dict{str:\'offset\': int:20, str:\'size\': int:40}}", \'chunks\': '
                              "'tuple(int:1, int:20)', 'ndim': 'int:2', 'repr': "
                              '"Array(url=\'image-file\', shape=(1, 20), dtype=\'uint16\', '
                              'records_per_chunk=1)", \'fields\': "list(str:\'fs\', str:\'url\', '
                              "str:'byte_ranges', str:'shape', str:'dtype', str:'type_code', "
                              'str:\'records_per_chunk\', str:\'chunk_offsets\')", \'byte_ranges is\': True}',
 'regular1 rpc=np.uint8(9)': '{\'records_per_chunk\': \'int:1\', \'chunk_offsets\': "dict{int:0: '
                             'dict{str:\'offset\': int:20, str:\'size\': int:40}}", \'chunks\': '
                             "'tuple(int:1, int:20)', 'ndim': 'int:2', 'repr': "
                             '"Array(url=\'image-file\', shape=(1, 20), dtype=\'uint16\', '
                             'records_per_chunk=1)", \'fields\': "list(str:\'fs\', str:\'url\', '
                             "str:'byte_ranges', str:'shape', str:'dtype', str:'type_code', "
                             'str:\'records_per_chunk\', str:\'chunk_offsets\')", \'byte_ranges is\': True}',
 'regular1 rpc=IntLike(2)': '{\'records_per_chunk\': \'int:1\', \'chunk_offsets\': "dict{int:0: '
                            'dict{str:\'offset\': int:20, str:\'size\': int:40}}", \'chunks\': '
                            "'tuple(int:1, int:20)', 'ndim': 'int:2', 'repr': "
                            '"Array(url=\'image-file\', shape=(1, 20), dtype=\'uint16\', '
                            'records_per_chunk=1)", \'fields\': "list(str:\'fs\', str:\'url\', '
                            "str:'byte_ranges', str:'shape', str:'dtype', str:'type_code', "
                            'str:\'records_per_chunk\', str:\'chunk_offsets\')", \'byte_ranges is\': True}',
 'regular1 rpc=IntLike(-1)': '{\'records_per_chunk\': \'int:1\', \'chunk_offsets\': "dict{int:0: '
                             'dict{str:\'offset\': int:20, str:\'size\': int:40}}", \'chunks\': '
                             "'tuple(int:1, int:20)', 'ndim': 'int:2', 'repr': "
                             '"Array(url=\'image-file\', shape=(1, 20), dtype=\'uint16\', '
                             'records_per_chunk=1)", \'fields\': "list(str:\'fs\', str:\'url\', '
                             "str:'byte_ranges', str:'shape', str:'dtype', str:'type_code', "
                             'str:\'records_per_chunk\', str:\'chunk_offsets\')", \'byte_ranges is\': True}',
 'regular1 rpc=IntLike(99)': '{\'records_per_chunk\': \'int:1\', \'chunk_offsets\': "dict{int:0: '
                             'dict{str:\'offset\': int:20, str:\'size\': int:40}}", \'chunks\': '
                             "'tuple(int:1, int:20)', 'ndim': 'int:2', 'repr': "
                             '"Array(url=\'image-file\', shape=(1, 20), dtype=\'uint16\', '
                             'records_per_chunk=1)", \'fields\': "list(str:\'fs\', str:\'url\', '
                             "str:'byte_ranges', str:'shape', str:'dtype', str:'type_code', "
                             'str:\'records_per_chunk\', str:\'chunk_offsets\')", \'byte_ranges is\': True}',
 'regular1 rpc=Fraction(2)': '{\'records_per_chunk\': \'int:1\', \'chunk_offsets\': "dict{int:0: '
                             'dict{str:\'offset\': int:20, str:\'size\': int:40}}", \'chunks\': '
                             "'tuple(int:1, int:20)', 'ndim': 'int:2', 'repr': "
                             '"Array(url=\'image-file\', shape=(1, 20), dtype=\'uint16\', '
                             'records_per_chunk=1)", \'fields\': "list(str:\'fs\', str:\'url\', '
                             "str:'byte_ranges', str:'shape', str:'dtype', str:'type_code', "
                             'str:\'records_per_chunk\', str:\'chunk_offsets\')", \'byte_ranges is\': True}',
 'regular1 rpc=2.0': '{\'records_per_chunk\': \'int:1\', \'chunk_offsets\': "dict{int:0: '
                     'dict{str:\'offset\': int:20, str:\'size\': int:40}}", \'chunks\': \'tuple(int:1, '
                     'int:20)\', \'ndim\': \'int:2\', \'repr\': "Array(url=\'image-file\', shape=(1, 20), '
                     'dtype=\'uint16\', records_per_chunk=1)", \'fields\': "list(str:\'fs\', str:\'url\', '
                     "str:'byte_ranges', str:'shape', str:'dtype', str:'type_code', str:'records_per_chunk', "
                     'str:\'chunk_offsets\')", \'byte_ranges is\': True}',
 'regular1 rpc=nan': "raise builtins.TypeError: can't multiply sequence by non-int of type 'float'",
 'regular1 rpc=inf': '{\'records_per_chunk\': \'int:1\', \'chunk_offsets\': "dict{int:0: '
                     'dict{str:\'offset\': int:20, str:\'size\': int:40}}", \'chunks\': \'tuple(int:1, '
                     'int:20)\', \'ndim\': \'int:2\', \'repr\': "Array(url=\'image-file\', shape=(1, 20), '
                     'dtype=\'uint16\', records_per_chunk=1)", \'fields\': "list(str:\'fs\', str:\'url\', '
                     "str:'byte_ranges', str:'shape', str:'dtype', str:'type_code', str:'records_per_chunk', "
                     'str:\'chunk_offsets\')", \'byte_ranges is\': True}',
 "regular1 rpc='auto'": '{\'records_per_chunk\': \'int64(1)\', \'chunk_offsets\': "dict{int:0: '
                        'dict{str:\'offset\': int:20, str:\'size\': int:40}}", \'chunks\': \'tuple(int64(1), '
                        'int:20)\', \'ndim\': \'int:2\', \'repr\': "Array(url=\'image-file\', shape=(1, 20), '
                        'dtype=\'uint16\', records_per_chunk=np.int64(1))", \'fields\': "list(str:\'fs\', '
                        "str:'url', str:'byte_ranges', str:'shape', str:'dtype', str:'type_code', "
                        'str:\'records_per_chunk\', str:\'chunk_offsets\')", \'byte_ranges is\': True}',
 "regular1 rpc=Text('auto')": '{\'records_per_chunk\': \'int64(1)\', \'chunk_offsets\': "dict{int:0: '
                              'dict{str:\'offset\': int:20, str:\'size\': int:40}}", \'chunks\': '
                              "'tuple(int64(1), int:20)', 'ndim': 'int:2', 'repr': "
                              '"Array(url=\'image-file\', shape=(1, 20), dtype=\'uint16\', '
                              'records_per_chunk=np.int64(1))", \'fields\': "list(str:\'fs\', str:\'url\', '
                              "str:'byte_ranges', str:'shape', str:'dtype', str:'type_code', "
                              'str:\'records_per_chunk\', str:\'chunk_offsets\')", \'byte_ranges is\': True}',
 "regular1 rpc='AUTO'": "raise builtins.ValueError: Could not interpret 'AUTO' as a byte unit",
 "regular1 rpc=' auto'": "raise builtins.ValueError: Could not interpret 'auto' as a byte unit",
 "regular1 rpc='1B'": '{\'records_per_chunk\': \'int64(1)\', \'chunk_offsets\': "dict{int:0: '
                      'dict{str:\'offset\': int:20, str:\'size\': int:40}}", \'chunks\': \'tuple(int64(1), '
                      'int:20)\', \'ndim\': \'int:2\', \'repr\': "Array(url=\'image-file\', shape=(1, 20), '
                      'dtype=\'uint16\', records_per_chunk=np.int64(1))", \'fields\': "list(str:\'fs\', '
                      "str:'url', str:'byte_ranges', str:'shape', str:'dtype', str:'type_code', "
                      'str:\'records_per_chunk\', str:\'chunk_offsets\')", \'byte_ranges is\': True}',
 "regular1 rpc='39B'": '{\'records_per_chunk\': \'int64(1)\', \'chunk_offsets\': "dict{int:0: '
                       'dict{str:\'offset\': int:20, str:\'size\': int:40}}", \'chunks\': \'tuple(int64(1), '
                       'int:20)\', \'ndim\': \'int:2\', \'repr\': "Array(url=\'image-file\', shape=(1, 20), '
                       'dtype=\'uint16\', records_per_chunk=np.int64(1))", \'fields\': "list(str:\'fs\', '
                       "str:'url', str:'byte_ranges', str:'shape', str:'dtype', str:'type_code', "
                       'str:\'records_per_chunk\', str:\'chunk_offsets\')", \'byte_ranges is\': True}',
 "regular1 rpc='40B'": '{\'records_per_chunk\': \'int64(1)\', \'chunk_offsets\': "dict{int:0: '
                       'dict{str:\'offset\': int:20, str:\'size\': int:40}}", \'chunks\': \'tuple(int64(1), '
                       'int:20)\', \'ndim\': \'int:2\', \'repr\': "Array(url=\'image-file\', shape=(1, 20), '
                       'dtype=\'uint16\', records_per_chunk=np.int64(1))", \'fields\': "list(str:\'fs\', '
                       "str:'url', str:'byte_ranges', str:'shape', str:'dtype', str:'type_code', "
                       'str:\'records_per_chunk\', str:\'chunk_offsets\')", \'byte_ranges is\': True}',
 "regular1 rpc='60B'": '{\'records_per_chunk\': \'int64(1)\', \'chunk_offsets\': "dict{int:0: '
                       'dict{str:\'offset\': int:20, str:\'size\': int:40}}", \'chunks\': \'tuple(int64(1), '
                       'int:20)\', \'ndim\': \'int:2\', \'repr\': "Array(url=\'image-file\', shape=(1, 20), '
                       'dtype=\'uint16\', records_per_chunk=np.int64(1))", \'fields\': "list(str:\'fs\', '
                       "str:'url', str:'byte_ranges', str:'shape', str:'dtype', str:'type_code', "
                       'str:\'records_per_chunk\', str:\'chunk_offsets\')", \'byte_ranges is\': True}',
 "regular1 rpc='61B'": '{\'records_per_chunk\': \'int64(1)\', \'chunk_offsets\': "dict{int:0: '
                       'dict{str:\'offset\': int:20, str:\'size\': int:40}}", \'chunks\': \'tuple(int64(1), '
                       'int:20)\', \'ndim\': \'int:2\', \'repr\': "Array(url=\'image-file\', shape=(1, 20), '
                       'dtype=\'uint16\', records_per_chunk=np.int64(1))", \'fields\': "list(str:\'fs\', '
                       "str:'url', str:'byte_ranges', str:'shape', str:'dtype', str:'type_code', "
                       'str:\'records_per_chunk\', str:\'chunk_offsets\')", \'byte_ranges is\': True}',
 "regular1 rpc='80B'": '{\'records_per_chunk\': \'int64(1)\', \'chunk_offsets\': "dict{int:0: '
                       'dict{str:\'offset\': int:20, str:\'size\': int:40}}", \'chunks\': \'tuple(int64(1), '
                       'int:20)\', \'ndim\': \'int:2\', \'repr\': "Array(url=\'image-file\', shape=(1, 20), '
                       'dtype=\'uint16\', records_per_chunk=np.int64(1))", \'fields\': "list(str:\'fs\', '
                       "str:'url', str:'byte_ranges', str:'shape', str:'dtype', str:'type_code', "
                       'str:\'records_per_chunk\', str:\'chunk_offsets\')", \'byte_ranges is\': True}',
 "regular1 rpc='100 B'": '{\'records_per_chunk\': \'int64(1)\', \'chunk_offsets\': "dict{int:0: '
                         'dict{str:\'offset\': int:20, str:\'size\': int:40}}", \'chunks\': '
                         "'tuple(int64(1), int:20)', 'ndim': 'int:2', 'repr': "
                         '"Array(url=\'image-file\', shape=(1, 20), dtype=\'uint16\', '
                         'records_per_chunk=np.int64(1))", \'fields\': "list(str:\'fs\', str:\'url\', '
                         "str:'byte_ranges', str:'shape', str:'dtype', str:'type_code', "
                         'str:\'records_per_chunk\', str:\'chunk_offsets\')", \'byte_ranges is\': True}',
 "regular1 rpc='0.1kB'": '{\'records_per_chunk\': \'int64(1)\', \'chunk_offsets\': "dict{int:0: '
                         'dict{str:\'offset\': int:20, str:\'size\': int:40}}", \'chunks\': '
                         "'tuple(int64(1), int:20)', 'ndim': 'int:2', 'repr': "
                         '"Array(url=\'image-file\', shape=(1, 20), dtype=\'uint16\', '
                         'records_per_chunk=np.int64(1))", \'fields\': "list(str:\'fs\', str:\'url\', '
                         "str:'byte_ranges', str:'shape', str:'dtype', str:'type_code', "
                         'str:\'records_per_chunk\', str:\'chunk_offsets\')", \'byte_ranges is\': True}',
 "regular1 rpc='1kB'": '{\'records_per_chunk\': \'int64(1)\', \'chunk_offsets\': "dict{int:0: '
                       'dict{str:\'offset\': int:20, str:\'size\': int:40}}", \'chunks\': \'tuple(int64(1), '
                       'int:20)\', \'ndim\': \'int:2\', \'repr\': "Array(url=\'image-file\', shape=(1, 20), '
                       'dtype=\'uint16\', records_per_chunk=np.int64(1))", \'fields\': "list(str:\'fs\', '
                       "str:'url', str:'byte_ranges', str:'shape', str:'dtype', str:'type_code', "
                       'str:\'records_per_chunk\', str:\'chunk_offsets\')", \'byte_ranges is\': True}',
 "regular1 rpc='1KiB'": '{\'records_per_chunk\': \'int64(1)\', \'chunk_offsets\': "dict{int:0: '
                        'dict{str:\'offset\': int:20, str:\'size\': int:40}}", \'chunks\': \'tuple(int64(1), '
                        'int:20)\', \'ndim\': \'int:2\', \'repr\': "Array(url=\'image-file\', shape=(1, 20), '
                        'dtype=\'uint16\', records_per_chunk=np.int64(1))", \'fields\': "list(str:\'fs\', '
                        "str:'url', str:'byte_ranges', str:'shape', str:'dtype', str:'type_code', "
                        'str:\'records_per_chunk\', str:\'chunk_offsets\')", \'byte_ranges is\': True}',
 "regular1 rpc='1e2'": '{\'records_per_chunk\': \'int64(1)\', \'chunk_offsets\': "dict{int:0: '
                       'dict{str:\'offset\': int:20, str:\'size\': int:40}}", \'chunks\': \'tuple(int64(1), '
                       'int:20)\', \'ndim\': \'int:2\', \'repr\': "Array(url=\'image-file\', shape=(1, 20), '
                       'dtype=\'uint16\', records_per_chunk=np.int64(1))", \'fields\': "list(str:\'fs\', '
                       "str:'url', str:'byte_ranges', str:'shape', str:'dtype', str:'type_code', "
                       'str:\'records_per_chunk\', str:\'chunk_offsets\')", \'byte_ranges is\': True}',
 "regular1 rpc='120'": '{\'records_per_chunk\': \'int64(1)\', \'chunk_offsets\': "dict{int:0: '
                       'dict{str:\'offset\': int:20, str:\'size\': int:40}}", \'chunks\': \'tuple(int64(1), '
                       'int:20)\', \'ndim\': \'int:2\', \'repr\': "Array(url=\'image-file\', shape=(1, 20), '
                       'dtype=\'uint16\', records_per_chunk=np.int64(1))", \'fields\': "list(str:\'fs\', '
                       "str:'url', str:'byte_ranges', str:'shape', str:'dtype', str:'type_code', "
                       'str:\'records_per_chunk\', str:\'chunk_offsets\')", \'byte_ranges is\': True}',
 "regular1 rpc='2'": '{\'records_per_chunk\': \'int64(1)\', \'chunk_offsets\': "dict{int:0: '
                     'dict{str:\'offset\': int:20, str:\'size\': int:40}}", \'chunks\': \'tuple(int64(1), '
                     'int:20)\', \'ndim\': \'int:2\', \'repr\': "Array(url=\'image-file\', shape=(1, 20), '
                     'dtype=\'uint16\', records_per_chunk=np.int64(1))", \'fields\': "list(str:\'fs\', '
                     "str:'url', str:'byte_ranges', str:'shape', str:'dtype', str:'type_code', "
                     'str:\'records_per_chunk\', str:\'chunk_offsets\')", \'byte_ranges is\': True}',
 "regular1 rpc='0'": '{\'records_per_chunk\': \'int64(1)\', \'chunk_offsets\': "dict{int:0: '
                     'dict{str:\'offset\': int:20, str:\'size\': int:40}}", \'chunks\': \'tuple(int64(1), '
                     'int:20)\', \'ndim\': \'int:2\', \'repr\': "Array(url=\'image-file\', shape=(1, 20), '
                     'dtype=\'uint16\', records_per_chunk=np.int64(1))", \'fields\': "list(str:\'fs\', '
                     "str:'url', str:'byte_ranges', str:'shape', str:'dtype', str:'type_code', "
                     'str:\'records_per_chunk\', str:\'chunk_offsets\')", \'byte_ranges is\': True}',
 "regular1 rpc='-1'": '{\'records_per_chunk\': \'int64(1)\', \'chunk_offsets\': "dict{int:0: '
                      'dict{str:\'offset\': int:20, str:\'size\': int:40}}", \'chunks\': \'tuple(int64(1), '
                      'int:20)\', \'ndim\': \'int:2\', \'repr\': "Array(url=\'image-file\', shape=(1, 20), '
                      'dtype=\'uint16\', records_per_chunk=np.int64(1))", \'fields\': "list(str:\'fs\', '
                      "str:'url', str:'byte_ranges', str:'shape', str:'dtype', str:'type_code', "
                      'str:\'records_per_chunk\', str:\'chunk_offsets\')", \'byte_ranges is\': True}',
 "regular1 rpc='-80B'": '{\'records_per_chunk\': \'int64(1)\', \'chunk_offsets\': "dict{int:0: '
                        'dict{str:\'offset\': int:20, str:\'size\': int:40}}", \'chunks\': \'tuple(int64(1), '
                        'int:20)\', \'ndim\': \'int:2\', \'repr\': "Array(url=\'image-file\', shape=(1, 20), '
                        'dtype=\'uint16\', records_per_chunk=np.int64(1))", \'fields\': "list(str:\'fs\', '
                        "str:'url', str:'byte_ranges', str:'shape', str:'dtype', str:'type_code', "
                        'str:\'records_per_chunk\', str:\'chunk_offsets\')", \'byte_ranges is\': True}',
 "regular1 rpc='5GB'": '{\'records_per_chunk\': \'int64(1)\', \'chunk_offsets\': "dict{int:0: '
                       'dict{str:\'offset\': int:20, str:\'size\': int:40}}", \'chunks\': \'tuple(int64(1), '
                       'int:20)\', \'ndim\': \'int:2\', \'repr\': "Array(url=\'image-file\', shape=(1, 20), '
                       'dtype=\'uint16\', records_per_chunk=np.int64(1))", \'fields\': "list(str:\'fs\', '
                       "str:'url', str:'byte_ranges', str:'shape', str:'dtype', str:'type_code', "
                       'str:\'records_per_chunk\', str:\'chunk_offsets\')", \'byte_ranges is\': True}',
 "regular1 rpc='MB'": '{\'records_per_chunk\': \'int64(1)\', \'chunk_offsets\': "dict{int:0: '
                      'dict{str:\'offset\': int:20, str:\'size\': int:40}}", \'chunks\': \'tuple(int64(1), '
                      'int:20)\', \'ndim\': \'int:2\', \'repr\': "Array(url=\'image-file\', shape=(1, 20), '
                      'dtype=\'uint16\', records_per_chunk=np.int64(1))", \'fields\': "list(str:\'fs\', '
                      "str:'url', str:'byte_ranges', str:'shape', str:'dtype', str:'type_code', "
                      'str:\'records_per_chunk\', str:\'chunk_offsets\')", \'byte_ranges is\': True}',
 "regular1 rpc=''": '{\'records_per_chunk\': \'int64(1)\', \'chunk_offsets\': "dict{int:0: '
                    'dict{str:\'offset\': int:20, str:\'size\': int:40}}", \'chunks\': \'tuple(int64(1), '
                    'int:20)\', \'ndim\': \'int:2\', \'repr\': "Array(url=\'image-file\', shape=(1, 20), '
                    'dtype=\'uint16\', records_per_chunk=np.int64(1))", \'fields\': "list(str:\'fs\', '
                    "str:'url', str:'byte_ranges', str:'shape', str:'dtype', str:'type_code', "
                    'str:\'records_per_chunk\', str:\'chunk_offsets\')", \'byte_ranges is\': True}',
 "regular1 rpc='B'": '{\'records_per_chunk\': \'int64(1)\', \'chunk_offsets\': "dict{int:0: '
                     'dict{str:\'offset\': int:20, str:\'size\': int:40}}", \'chunks\': \'tuple(int64(1), '
                     'int:20)\', \'ndim\': \'int:2\', \'repr\': "Array(url=\'image-file\', shape=(1, 20), '
                     'dtype=\'uint16\', records_per_chunk=np.int64(1))", \'fields\': "list(str:\'fs\', '
                     "str:'url', str:'byte_ranges', str:'shape', str:'dtype', str:'type_code', "
                     'str:\'records_per_chunk\', str:\'chunk_offsets\')", \'byte_ranges is\': True}',
 "regular1 rpc='5 foos'": "raise builtins.ValueError: Could not interpret 'foos' as a byte unit",
 "regular1 rpc='abc'": "raise builtins.ValueError: Could not interpret 'abc' as a byte unit",
 "regular1 rpc='1.2.3B'": "raise builtins.ValueError: Could not interpret '1.2.3' as a number",
 "regular1 rpc=Text('80B')": '{\'records_per_chunk\': \'int64(1)\', \'chunk_offsets\': "dict{int:0: '
                             'dict{str:\'offset\': int:20, str:\'size\': int:40}}", \'chunks\': '
                             "'tuple(int64(1), int:20)', 'ndim': 'int:2', 'repr': "
                             '"Array(url=\'image-file\', shape=(1, 20), dtype=\'uint16\', '
                             'records_per_chunk=np.int64(1))", \'fields\': "list(str:\'fs\', str:\'url\', '
                             "str:'byte_ranges', str:'shape', str:'dtype', str:'type_code', "
                             'str:\'records_per_chunk\', str:\'chunk_offsets\')", \'byte_ranges is\': True}',
 "regular1 rpc=b'auto'": "raise builtins.TypeError: '>' not supported between instances of 'bytes' and 'int'",
 "regular1 rpc=b'80B'": "raise builtins.TypeError: '>' not supported between instances of 'bytes' and 'int'",
 'regular1 rpc=[2]': "raise builtins.TypeError: '>' not supported between instances of 'list' and 'int'",
 'regular1 rpc=(2,)': "raise builtins.TypeError: '>' not supported between instances of 'tuple' and 'int'",
 'regular1 rpc={}': "raise builtins.TypeError: '>' not supported between instances of 'dict' and 'int'",
 'regular1 rpc=2j': "raise builtins.TypeError: '>' not supported between instances of 'complex' and 'int'",
 'regular1 rpc=object': "raise builtins.TypeError: '>' not supported between instances of 'type' and 'int'",
 'regular1 rpc not given': '{\'records_per_chunk\': \'int:1024\', \'chunk_offsets\': "dict{int:0: '
                           'dict{str:\'offset\': int:20, str:\'size\': int:40}}", \'chunks\': '
                           "'tuple(int:1024, int:20)', 'ndim': 'int:2', 'repr': "
                           '"Array(url=\'image-file\', shape=(1, 20), dtype=\'uint16\', '
                           'records_per_chunk=1024)", \'fields\': "list(str:\'fs\', str:\'url\', '
                           "str:'byte_ranges', str:'shape', str:'dtype', str:'type_code', "
                           'str:\'records_per_chunk\', str:\'chunk_offsets\')", \'byte_ranges is\': True}',
 'ragged5 rpc=None': '{\'records_per_chunk\': \'int:1024\', \'chunk_offsets\': "dict{int:0: '
                     'dict{str:\'offset\': int:20, str:\'size\': int:280}}", \'chunks\': \'tuple(int:1024, '
                     'int:20)\', \'ndim\': \'int:2\', \'repr\': "Array(url=\'image-file\', shape=(5, 20), '
                     'dtype=\'uint16\', records_per_chunk=1024)", \'fields\': "list(str:\'fs\', str:\'url\', '
                     "str:'byte_ranges', str:'shape', str:'dtype', str:'type_code', str:'records_per_chunk', "
                     'str:\'chunk_offsets\')", \'byte_ranges is\': True}',
 'ragged5 rpc=1': '{\'records_per_chunk\': \'int:1\', \'chunk_offsets\': "dict{int:0: dict{str:\'offset\': '
                  "int:20, str:'size': int:10}, int:1: dict{str:'offset': int:50, str:'size': int:70}, "
                  "int:2: dict{str:'offset': int:140, str:'size': int:30}, int:3: dict{str:'offset': "
                  "int:190, str:'size': int:50}, int:4: dict{str:'offset': int:260, str:'size': "
                  'int:40}}", \'chunks\': \'tuple(int:1, int:20)\', \'ndim\': \'int:2\', \'repr\': '
                  '"Array(url=\'image-file\', shape=(5, 20), dtype=\'uint16\', records_per_chunk=1)", '
                  '\'fields\': "list(str:\'fs\', str:\'url\', str:\'byte_ranges\', str:\'shape\', '
                  'str:\'dtype\', str:\'type_code\', str:\'records_per_chunk\', str:\'chunk_offsets\')", '
                  "'byte_ranges is': True}",
 'ragged5 rpc=2': '{\'records_per_chunk\': \'int:2\', \'chunk_offsets\': "dict{int:0: dict{str:\'offset\': '
                  "int:20, str:'size': int:100}, int:1: dict{str:'offset': int:140, str:'size': int:100}, "
                  'int:2: dict{str:\'offset\': int:260, str:\'size\': int:40}}", \'chunks\': \'tuple(int:2, '
                  'int:20)\', \'ndim\': \'int:2\', \'repr\': "Array(url=\'image-file\', shape=(5, 20), '
                  'dtype=\'uint16\', records_per_chunk=2)", \'fields\': "list(str:\'fs\', str:\'url\', '
                  "str:'byte_ranges', str:'shape', str:'dtype', str:'type_code', str:'records_per_chunk', "
                  'str:\'chunk_offsets\')", \'byte_ranges is\': True}',
 'ragged5 rpc=3': '{\'records_per_chunk\': \'int:3\', \'chunk_offsets\': "dict{int:0: dict{str:\'offset\': '
                  "int:20, str:'size': int:150}, int:1: dict{str:'offset': int:190, str:'size': "
                  'int:110}}", \'chunks\': \'tuple(int:3, int:20)\', \'ndim\': \'int:2\', \'repr\': '
                  '"Array(url=\'image-file\', shape=(5, 20), dtype=\'uint16\', records_per_chunk=3)", '
                  '\'fields\': "list(str:\'fs\', str:\'url\', str:\'byte_ranges\', str:\'shape\', '
                  'str:\'dtype\', str:\'type_code\', str:\'records_per_chunk\', str:\'chunk_offsets\')", '
                  "'byte_ranges is': True}",
 'ragged5 rpc=4': '{\'records_per_chunk\': \'int:4\', \'chunk_offsets\': "dict{int:0: dict{str:\'offset\': '
                  "int:20, str:'size': int:220}, int:1: dict{str:'offset': int:260, str:'size': "
                  'int:40}}", \'chunks\': \'tuple(int:4, int:20)\', \'ndim\': \'int:2\', \'repr\': '
                  '"Array(url=\'image-file\', shape=(5, 20), dtype=\'uint16\', records_per_chunk=4)", '
                  '\'fields\': "list(str:\'fs\', str:\'url\', str:\'byte_ranges\', str:\'shape\', '
                  'str:\'dtype\', str:\'type_code\', str:\'records_per_chunk\', str:\'chunk_offsets\')", '
                  "'byte_ranges is': True}",
 'ragged5 rpc=5': '{\'records_per_chunk\': \'int:5\', \'chunk_offsets\': "dict{int:0: dict{str:\'offset\': '
                  'int:20, str:\'size\': int:280}}", \'chunks\': \'tuple(int:5, int:20)\', \'ndim\': '
                  '\'int:2\', \'repr\': "Array(url=\'image-file\', shape=(5, 20), dtype=\'uint16\', '
                  'records_per_chunk=5)", \'fields\': "list(str:\'fs\', str:\'url\', str:\'byte_ranges\', '
                  "str:'shape', str:'dtype', str:'type_code', str:'records_per_chunk', "
                  'str:\'chunk_offsets\')", \'byte_ranges is\': True}',
 'ragged5 rpc=6': '{\'records_per_chunk\': \'int:5\', \'chunk_offsets\': "dict{int:0: dict{str:\'offset\': '
                  'int:20, str:\'size\': int:280}}", \'chunks\': \'tuple(int:5, int:20)\', \'ndim\': '
                  '\'int:2\', \'repr\': "Array(url=\'image-file\', shape=(5, 20), dtype=\'uint16\', '
                  'records_per_chunk=5)", \'fields\': "list(str:\'fs\', str:\'url\', str:\'byte_ranges\', '
                  "str:'shape', str:'dtype', str:'type_code', str:'records_per_chunk', "
                  'str:\'chunk_offsets\')", \'byte_ranges is\': True}',
 'ragged5 rpc=1024': '{\'records_per_chunk\': \'int:5\', \'chunk_offsets\': "dict{int:0: '
                     'dict{str:\'offset\': int:20, str:\'size\': int:280}}", \'chunks\': \'tuple(int:5, '
                     'int:20)\', \'ndim\': \'int:2\', \'repr\': "Array(url=\'image-file\', shape=(5, 20), '
                     'dtype=\'uint16\', records_per_chunk=5)", \'fields\': "list(str:\'fs\', str:\'url\', '
                     "str:'byte_ranges', str:'shape', str:'dtype', str:'type_code', str:'records_per_chunk', "
                     'str:\'chunk_offsets\')", \'byte_ranges is\': True}',
 'ragged5 rpc=-1': '{\'records_per_chunk\': \'int:5\', \'chunk_offsets\': "dict{int:0: dict{str:\'offset\': '
                   'int:20, str:\'size\': int:280}}", \'chunks\': \'tuple(int:5, int:20)\', \'ndim\': '
                   '\'int:2\', \'repr\': "Array(url=\'image-file\', shape=(5, 20), dtype=\'uint16\', '
                   'records_per_chunk=5)", \'fields\': "list(str:\'fs\', str:\'url\', str:\'byte_ranges\', '
                   "str:'shape', str:'dtype', str:'type_code', str:'records_per_chunk', "
                   'str:\'chunk_offsets\')", \'byte_ranges is\': True}',
 'ragged5 rpc=True': '{\'records_per_chunk\': \'bool:True\', \'chunk_offsets\': "dict{int:0: '
                     "dict{str:'offset': int:20, str:'size': int:10}, int:1: dict{str:'offset': int:50, "
                     "str:'size': int:70}, int:2: dict{str:'offset': int:140, str:'size': int:30}, int:3: "
                     "dict{str:'offset': int:190, str:'size': int:50}, int:4: dict{str:'offset': int:260, "
                     'str:\'size\': int:40}}", \'chunks\': \'tuple(bool:True, int:20)\', \'ndim\': '
                     '\'int:2\', \'repr\': "Array(url=\'image-file\', shape=(5, 20), dtype=\'uint16\', '
                     'records_per_chunk=True)", \'fields\': "list(str:\'fs\', str:\'url\', '
                     "str:'byte_ranges', str:'shape', str:'dtype', str:'type_code', str:'records_per_chunk', "
                     'str:\'chunk_offsets\')", \'byte_ranges is\': True}',
 'ragged5 rpc=np.int64(2)': '{\'records_per_chunk\': \'int64(2)\', \'chunk_offsets\': "dict{int:0: '
                            "dict{str:'offset': int:20, str:'size': int:100}, int:1: dict{str:'offset': "
                            "int:140, str:'size': int:100}, int:2: dict{str:'offset': int:260, str:'size': "
                            'int:40}}", \'chunks\': \'tuple(int64(2), int:20)\', \'ndim\': \'int:2\', '
                            '\'repr\': "Array(url=\'image-file\', shape=(5, 20), dtype=\'uint16\', '
                            'records_per_chunk=np.int64(2))", \'fields\': "list(str:\'fs\', str:\'url\', '
                            "str:'byte_ranges', str:'shape', str:'dtype', str:'type_code', "
                            'str:\'records_per_chunk\', str:\'chunk_offsets\')", \'byte_ranges is\': True}',
 'ragged5 rpc=np.int64(-1)': '{\'records_per_chunk\': \'int:5\', \'chunk_offsets\': "dict{int:0: '
                             'dict{str:\'offset\': int:20, str:\'size\': int:280}}", \'chunks\': '
                             "'tuple(int:5, int:20)', 'ndim': 'int:2', 'repr': "
                             '"Array(url=\'image-file\', shape=(5, 20), dtype=\'uint16\', '
                             'records_per_chunk=5)", \'fields\': "list(str:\'fs\', str:\'url\', '
                             "str:'byte_ranges', str:'shape', str:'dtype', str:'type_code', "
                             'str:\'records_per_chunk\', str:\'chunk_offsets\')", \'byte_ranges is\': True}',
 'ragged5 rpc=np.uint8(9)': '{\'records_per_chunk\': \'int:5\', \'chunk_offsets\': "dict{int:0: '
                            'dict{str:\'offset\': int:20, str:\'size\': int:280}}", \'chunks\': '
                            "'tuple(int:5, int:20)', 'ndim': 'int:2', 'repr': "
                            '"Array(url=\'image-file\', shape=(5, 20), dtype=\'uint16\', '
                            'records_per_chunk=5)", \'fields\': "list(str:\'fs\', str:\'url\', '
                            "str:'byte_ranges', str:'shape', str:'dtype', str:'type_code', "
                            'str:\'records_per_chunk\', str:\'chunk_offsets\')", \'byte_ranges is\': True}',
 'ragged5 rpc=IntLike(2)': "raise builtins.TypeError: unsupported operand type(s) for +: 'int' and 'IntLike'",
 'ragged5 rpc=IntLike(-1)': '{\'records_per_chunk\': \'int:5\', \'chunk_offsets\': "dict{int:0: '
                            'dict{str:\'offset\': int:20, str:\'size\': int:280}}", \'chunks\': '
                            "'tuple(int:5, int:20)', 'ndim': 'int:2', 'repr': "
                            '"Array(url=\'image-file\', shape=(5, 20), dtype=\'uint16\', '
                            'records_per_chunk=5)", \'fields\': "list(str:\'fs\', str:\'url\', '
                            "str:'byte_ranges', str:'shape', str:'dtype', str:'type_code', "
                            'str:\'records_per_chunk\', str:\'chunk_offsets\')", \'byte_ranges is\': True}',
 'ragged5 rpc=IntLike(99)': '{\'records_per_chunk\': \'int:5\', \'chunk_offsets\': "dict{int:0: '
                            'dict{str:\'offset\': int:20, str:\'size\': int:280}}", \'chunks\': '
                            "'tuple(int:5, int:20)', 'ndim': 'int:2', 'repr': "
                            '"Array(url=\'image-file\', shape=(5, 20), dtype=\'uint16\', '
                            'records_per_chunk=5)", \'fields\': "list(str:\'fs\', str:\'url\', '
                            "str:'byte_ranges', str:'shape', str:'dtype', str:'type_code', "
                            'str:\'records_per_chunk\', str:\'chunk_offsets\')", \'byte_ranges is\': True}',
 'ragged5 rpc=Fraction(2)': "raise builtins.TypeError: can't multiply sequence by non-int of type 'Fraction'",
 'ragged5 rpc=2.0': "raise builtins.TypeError: can't multiply sequence by non-int of type 'float'",
 'ragged5 rpc=nan': "raise builtins.TypeError: can't multiply sequence by non-int of type 'float'",
 'ragged5 rpc=inf': '{\'records_per_chunk\': \'int:5\', \'chunk_offsets\': "dict{int:0: dict{str:\'offset\': '
                    'int:20, str:\'size\': int:280}}", \'chunks\': \'tuple(int:5, int:20)\', \'ndim\': '
                    '\'int:2\', \'repr\': "Array(url=\'image-file\', shape=(5, 20), dtype=\'uint16\', '
                    'records_per_chunk=5)", \'fields\': "list(str:\'fs\', str:\'url\', str:\'byte_ranges\', '
                    "str:'shape', str:'dtype', str:'type_code', str:'records_per_chunk', "
                    'str:\'chunk_offsets\')", \'byte_ranges is\': True}',
 "ragged5 rpc='auto'": '{\'records_per_chunk\': \'int64(5)\', \'chunk_offsets\': "dict{int:0: '
                       'dict{str:\'offset\': int:20, str:\'size\': int:280}}", \'chunks\': \'tuple(int64(5), '
                       'int:20)\', \'ndim\': \'int:2\', \'repr\': "Array(url=\'image-file\', shape=(5, 20), '
                       'dtype=\'uint16\', records_per_chunk=np.int64(5))", \'fields\': "list(str:\'fs\', '
                       "str:'url', str:'byte_ranges', str:'shape', str:'dtype', str:'type_code', "
                       'str:\'records_per_chunk\', str:\'chunk_offsets\')", \'byte_ranges is\': True}',
 "ragged5 rpc=Text('auto')": '{\'records_per_chunk\': \'int64(5)\', \'chunk_offsets\': "dict{int:0: '
                             'dict{str:\'offset\': int:20, str:\'size\': int:280}}", \'chunks\': '
                             "'tuple(int64(5), int:20)', 'ndim': 'int:2', 'repr': "
                             '"Array(url=\'image-file\', shape=(5, 20), dtype=\'uint16\', '
                             'records_per_chunk=np.int64(5))", \'fields\': "list(str:\'fs\', str:\'url\', '
                             "str:'byte_ranges', str:'shape', str:'dtype', str:'type_code', "
                             'str:\'records_per_chunk\', str:\'chunk_offsets\')", \'byte_ranges is\': True}',
 "ragged5 rpc='AUTO'": "raise builtins.ValueError: Could not interpret 'AUTO' as a byte unit",
 "ragged5 rpc=' auto'": "raise builtins.ValueError: Could not interpret 'auto' as a byte unit",
 "ragged5 rpc='1B'": '{\'records_per_chunk\': \'int64(1)\', \'chunk_offsets\': "dict{int:0: '
                     "dict{str:'offset': int:20, str:'size': int:10}, int:1: dict{str:'offset': int:50, "
                     "str:'size': int:70}, int:2: dict{str:'offset': int:140, str:'size': int:30}, int:3: "
                     "dict{str:'offset': int:190, str:'size': int:50}, int:4: dict{str:'offset': int:260, "
                     'str:\'size\': int:40}}", \'chunks\': \'tuple(int64(1), int:20)\', \'ndim\': \'int:2\', '
                     '\'repr\': "Array(url=\'image-file\', shape=(5, 20), dtype=\'uint16\', '
                     'records_per_chunk=np.int64(1))", \'fields\': "list(str:\'fs\', str:\'url\', '
                     "str:'byte_ranges', str:'shape', str:'dtype', str:'type_code', str:'records_per_chunk', "
                     'str:\'chunk_offsets\')", \'byte_ranges is\': True}',
 "ragged5 rpc='39B'": '{\'records_per_chunk\': \'int64(1)\', \'chunk_offsets\': "dict{int:0: '
                      "dict{str:'offset': int:20, str:'size': int:10}, int:1: dict{str:'offset': int:50, "
                      "str:'size': int:70}, int:2: dict{str:'offset': int:140, str:'size': int:30}, int:3: "
                      "dict{str:'offset': int:190, str:'size': int:50}, int:4: dict{str:'offset': int:260, "
                      'str:\'size\': int:40}}", \'chunks\': \'tuple(int64(1), int:20)\', \'ndim\': '
                      '\'int:2\', \'repr\': "Array(url=\'image-file\', shape=(5, 20), dtype=\'uint16\', '
                      'records_per_chunk=np.int64(1))", \'fields\': "list(str:\'fs\', str:\'url\', '
                      "str:'byte_ranges', str:'shape', str:'dtype', str:'type_code', "
                      'str:\'records_per_chunk\', str:\'chunk_offsets\')", \'byte_ranges is\': True}',
 "ragged5 rpc='40B'": '{\'records_per_chunk\': \'int64(1)\', \'chunk_offsets\': "dict{int:0: '
                      "dict{str:'offset': int:20, str:'size': int:10}, int:1: dict{str:'offset': int:50, "
                      "str:'size': int:70}, int:2: dict{str:'offset': int:140, str:'size': int:30}, int:3: "
                      "dict{str:'offset': int:190, str:'size': int:50}, int:4: dict{str:'offset': int:260, "
                      'str:\'size\': int:40}}", \'chunks\': \'tuple(int64(1), int:20)\', \'ndim\': '
                      '\'int:2\', \'repr\': "Array(url=\'image-file\', shape=(5, 20), dtype=\'uint16\', '
                      'records_per_chunk=np.int64(1))", \'fields\': "list(str:\'fs\', str:\'url\', '
                      "str:'byte_ranges', str:'shape', str:'dtype', str:'type_code', "
                      'str:\'records_per_chunk\', str:\'chunk_offsets\')", \'byte_ranges is\': True}',
 "ragged5 rpc='60B'": '{\'records_per_chunk\': \'int64(2)\', \'chunk_offsets\': "dict{int:0: '
                      "dict{str:'offset': int:20, str:'size': int:100}, int:1: dict{str:'offset': int:140, "
                      'str:\'size\': int:100}, int:2: dict{str:\'offset\': int:260, str:\'size\': int:40}}", '
                      "'chunks': 'tuple(int64(2), int:20)', 'ndim': 'int:2', 'repr': "
                      '"Array(url=\'image-file\', shape=(5, 20), dtype=\'uint16\', '
                      'records_per_chunk=np.int64(2))", \'fields\': "list(str:\'fs\', str:\'url\', '
                      "str:'byte_ranges', str:'shape', str:'dtype', str:'type_code', "
                      'str:\'records_per_chunk\', str:\'chunk_offsets\')", \'byte_ranges is\': True}',
 "ragged5 rpc='61B'": '{\'records_per_chunk\': \'int64(2)\', \'chunk_offsets\': "dict{int:0: '
                      "dict{str:'offset': int:20, str:'size': int:100}, int:1: dict{str:'offset': int:140, "
                      'str:\'size\': int:100}, int:2: dict{str:\'offset\': int:260, str:\'size\': int:40}}", '
                      "'chunks': 'tuple(int64(2), int:20)', 'ndim': 'int:2', 'repr': "
                      '"Array(url=\'image-file\', shape=(5, 20), dtype=\'uint16\', '
                      'records_per_chunk=np.int64(2))", \'fields\': "list(str:\'fs\', str:\'url\', '
                      "str:'byte_ranges', str:'shape', str:'dtype', str:'type_code', "
                      'str:\'records_per_chunk\', str:\'chunk_offsets\')", \'byte_ranges is\': True}',
 "ragged5 rpc='80B'": '{\'records_per_chunk\': \'int64(2)\', \'chunk_offsets\': "dict{int:0: '
                      "dict{str:'offset': int:20, str:'size': int:100}, int:1: dict{str:'offset': int:140, "
                      'str:\'size\': int:100}, int:2: dict{str:\'offset\': int:260, str:\'size\': int:40}}", '
                      "'chunks': 'tuple(int64(2), int:20)', 'ndim': 'int:2', 'repr': "
                      '"Array(url=\'image-file\', shape=(5, 20), dtype=\'uint16\', '
                      'records_per_chunk=np.int64(2))", \'fields\': "list(str:\'fs\', str:\'url\', '
                      "str:'byte_ranges', str:'shape', str:'dtype', str:'type_code', "
                      'str:\'records_per_chunk\', str:\'chunk_offsets\')", \'byte_ranges is\': True}',
 "ragged5 rpc='100 B'": '{\'records_per_chunk\': \'int64(3)\', \'chunk_offsets\': "dict{int:0: '
                        "dict{str:'offset': int:20, str:'size': int:150}, int:1: dict{str:'offset': int:190, "
                        'str:\'size\': int:110}}", \'chunks\': \'tuple(int64(3), int:20)\', \'ndim\': '
                        '\'int:2\', \'repr\': "Array(url=\'image-file\', shape=(5, 20), dtype=\'uint16\', '
                        'records_per_chunk=np.int64(3))", \'fields\': "list(str:\'fs\', str:\'url\', '
                        "str:'byte_ranges', str:'shape', str:'dtype', str:'type_code', "
                        'str:\'records_per_chunk\', str:\'chunk_offsets\')", \'byte_ranges is\': True}',
 "ragged5 rpc='0.1kB'": '{\'records_per_chunk\': \'int64(3)\', \'chunk_offsets\': "dict{int:0: '
                        "dict{str:'offset': int:20, str:'size': int:150}, int:1: dict{str:'offset': int:190, "
                        'str:\'size\': int:110}}", \'chunks\': \'tuple(int64(3), int:20)\', \'ndim\': '
                        '\'int:2\', \'repr\': "Array(url=\'image-file\', shape=(5, 20), dtype=\'uint16\', '
                        'records_per_chunk=np.int64(3))", \'fields\': "list(str:\'fs\', str:\'url\', '
                        "str:'byte_ranges', str:'shape', str:'dtype', str:'type_code', "
                        'str:\'records_per_chunk\', str:\'chunk_offsets\')", \'byte_ranges is\': True}',
 "ragged5 rpc='1kB'": '{\'records_per_chunk\': \'int64(5)\', \'chunk_offsets\': "dict{int:0: '
                      'dict{str:\'offset\': int:20, str:\'size\': int:280}}", \'chunks\': \'tuple(int64(5), '
                      'int:20)\', \'ndim\': \'int:2\', \'repr\': "Array(url=\'image-file\', shape=(5, 20), '
                      'dtype=\'uint16\', records_per_chunk=np.int64(5))", \'fields\': "list(str:\'fs\', '
                      "str:'url', str:'byte_ranges', str:'shape', str:'dtype', str:'type_code', "
                      'str:\'records_per_chunk\', str:\'chunk_offsets\')", \'byte_ranges is\': True}',
 "ragged5 rpc='1KiB'": '{\'records_per_chunk\': \'int64(5)\', \'chunk_offsets\': "dict{int:0: '
                       'dict{str:\'offset\': int:20, str:\'size\': int:280}}", \'chunks\': \'tuple(int64(5), '
                       'int:20)\', \'ndim\': \'int:2\', \'repr\': "Array(url=\'image-file\', shape=(5, 20), '
                       'dtype=\'uint16\', records_per_chunk=np.int64(5))", \'fields\': "list(str:\'fs\', '
                       "str:'url', str:'byte_ranges', str:'shape', str:'dtype', str:'type_code', "
                       'str:\'records_per_chunk\', str:\'chunk_offsets\')", \'byte_ranges is\': True}',
 "ragged5 rpc='1e2'": '{\'records_per_chunk\': \'int64(3)\', \'chunk_offsets\': "dict{int:0: '
                      "dict{str:'offset': int:20, str:'size': int:150}, int:1: dict{str:'offset': int:190, "
                      'str:\'size\': int:110}}", \'chunks\': \'tuple(int64(3), int:20)\', \'ndim\': '
                      '\'int:2\', \'repr\': "Array(url=\'image-file\', shape=(5, 20), dtype=\'uint16\', '
                      'records_per_chunk=np.int64(3))", \'fields\': "list(str:\'fs\', str:\'url\', '
                      "str:'byte_ranges', str:'shape', str:'dtype', str:'type_code', "
                      'str:\'records_per_chunk\', str:\'chunk_offsets\')", \'byte_ranges is\': True}',
 "ragged5 rpc='120'": '{\'records_per_chunk\': \'int64(3)\', \'chunk_offsets\': "dict{int:0: '
                      "dict{str:'offset': int:20, str:'size': int:150}, int:1: dict{str:'offset': int:190, "
                      'str:\'size\': int:110}}", \'chunks\': \'tuple(int64(3), int:20)\', \'ndim\': '
                      '\'int:2\', \'repr\': "Array(url=\'image-file\', shape=(5, 20), dtype=\'uint16\', '
                      'records_per_chunk=np.int64(3))", \'fields\': "list(str:\'fs\', str:\'url\', '
                      "str:'byte_ranges', str:'shape', str:'dtype', str:'type_code', "
                      'str:\'records_per_chunk\', str:\'chunk_offsets\')", \'byte_ranges is\': True}',
 "ragged5 rpc='2'": '{\'records_per_chunk\': \'int64(1)\', \'chunk_offsets\': "dict{int:0: '
                    "dict{str:'offset': int:20, str:'size': int:10}, int:1: dict{str:'offset': int:50, "
                    "str:'size': int:70}, int:2: dict{str:'offset': int:140, str:'size': int:30}, int:3: "
                    "dict{str:'offset': int:190, str:'size': int:50}, int:4: dict{str:'offset': int:260, "
                    'str:\'size\': int:40}}", \'chunks\': \'tuple(int64(1), int:20)\', \'ndim\': \'int:2\', '
                    '\'repr\': "Array(url=\'image-file\', shape=(5, 20), dtype=\'uint16\', '
                    'records_per_chunk=np.int64(1))", \'fields\': "list(str:\'fs\', str:\'url\', '
                    "str:'byte_ranges', str:'shape', str:'dtype', str:'type_code', str:'records_per_chunk', "
                    'str:\'chunk_offsets\')", \'byte_ranges is\': True}',
 "ragged5 rpc='0'": '{\'records_per_chunk\': \'int64(1)\', \'chunk_offsets\': "dict{int:0: '
                    "dict{str:'offset': int:20, str:'size': int:10}, int:1: dict{str:'offset': int:50, "
                    "str:'size': int:70}, int:2: dict{str:'offset': int:140, str:'size': int:30}, int:3: "
                    "dict{str:'offset': int:190, str:'size': int:50}, int:4: dict{str:'offset': int:260, "
                    'str:\'size\': int:40}}", \'chunks\': \'tuple(int64(1), int:20)\', \'ndim\': \'int:2\', '
                    '\'repr\': "Array(url=\'image-file\', shape=(5, 20), dtype=\'uint16\', '
                    'records_per_chunk=np.int64(1))", \'fields\': "list(str:\'fs\', str:\'url\', '
                    "str:'byte_ranges', str:'shape', str:'dtype', str:'type_code', str:'records_per_chunk', "
                    'str:\'chunk_offsets\')", \'byte_ranges is\': True}',
 "ragged5 rpc='-1'": '{\'records_per_chunk\': \'int64(1)\', \'chunk_offsets\': "dict{int:0: '
                     "dict{str:'offset': int:20, str:'size': int:10}, int:1: dict{str:'offset': int:50, "
                     "str:'size': int:70}, int:2: dict{str:'offset': int:140, str:'size': int:30}, int:3: "
                     "dict{str:'offset': int:190, str:'size': int:50}, int:4: dict{str:'offset': int:260, "
                     'str:\'size\': int:40}}", \'chunks\': \'tuple(int64(1), int:20)\', \'ndim\': \'int:2\', '
                     '\'repr\': "Array(url=\'image-file\', shape=(5, 20), dtype=\'uint16\', '
                     'records_per_chunk=np.int64(1))", \'fields\': "list(str:\'fs\', str:\'url\', '
                     "str:'byte_ranges', str:'shape', str:'dtype', str:'type_code', str:'records_per_chunk', "
                     'str:\'chunk_offsets\')", \'byte_ranges is\': True}',
 "ragged5 rpc='-80B'": '{\'records_per_chunk\': \'int64(1)\', \'chunk_offsets\': "dict{int:0: '
                       "dict{str:'offset': int:20, str:'size': int:10}, int:1: dict{str:'offset': int:50, "
                       "str:'size': int:70}, int:2: dict{str:'offset': int:140, str:'size': int:30}, int:3: "
                       "dict{str:'offset': int:190, str:'size': int:50}, int:4: dict{str:'offset': int:260, "
                       'str:\'size\': int:40}}", \'chunks\': \'tuple(int64(1), int:20)\', \'ndim\': '
                       '\'int:2\', \'repr\': "Array(url=\'image-file\', shape=(5, 20), dtype=\'uint16\', '
                       'records_per_chunk=np.int64(1))", \'fields\': "list(str:\'fs\', str:\'url\', '
                       "str:'byte_ranges', str:'shape', str:'dtype', str:'type_code', "
                       'str:\'records_per_chunk\', str:\'chunk_offsets\')", \'byte_ranges is\': True}',
 "ragged5 rpc='5GB'": '{\'records_per_chunk\': \'int64(5)\', \'chunk_offsets\': "dict{int:0: '
                      'dict{str:\'offset\': int:20, str:\'size\': int:280}}", \'chunks\': \'tuple(int64(5), '
                      'int:20)\', \'ndim\': \'int:2\', \'repr\': "Array(url=\'image-file\', shape=(5, 20), '
                      'dtype=\'uint16\', records_per_chunk=np.int64(5))", \'fields\': "list(str:\'fs\', '
                      "str:'url', str:'byte_ranges', str:'shape', str:'dtype', str:'type_code', "
                      'str:\'records_per_chunk\', str:\'chunk_offsets\')", \'byte_ranges is\': True}',
 "ragged5 rpc='MB'": '{\'records_per_chunk\': \'int64(5)\', \'chunk_offsets\': "dict{int:0: '
                     'dict{str:\'offset\': int:20, str:\'size\': int:280}}", \'chunks\': \'tuple(int64(5), '
                     'int:20)\', \'ndim\': \'int:2\', \'repr\': "Array(url=\'image-file\', shape=(5, 20), '
                     'dtype=\'uint16\', records_per_chunk=np.int64(5))", \'fields\': "list(str:\'fs\', '
                     "str:'url', str:'byte_ranges', str:'shape', str:'dtype', str:'type_code', "
                     'str:\'records_per_chunk\', str:\'chunk_offsets\')", \'byte_ranges is\': True}',
 "ragged5 rpc=''": '{\'records_per_chunk\': \'int64(1)\', \'chunk_offsets\': "dict{int:0: '
                   "dict{str:'offset': int:20, str:'size': int:10}, int:1: dict{str:'offset': int:50, "
                   "str:'size': int:70}, int:2: dict{str:'offset': int:140, str:'size': int:30}, int:3: "
                   "dict{str:'offset': int:190, str:'size': int:50}, int:4: dict{str:'offset': int:260, "
                   'str:\'size\': int:40}}", \'chunks\': \'tuple(int64(1), int:20)\', \'ndim\': \'int:2\', '
                   '\'repr\': "Array(url=\'image-file\', shape=(5, 20), dtype=\'uint16\', '
                   'records_per_chunk=np.int64(1))", \'fields\': "list(str:\'fs\', str:\'url\', '
                   "str:'byte_ranges', str:'shape', str:'dtype', str:'type_code', str:'records_per_chunk', "
                   'str:\'chunk_offsets\')", \'byte_ranges is\': True}',
 "ragged5 rpc='B'": '{\'records_per_chunk\': \'int64(1)\', \'chunk_offsets\': "dict{int:0: '
                    "dict{str:'offset': int:20, str:'size': int:10}, int:1: dict{str:'offset': int:50, "
                    "str:'size': int:70}, int:2: dict{str:'offset': int:140, str:'size': int:30}, int:3: "
                    "dict{str:'offset': int:190, str:'size': int:50}, int:4: dict{str:'offset': int:260, "
                    'str:\'size\': int:40}}", \'chunks\': \'tuple(int64(1), int:20)\', \'ndim\': \'int:2\', '
                    '\'repr\': "Array(url=\'image-file\', shape=(5, 20), dtype=\'uint16\', '
                    'records_per_chunk=np.int64(1))", \'fields\': "list(str:\'fs\', str:\'url\', '
                    "str:'byte_ranges', str:'shape', str:'dtype', str:'type_code', str:'records_per_chunk', "
                    'str:\'chunk_offsets\')", \'byte_ranges is\': True}',
 "ragged5 rpc='5 foos'": "raise builtins.ValueError: Could not interpret 'foos' as a byte unit",
 "ragged5 rpc='abc'": "raise builtins.ValueError: Could not interpret 'abc' as a byte unit",
 "ragged5 rpc='1.2.3B'": "raise builtins.ValueError: Could not interpret '1.2.3' as a number",
 "ragged5 rpc=Text('80B')": '{\'records_per_chunk\': \'int64(2)\', \'chunk_offsets\': "dict{int:0: '
                            "dict{str:'offset': int:20, str:'size': int:100}, int:1: dict{str:'offset': "
                            "int:140, str:'size': int:100}, int:2: dict{str:'offset': int:260, str:'size': "
                            'int:40}}", \'chunks\': \'tuple(int64(2), int:20)\', \'ndim\': \'int:2\', '
                            '\'repr\': "Array(url=\'image-file\', shape=(5, 20), dtype=\'uint16\', '
                            'records_per_chunk=np.int64(2))", \'fields\': "list(str:\'fs\', str:\'url\', '
                            "str:'byte_ranges', str:'shape', str:'dtype', str:'type_code', "
                            'str:\'records_per_chunk\', str:\'chunk_offsets\')", \'byte_ranges is\': True}',
 "ragged5 rpc=b'auto'": "raise builtins.TypeError: '>' not supported between instances of 'bytes' and 'int'",
 "ragged5 rpc=b'80B'": "raise builtins.TypeError: '>' not supported between instances of 'bytes' and 'int'",
 'ragged5 rpc=[2]': "raise builtins.TypeError: '>' not supported between instances of 'list' and 'int'",
 'ragged5 rpc=(2,)': "raise builtins.TypeError: '>' not supported between instances of 'tuple' and 'int'",
 'ragged5 rpc={}': "raise builtins.TypeError: '>' not supported between instances of 'dict' and 'int'",
 'ragged5 rpc=2j': "raise builtins.TypeError: '>' not supported between instances of 'complex' and 'int'",
 'ragged5 rpc=object': "raise builtins.TypeError: '>' not supported between instances of 'type' and 'int'",
 'ragged5 rpc not given': '{\'records_per_chunk\': \'int:1024\', \'chunk_offsets\': "dict{int:0: '
                          'dict{str:\'offset\': int:20, str:\'size\': int:280}}", \'chunks\': '
                          "'tuple(int:1024, int:20)', 'ndim': 'int:2', 'repr': "
                          '"Array(url=\'image-file\', shape=(5, 20), dtype=\'uint16\', '
                          'records_per_chunk=1024)", \'fields\': "list(str:\'fs\', str:\'url\', '
                          "str:'byte_ranges', str:'shape', str:'dtype', str:'type_code', "
                          'str:\'records_per_chunk\', str:\'chunk_offsets\')", \'byte_ranges is\': True}',
 'tight3 rpc=None': '{\'records_per_chunk\': \'int:1024\', \'chunk_offsets\': "dict{int:0: '
                    'dict{str:\'offset\': int:0, str:\'size\': int:120}}", \'chunks\': \'tuple(int:1024, '
                    'int:20)\', \'ndim\': \'int:2\', \'repr\': "Array(url=\'image-file\', shape=(3, 20), '
                    'dtype=\'uint16\', records_per_chunk=1024)", \'fields\': "list(str:\'fs\', str:\'url\', '
                    "str:'byte_ranges', str:'shape', str:'dtype', str:'type_code', str:'records_per_chunk', "
                    'str:\'chunk_offsets\')", \'byte_ranges is\': True}',
 'tight3 rpc=1': '{\'records_per_chunk\': \'int:1\', \'chunk_offsets\': "dict{int:0: dict{str:\'offset\': '
                 "int:0, str:'size': int:40}, int:1: dict{str:'offset': int:40, str:'size': int:40}, int:2: "
                 'dict{str:\'offset\': int:80, str:\'size\': int:40}}", \'chunks\': \'tuple(int:1, '
                 'int:20)\', \'ndim\': \'int:2\', \'repr\': "Array(url=\'image-file\', shape=(3, 20), '
                 'dtype=\'uint16\', records_per_chunk=1)", \'fields\': "list(str:\'fs\', str:\'url\', '
                 "str:'byte_ranges', str:'shape', str:'dtype', str:'type_code', str:'records_per_chunk', "
                 'str:\'chunk_offsets\')", \'byte_ranges is\': True}',
 'tight3 rpc=2': '{\'records_per_chunk\': \'int:2\', \'chunk_offsets\': "dict{int:0: dict{str:\'offset\': '
                 'int:0, str:\'size\': int:80}, int:1: dict{str:\'offset\': int:80, str:\'size\': int:40}}", '
                 "'chunks': 'tuple(int:2, int:20)', 'ndim': 'int:2', 'repr': "
                 '"Array(url=\'image-file\', shape=(3, 20), dtype=\'uint16\', records_per_chunk=2)", '
                 '\'fields\': "list(str:\'fs\', str:\'url\', str:\'byte_ranges\', str:\'shape\', '
                 'str:\'dtype\', str:\'type_code\', str:\'records_per_chunk\', str:\'chunk_offsets\')", '
                 "'byte_ranges is': True}",
 'tight3 rpc=3': '{\'records_per_chunk\': \'int:3\', \'chunk_offsets\': "dict{int:0: dict{str:\'offset\': '
                 'int:0, str:\'size\': int:120}}", \'chunks\': \'tuple(int:3, int:20)\', \'ndim\': '
                 '\'int:2\', \'repr\': "Array(url=\'image-file\', shape=(3, 20), dtype=\'uint16\', '
                 'records_per_chunk=3)", \'fields\': "list(str:\'fs\', str:\'url\', str:\'byte_ranges\', '
                 "str:'shape', str:'dtype', str:'type_code', str:'records_per_chunk', "
                 'str:\'chunk_offsets\')", \'byte_ranges is\': True}',
 'tight3 rpc=4': '{\'records_per_chunk\': \'int:3\', \'chunk_offsets\': "dict{int:0: dict{str:\'offset\': '
                 'int:0, str:\'size\': int:120}}", \'chunks\': \'tuple(int:3, int:20)\', \'ndim\': '
                 '\'int:2\', \'repr\': "Array(url=\'image-file\', shape=(3, 20), dtype=\'uint16\', '
                 'records_per_chunk=3)", \'fields\': "list(str:\'fs\', str:\'url\', str:\'byte_ranges\', '
                 "str:'shape', str:'dtype', str:'type_code', str:'records_per_chunk', "
                 'str:\'chunk_offsets\')", \'byte_ranges is\': True}',
 'tight3 rpc=5': '{\'records_per_chunk\': \'int:3\', \'chunk_offsets\': "dict{int:0: dict{str:\'offset\': '
                 'int:0, str:\'size\': int:120}}", \'chunks\': \'tuple(int:3, int:20)\', \'ndim\': '
                 '\'int:2\', \'repr\': "Array(url=\'image-file\', shape=(3, 20), dtype=\'uint16\', '
                 'records_per_chunk=3)", \'fields\': "list(str:\'fs\', str:\'url\', str:\'byte_ranges\', '
                 "str:'shape', str:'dtype', str:'type_code', str:'records_per_chunk', "
                 'str:\'chunk_offsets\')", \'byte_ranges is\': True}',
 'tight3 rpc=6': '{\'records_per_chunk\': \'int:3\', \'chunk_offsets\': "dict{int:0: dict{str:\'offset\': '
                 'int:0, str:\'size\': int:120}}", \'chunks\': \'tuple(int:3, int:20)\', \'ndim\': '
                 '\'int:2\', \'repr\': "Array(url=\'image-file\', shape=(3, 20), dtype=\'uint16\', '
                 'records_per_chunk=3)", \'fields\': "list(str:\'fs\', str:\'url\', str:\'byte_ranges\', '
                 "str:'shape', str:'dtype', str:'type_code', str:'records_per_chunk', "
                 'str:\'chunk_offsets\')", \'byte_ranges is\': True}',
 'tight3 rpc=1024': '{\'records_per_chunk\': \'int:3\', \'chunk_offsets\': "dict{int:0: dict{str:\'offset\': '
                    'int:0, str:\'size\': int:120}}", \'chunks\': \'tuple(int:3, int:20)\', \'ndim\': '
                    '\'int:2\', \'repr\': "Array(url=\'image-file\', shape=(3, 20), dtype=\'uint16\', '
                    'records_per_chunk=3)", \'fields\': "list(str:\'fs\', str:\'url\', str:\'byte_ranges\', '
                    "str:'shape', str:'dtype', str:'type_code', str:'records_per_chunk', "
                    'str:\'chunk_offsets\')", \'byte_ranges is\': True}',
 'tight3 rpc=-1': '{\'records_per_chunk\': \'int:3\', \'chunk_offsets\': "dict{int:0: dict{str:\'offset\': '
                  'int:0, str:\'size\': int:120}}", \'chunks\': \'tuple(int:3, int:20)\', \'ndim\': '
                  '\'int:2\', \'repr\': "Array(url=\'image-file\', shape=(3, 20), dtype=\'uint16\', '
                  'records_per_chunk=3)", \'fields\': "list(str:\'fs\', str:\'url\', str:\'byte_ranges\', '
                  "str:'shape', str:'dtype', str:'type_code', str:'records_per_chunk', "
                  'str:\'chunk_offsets\')", \'byte_ranges is\': True}',
 'tight3 rpc=True': '{\'records_per_chunk\': \'bool:True\', \'chunk_offsets\': "dict{int:0: '
                    "dict{str:'offset': int:0, str:'size': int:40}, int:1: dict{str:'offset': int:40, "
                    'str:\'size\': int:40}, int:2: dict{str:\'offset\': int:80, str:\'size\': int:40}}", '
                    "'chunks': 'tuple(bool:True, int:20)', 'ndim': 'int:2', 'repr': "
                    '"Array(url=\'image-file\', shape=(3, 20), dtype=\'uint16\', records_per_chunk=True)", '
                    '\'fields\': "list(str:\'fs\', str:\'url\', str:\'byte_ranges\', str:\'shape\', '
                    'str:\'dtype\', str:\'type_code\', str:\'records_per_chunk\', str:\'chunk_offsets\')", '
                    "'byte_ranges is': True}",
 'tight3 rpc=np.int64(2)': '{\'records_per_chunk\': \'int64(2)\', \'chunk_offsets\': "dict{int:0: '
                           "dict{str:'offset': int:0, str:'size': int:80}, int:1: dict{str:'offset': int:80, "
                           'str:\'size\': int:40}}", \'chunks\': \'tuple(int64(2), int:20)\', \'ndim\': '
                           '\'int:2\', \'repr\': "Array(url=\'image-file\', shape=(3, 20), dtype=\'uint16\', '
                           'records_per_chunk=np.int64(2))", \'fields\': "list(str:\'fs\', str:\'url\', '
                           "str:'byte_ranges', str:'shape', str:'dtype', str:'type_code', "
                           'str:\'records_per_chunk\', str:\'chunk_offsets\')", \'byte_ranges is\': True}',
 'tight3 rpc=np.int64(-1)': '{\'records_per_chunk\': \'int:3\', \'chunk_offsets\': "dict{int:0: '
                            'dict{str:\'offset\': int:0, str:\'size\': int:120}}", \'chunks\': '
                            "'tuple(int:3, int:20)', 'ndim': 'int:2', 'repr': "
                            '"Array(url=\'image-file\', shape=(3, 20), dtype=\'uint16\', '
                            'records_per_chunk=3)", \'fields\': "list(str:\'fs\', str:\'url\', '
                            "str:'byte_ranges', str:'shape', str:'dtype', str:'type_code', "
                            'str:\'records_per_chunk\', str:\'chunk_offsets\')", \'byte_ranges is\': True}',
 'tight3 rpc=np.uint8(9)': '{\'records_per_chunk\': \'int:3\', \'chunk_offsets\': "dict{int:0: '
                           'dict{str:\'offset\': int:0, str:\'size\': int:120}}", \'chunks\': \'tuple(int:3, '
                           'int:20)\', \'ndim\': \'int:2\', \'repr\': "Array(url=\'image-file\', shape=(3, '
                           '20), dtype=\'uint16\', records_per_chunk=3)", \'fields\': "list(str:\'fs\', '
                           "str:'url', str:'byte_ranges', str:'shape', str:'dtype', str:'type_code', "
                           'str:\'records_per_chunk\', str:\'chunk_offsets\')", \'byte_ranges is\': True}',
 'tight3 rpc=IntLike(2)': "raise builtins.TypeError: unsupported operand type(s) for +: 'int' and 'IntLike'",
 'tight3 rpc=IntLike(-1)': '{\'records_per_chunk\': \'int:3\', \'chunk_offsets\': "dict{int:0: '
                           'dict{str:\'offset\': int:0, str:\'size\': int:120}}", \'chunks\': \'tuple(int:3, '
                           'int:20)\', \'ndim\': \'int:2\', \'repr\': "Array(url=\'image-file\', shape=(3, '
                           '20), dtype=\'uint16\', records_per_chunk=3)", \'fields\': "list(str:\'fs\', '
                           "str:'url', str:'byte_ranges', str:'shape', str:'dtype', str:'type_code', "
                           'str:\'records_per_chunk\', str:\'chunk_offsets\')", \'byte_ranges is\': True}',
 'tight3 rpc=IntLike(99)': '{\'records_per_chunk\': \'int:3\', \'chunk_offsets\': "dict{int:0: '
                           'dict{str:\'offset\': int:0, str:\'size\': int:120}}", \'chunks\': \'tuple(int:3, '
                           'int:20)\', \'ndim\': \'int:2\', \'repr\': "Array(url=\'image-file\', shape=(3, '
                           '20), dtype=\'uint16\', records_per_chunk=3)", \'fields\': "list(str:\'fs\', '
                           "str:'url', str:'byte_ranges', str:'shape', str:'dtype', str:'type_code', "
                           'str:\'records_per_chunk\', str:\'chunk_offsets\')", \'byte_ranges is\': True}',
 'tight3 rpc=Fraction(2)': "raise builtins.TypeError: can't multiply sequence by non-int of type 'Fraction'",
 'tight3 rpc=2.0': "raise builtins.TypeError: can't multiply sequence by non-int of type 'float'",
 'tight3 rpc=nan': "raise builtins.TypeError: can't multiply sequence by non-int of type 'float'",
 'tight3 rpc=inf': '{\'records_per_chunk\': \'int:3\', \'chunk_offsets\': "dict{int:0: dict{str:\'offset\': '
                   'int:0, str:\'size\': int:120}}", \'chunks\': \'tuple(int:3, int:20)\', \'ndim\': '
                   '\'int:2\', \'repr\': "Array(url=\'image-file\', shape=(3, 20), dtype=\'uint16\', '
                   'records_per_chunk=3)", \'fields\': "list(str:\'fs\', str:\'url\', str:\'byte_ranges\', '
                   "str:'shape', str:'dtype', str:'type_code', str:'records_per_chunk', "
                   'str:\'chunk_offsets\')", \'byte_ranges is\': True}',
 "tight3 rpc='auto'": '{\'records_per_chunk\': \'int64(3)\', \'chunk_offsets\': "dict{int:0: '
                      'dict{str:\'offset\': int:0, str:\'size\': int:120}}", \'chunks\': \'tuple(int64(3), '
                      'int:20)\', \'ndim\': \'int:2\', \'repr\': "Array(url=\'image-file\', shape=(3, 20), '
                      'dtype=\'uint16\', records_per_chunk=np.int64(3))", \'fields\': "list(str:\'fs\', '
                      "str:'url', str:'byte_ranges', str:'shape', str:'dtype', str:'type_code', "
                      'str:\'records_per_chunk\', str:\'chunk_offsets\')", \'byte_ranges is\': True}',
 "tight3 rpc=Text('auto')": '{\'records_per_chunk\': \'int64(3)\', \'chunk_offsets\': "dict{int:0: '
                            'dict{str:\'offset\': int:0, str:\'size\': int:120}}", \'chunks\': '
                            "'tuple(int64(3), int:20)', 'ndim': 'int:2', 'repr': "
                            '"Array(url=\'image-file\', shape=(3, 20), dtype=\'uint16\', '
                            'records_per_chunk=np.int64(3))", \'fields\': "list(str:\'fs\', str:\'url\', '
                            "str:'byte_ranges', str:'shape', str:'dtype', str:'type_code', "
                            'str:\'records_per_chunk\', str:\'chunk_offsets\')", \'byte_ranges is\': True}',
 "tight3 rpc='AUTO'": "raise builtins.ValueError: Could not interpret 'AUTO' as a byte unit",
 "tight3 rpc=' auto'": "raise builtins.ValueError: Could not interpret 'auto' as a byte unit",
 "tight3 rpc='1B'": '{\'records_per_chunk\': \'int64(1)\', \'chunk_offsets\': "dict{int:0: '
                    "dict{str:'offset': int:0, str:'size': int:40}, int:1: dict{str:'offset': int:40, "
                    'str:\'size\': int:40}, int:2: dict{str:\'offset\': int:80, str:\'size\': int:40}}", '
                    "'chunks': 'tuple(int64(1), int:20)', 'ndim': 'int:2', 'repr': "
                    '"Array(url=\'image-file\', shape=(3, 20), dtype=\'uint16\', '
                    'records_per_chunk=np.int64(1))", \'fields\': "list(str:\'fs\', str:\'url\', '
                    "str:'byte_ranges', str:'shape', str:'dtype', str:'type_code', str:'records_per_chunk', "
                    'str:\'chunk_offsets\')", \'byte_ranges is\': True}',
 "tight3 rpc='39B'": '{\'records_per_chunk\': \'int64(1)\', \'chunk_offsets\': "dict{int:0: '
                     "dict{str:'offset': int:0, str:'size': int:40}, int:1: dict{str:'offset': int:40, "
                     'str:\'size\': int:40}, int:2: dict{str:\'offset\': int:80, str:\'size\': int:40}}", '
                     "'chunks': 'tuple(int64(1), int:20)', 'ndim': 'int:2', 'repr': "
                     '"Array(url=\'image-file\', shape=(3, 20), dtype=\'uint16\', '
                     'records_per_chunk=np.int64(1))", \'fields\': "list(str:\'fs\', str:\'url\', '
                     "str:'byte_ranges', str:'shape', str:'dtype', str:'type_code', str:'records_per_chunk', "
                     'str:\'chunk_offsets\')", \'byte_ranges is\': True}',
 "tight3 rpc='40B'": '{\'records_per_chunk\': \'int64(1)\', \'chunk_offsets\': "dict{int:0: '
                     "dict{str:'offset': int:0, str:'size': int:40}, int:1: dict{str:'offset': int:40, "
                     'str:\'size\': int:40}, int:2: dict{str:\'offset\': int:80, str:\'size\': int:40}}", '
                     "'chunks': 'tuple(int64(1), int:20)', 'ndim': 'int:2', 'repr': "
                     '"Array(url=\'image-file\', shape=(3, 20), dtype=\'uint16\', '
                     'records_per_chunk=np.int64(1))", \'fields\': "list(str:\'fs\', str:\'url\', '
                     "str:'byte_ranges', str:'shape', str:'dtype', str:'type_code', str:'records_per_chunk', "
                     'str:\'chunk_offsets\')", \'byte_ranges is\': True}',
 "tight3 rpc='60B'": '{\'records_per_chunk\': \'int64(1)\', \'chunk_offsets\': "dict{int:0: '
                     "dict{str:'offset': int:0, str:'size': int:40}, int:1: dict{str:'offset': int:40, "
                     'str:\'size\': int:40}, int:2: dict{str:\'offset\': int:80, str:\'size\': int:40}}", '
                     "'chunks': 'tuple(int64(1), int:20)', 'ndim': 'int:2', 'repr': "
                     '"Array(url=\'image-file\', shape=(3, 20), dtype=\'uint16\', '
                     'records_per_chunk=np.int64(1))", \'fields\': "list(str:\'fs\', str:\'url\', '
                     "str:'byte_ranges', str:'shape', str:'dtype', str:'type_code', str:'records_per_chunk', "
                     'str:\'chunk_offsets\')", \'byte_ranges is\': True}',
 "tight3 rpc='61B'": '{\'records_per_chunk\': \'int64(2)\', \'chunk_offsets\': "dict{int:0: '
                     "dict{str:'offset': int:0, str:'size': int:80}, int:1: dict{str:'offset': int:80, "
                     'str:\'size\': int:40}}", \'chunks\': \'tuple(int64(2), int:20)\', \'ndim\': \'int:2\', '
                     '\'repr\': "Array(url=\'image-file\', shape=(3, 20), dtype=\'uint16\', '
                     'records_per_chunk=np.int64(2))", \'fields\': "list(str:\'fs\', str:\'url\', '
                     "str:'byte_ranges', str:'shape', str:'dtype', str:'type_code', str:'records_per_chunk', "
                     'str:\'chunk_offsets\')", \'byte_ranges is\': True}',
 "tight3 rpc='80B'": '{\'records_per_chunk\': \'int64(2)\', \'chunk_offsets\': "dict{int:0: '
                     "dict{str:'offset': int:0, str:'size': int:80}, int:1: dict{str:'offset': int:80, "
                     'str:\'size\': int:40}}", \'chunks\': \'tuple(int64(2), int:20)\', \'ndim\': \'int:2\', '
                     '\'repr\': "Array(url=\'image-file\', shape=(3, 20), dtype=\'uint16\', '
                     'records_per_chunk=np.int64(2))", \'fields\': "list(str:\'fs\', str:\'url\', '
                     "str:'byte_ranges', str:'shape', str:'dtype', str:'type_code', str:'records_per_chunk', "
                     'str:\'chunk_offsets\')", \'byte_ranges is\': True}',
 "tight3 rpc='100 B'": '{\'records_per_chunk\': \'int64(2)\', \'chunk_offsets\': "dict{int:0: '
                       "dict{str:'offset': int:0, str:'size': int:80}, int:1: dict{str:'offset': int:80, "
                       'str:\'size\': int:40}}", \'chunks\': \'tuple(int64(2), int:20)\', \'ndim\': '
                       '\'int:2\', \'repr\': "Array(url=\'image-file\', shape=(3, 20), dtype=\'uint16\', '
                       'records_per_chunk=np.int64(2))", \'fields\': "list(str:\'fs\', str:\'url\', '
                       "str:'byte_ranges', str:'shape', str:'dtype', str:'type_code', "
                       'str:\'records_per_chunk\', str:\'chunk_offsets\')", \'byte_ranges is\': True}',
 "tight3 rpc='0.1kB'": '{\'records_per_chunk\': \'int64(2)\', \'chunk_offsets\': "dict{int:0: '
                       "dict{str:'offset': int:0, str:'size': int:80}, int:1: dict{str:'offset': int:80, "
                       'str:\'size\': int:40}}", \'chunks\': \'tuple(int64(2), int:20)\', \'ndim\': '
                       '\'int:2\', \'repr\': "Array(url=\'image-file\', shape=(3, 20), dtype=\'uint16\', '
                       'records_per_chunk=np.int64(2))", \'fields\': "list(str:\'fs\', str:\'url\', '
                       "str:'byte_ranges', str:'shape', str:'dtype', str:'type_code', "
                       'str:\'records_per_chunk\', str:\'chunk_offsets\')", \'byte_ranges is\': True}',
 "tight3 rpc='1kB'": '{\'records_per_chunk\': \'int64(3)\', \'chunk_offsets\': "dict{int:0: '
                     'dict{str:\'offset\': int:0, str:\'size\': int:120}}", \'chunks\': \'tuple(int64(3), '
                     'int:20)\', \'ndim\': \'int:2\', \'repr\': "Array(url=\'image-file\', shape=(3, 20), '
                     'dtype=\'uint16\', records_per_chunk=np.int64(3))", \'fields\': "list(str:\'fs\', '
                     "str:'url', str:'byte_ranges', str:'shape', str:'dtype', str:'type_code', "
                     'str:\'records_per_chunk\', str:\'chunk_offsets\')", \'byte_ranges is\': True}',
 "tight3 rpc='1KiB'": '{\'records_per_chunk\': \'int64(3)\', \'chunk_offsets\': "dict{int:0: '
                      'dict{str:\'offset\': int:0, str:\'size\': int:120}}", \'chunks\': \'tuple(int64(3), '
                      'int:20)\', \'ndim\': \'int:2\', \'repr\': "Array(url=\'image-file\', shape=(3, 20), '
                      'dtype=\'uint16\', records_per_chunk=np.int64(3))", \'fields\': "list(str:\'fs\', '
                      "str:'url', str:'byte_ranges', str:'shape', str:'dtype', str:'type_code', "
                      'str:\'records_per_chunk\', str:\'chunk_offsets\')", \'byte_ranges is\': True}',
 "tight3 rpc='1e2'": '{\'records_per_chunk\': \'int64(2)\', \'chunk_offsets\': "dict{int:0: '
                     "dict{str:'offset': int:0, str:'size': int:80}, int:1: dict{str:'offset': int:80, "
                     'str:\'size\': int:40}}", \'chunks\': \'tuple(int64(2), int:20)\', \'ndim\': \'int:2\', '
                     '\'repr\': "Array(url=\'image-file\', shape=(3, 20), dtype=\'uint16\', '
                     'records_per_chunk=np.int64(2))", \'fields\': "list(str:\'fs\', str:\'url\', '
                     "str:'byte_ranges', str:'shape', str:'dtype', str:'type_code', str:'records_per_chunk', "
                     'str:\'chunk_offsets\')", \'byte_ranges is\': True}',
 "tight3 rpc='120'": '{\'records_per_chunk\': \'int64(3)\', \'chunk_offsets\': "dict{int:0: '
                     'dict{str:\'offset\': int:0, str:\'size\': int:120}}", \'chunks\': \'tuple(int64(3), '
                     'int:20)\', \'ndim\': \'int:2\', \'repr\': "Array(url=\'image-file\', shape=(3, 20), '
                     'dtype=\'uint16\', records_per_chunk=np.int64(3))", \'fields\': "list(str:\'fs\', '
                     "str:'url', str:'byte_ranges', str:'shape', str:'dtype', str:'type_code', "
                     'str:\'records_per_chunk\', str:\'chunk_offsets\')", \'byte_ranges is\': True}',
 "tight3 rpc='2'": '{\'records_per_chunk\': \'int64(1)\', \'chunk_offsets\': "dict{int:0: '
                   "dict{str:'offset': int:0, str:'size': int:40}, int:1: dict{str:'offset': int:40, "
                   'str:\'size\': int:40}, int:2: dict{str:\'offset\': int:80, str:\'size\': int:40}}", '
                   "'chunks': 'tuple(int64(1), int:20)', 'ndim': 'int:2', 'repr': "
                   '"Array(url=\'image-file\', shape=(3, 20), dtype=\'uint16\', '
                   'records_per_chunk=np.int64(1))", \'fields\': "list(str:\'fs\', str:\'url\', '
                   "str:'byte_ranges', str:'shape', str:'dtype', str:'type_code', str:'records_per_chunk', "
                   'str:\'chunk_offsets\')", \'byte_ranges is\': True}',
 "tight3 rpc='0'": '{\'records_per_chunk\': \'int64(1)\', \'chunk_offsets\': "dict{int:0: '
                   "dict{str:'offset': int:0, str:'size': int:40}, int:1: dict{str:'offset': int:40, "
                   'str:\'size\': int:40}, int:2: dict{str:\'offset\': int:80, str:\'size\': int:40}}", '
                   "'chunks': 'tuple(int64(1), int:20)', 'ndim': 'int:2', 'repr': "
                   '"Array(url=\'image-file\', shape=(3, 20), dtype=\'uint16\', '
                   'records_per_chunk=np.int64(1))", \'fields\': "list(str:\'fs\', str:\'url\', '
                   "str:'byte_ranges', str:'shape', str:'dtype', str:'type_code', str:'records_per_chunk', "
                   'str:\'chunk_offsets\')", \'byte_ranges is\': True}',
 "tight3 rpc='-1'": '{\'records_per_chunk\': \'int64(1)\', \'chunk_offsets\': "dict{int:0: '
                    "dict{str:'offset': int:0, str:'size': int:40}, int:1: dict{str:'offset': int:40, "
                    'str:\'size\': int:40}, int:2: dict{str:\'offset\': int:80, str:\'size\': int:40}}", '
                    "'chunks': 'tuple(int64(1), int:20)', 'ndim': 'int:2', 'repr': "
                    '"Array(url=\'image-file\', shape=(3, 20), dtype=\'uint16\', '
                    'records_per_chunk=np.int64(1))", \'fields\': "list(str:\'fs\', str:\'url\', '
                    "str:'byte_ranges', str:'shape', str:'dtype', str:'type_code', str:'records_per_chunk', "
                    'str:\'chunk_offsets\')", \'byte_ranges is\': True}',
 "tight3 rpc='-80B'": '{\'records_per_chunk\': \'int64(1)\', \'chunk_offsets\': "dict{int:0: '
                      "dict{str:'offset': int:0, str:'size': int:40}, int:1: dict{str:'offset': int:40, "
                      'str:\'size\': int:40}, int:2: dict{str:\'offset\': int:80, str:\'size\': int:40}}", '
                      "'chunks': 'tuple(int64(1), int:20)', 'ndim': 'int:2', 'repr': "
                      '"Array(url=\'image-file\', shape=(3, 20), dtype=\'uint16\', '
                      'records_per_chunk=np.int64(1))", \'fields\': "list(str:\'fs\', str:\'url\', '
                      "str:'byte_ranges', str:'shape', str:'dtype', str:'type_code', "
                      'str:\'records_per_chunk\', str:\'chunk_offsets\')", \'byte_ranges is\': True}',
 "tight3 rpc='5GB'": '{\'records_per_chunk\': \'int64(3)\', \'chunk_offsets\': "dict{int:0: '
                     'dict{str:\'offset\': int:0, str:\'size\': int:120}}", \'chunks\': \'tuple(int64(3), '
                     'int:20)\', \'ndim\': \'int:2\', \'repr\': "Array(url=\'image-file\', shape=(3, 20), '
                     'dtype=\'uint16\', records_per_chunk=np.int64(3))", \'fields\': "list(str:\'fs\', '
                     "str:'url', str:'byte_ranges', str:'shape', str:'dtype', str:'type_code', "
                     'str:\'records_per_chunk\', str:\'chunk_offsets\')", \'byte_ranges is\': True}',
 "tight3 rpc='MB'": '{\'records_per_chunk\': \'int64(3)\', \'chunk_offsets\': "dict{int:0: '
                    'dict{str:\'offset\': int:0, str:\'size\': int:120}}", \'chunks\': \'tuple(int64(3), '
                    'int:20)\', \'ndim\': \'int:2\', \'repr\': "Array(url=\'image-file\', shape=(3, 20), '
                    'dtype=\'uint16\', records_per_chunk=np.int64(3))", \'fields\': "list(str:\'fs\', '
                    "str:'url', str:'byte_ranges', str:'shape', str:'dtype', str:'type_code', "
                    'str:\'records_per_chunk\', str:\'chunk_offsets\')", \'byte_ranges is\': True}',
 "tight3 rpc=''": '{\'records_per_chunk\': \'int64(1)\', \'chunk_offsets\': "dict{int:0: '
                  "dict{str:'offset': int:0, str:'size': int:40}, int:1: dict{str:'offset': int:40, "
                  'str:\'size\': int:40}, int:2: dict{str:\'offset\': int:80, str:\'size\': int:40}}", '
                  "'chunks': 'tuple(int64(1), int:20)', 'ndim': 'int:2', 'repr': "
                  '"Array(url=\'image-file\', shape=(3, 20), dtype=\'uint16\', '
                  'records_per_chunk=np.int64(1))", \'fields\': "list(str:\'fs\', str:\'url\', '
                  "str:'byte_ranges', str:'shape', str:'dtype', str:'type_code', str:'records_per_chunk', "
                  'str:\'chunk_offsets\')", \'byte_ranges is\': True}',
 "tight3 rpc='B'": '{\'records_per_chunk\': \'int64(1)\', \'chunk_offsets\': "dict{int:0: '
                   "dict{str:'offset': int:0, str:'size': int:40}, int:1: dict{str:'offset': int:40, "
                   'str:\'size\': int:40}, int:2: dict{str:\'offset\': int:80, str:\'size\': int:40}}", '
                   "'chunks': 'tuple(int64(1), int:20)', 'ndim': 'int:2', 'repr': "
                   '"Array(url=\'image-file\', shape=(3, 20), dtype=\'uint16\', '
                   'records_per_chunk=np.int64(1))", \'fields\': "list(str:\'fs\', str:\'url\', '
                   "str:'byte_ranges', str:'shape', str:'dtype', str:'type_code', str:'records_per_chunk', "
                   'str:\'chunk_offsets\')", \'byte_ranges is\': True}',
 "tight3 rpc='5 foos'": "raise builtins.ValueError: Could not interpret 'foos' as a byte unit",
 "tight3 rpc='abc'": "raise builtins.ValueError: Could not interpret 'abc' as a byte unit",
 "tight3 rpc='1.2.3B'": "raise builtins.ValueError: Could not interpret '1.2.3' as a number",
 "tight3 rpc=Text('80B')": '{\'records_per_chunk\': \'int64(2)\', \'chunk_offsets\': "dict{int:0: '
                           "dict{str:'offset': int:0, str:'size': int:80}, int:1: dict{str:'offset': int:80, "
                           'str:\'size\': int:40}}", \'chunks\': \'tuple(int64(2), int:20)\', \'ndim\': '
                           '\'int:2\', \'repr\': "Array(url=\'image-file\', shape=(3, 20), dtype=\'uint16\', '
                           'records_per_chunk=np.int64(2))", \'fields\': "list(str:\'fs\', str:\'url\', '
                           "str:'byte_ranges', str:'shape', str:'dtype', str:'type_code', "
                           'str:\'records_per_chunk\', str:\'chunk_offsets\')", \'byte_ranges is\': True}',
 "tight3 rpc=b'auto'": "raise builtins.TypeError: '>' not supported between instances of 'bytes' and 'int'",
 "tight3 rpc=b'80B'": "raise builtins.TypeError: '>' not supported between instances of 'bytes' and 'int'",
 'tight3 rpc=[2]': "raise builtins.TypeError: '>' not supported between instances of 'list' and 'int'",
 'tight3 rpc=(2,)': "raise builtins.TypeError: '>' not supported between instances of 'tuple' and 'int'",
 'tight3 rpc={}': "raise builtins.TypeError: '>' not supported between instances of 'dict' and 'int'",
 'tight3 rpc=2j': "raise builtins.TypeError: '>' not supported between instances of 'complex' and 'int'",
 'tight3 rpc=object': "raise builtins.TypeError: '>' not supported between instances of 'type' and 'int'",
 'tight3 rpc not given': '{\'records_per_chunk\': \'int:1024\', \'chunk_offsets\': "dict{int:0: '
                         'dict{str:\'offset\': int:0, str:\'size\': int:120}}", \'chunks\': '
                         "'tuple(int:1024, int:20)', 'ndim': 'int:2', 'repr': "
                         '"Array(url=\'image-file\', shape=(3, 20), dtype=\'uint16\', '
                         'records_per_chunk=1024)", \'fields\': "list(str:\'fs\', str:\'url\', '
                         "str:'byte_ranges', str:'shape', str:'dtype', str:'type_code', "
                         'str:\'records_per_chunk\', str:\'chunk_offsets\')", \'byte_ranges is\': True}',
 'unordered3 rpc=None': '{\'records_per_chunk\': \'int:1024\', \'chunk_offsets\': "dict{int:0: '
                        'dict{str:\'offset\': int:20, str:\'size\': int:120}}", \'chunks\': '
                        "'tuple(int:1024, int:20)', 'ndim': 'int:2', 'repr': "
                        '"Array(url=\'image-file\', shape=(3, 20), dtype=\'uint16\', '
                        'records_per_chunk=1024)", \'fields\': "list(str:\'fs\', str:\'url\', '
                        "str:'byte_ranges', str:'shape', str:'dtype', str:'type_code', "
                        'str:\'records_per_chunk\', str:\'chunk_offsets\')", \'byte_ranges is\': True}',
 'unordered3 rpc=1': '{\'records_per_chunk\': \'int:1\', \'chunk_offsets\': "dict{int:0: '
                     "dict{str:'offset': int:100, str:'size': int:40}, int:1: dict{str:'offset': int:20, "
                     'str:\'size\': int:40}, int:2: dict{str:\'offset\': int:40, str:\'size\': int:40}}", '
                     "'chunks': 'tuple(int:1, int:20)', 'ndim': 'int:2', 'repr': "
                     '"Array(url=\'image-file\', shape=(3, 20), dtype=\'uint16\', records_per_chunk=1)", '
                     '\'fields\': "list(str:\'fs\', str:\'url\', str:\'byte_ranges\', str:\'shape\', '
                     'str:\'dtype\', str:\'type_code\', str:\'records_per_chunk\', str:\'chunk_offsets\')", '
                     "'byte_ranges is': True}",
 'unordered3 rpc=2': '{\'records_per_chunk\': \'int:2\', \'chunk_offsets\': "dict{int:0: '
                     "dict{str:'offset': int:20, str:'size': int:120}, int:1: dict{str:'offset': int:40, "
                     'str:\'size\': int:40}}", \'chunks\': \'tuple(int:2, int:20)\', \'ndim\': \'int:2\', '
                     '\'repr\': "Array(url=\'image-file\', shape=(3, 20), dtype=\'uint16\', '
                     'records_per_chunk=2)", \'fields\': "list(str:\'fs\', str:\'url\', str:\'byte_ranges\', '
                     "str:'shape', str:'dtype', str:'type_code', str:'records_per_chunk', "
                     'str:\'chunk_offsets\')", \'byte_ranges is\': True}',
 'unordered3 rpc=3': '{\'records_per_chunk\': \'int:3\', \'chunk_offsets\': "dict{int:0: '
                     'dict{str:\'offset\': int:20, str:\'size\': int:120}}", \'chunks\': \'tuple(int:3, '
                     'int:20)\', \'ndim\': \'int:2\', \'repr\': "Array(url=\'image-file\', shape=(3, 20), '
                     'dtype=\'uint16\', records_per_chunk=3)", \'fields\': "list(str:\'fs\', str:\'url\', '
                     "str:'byte_ranges', str:'shape', str:'dtype', str:'type_code', str:'records_per_chunk', "
                     'str:\'chunk_offsets\')", \'byte_ranges is\': True}',
 'unordered3 rpc=4': '{\'records_per_chunk\': \'int:3\', \'chunk_offsets\': "dict{int:0: '
                     'dict{str:\'offset\': int:20, str:\'size\': int:120}}", \'chunks\': \'tuple(int:3, '
                     'int:20)\', \'ndim\': \'int:2\', \'repr\': "Array(url=\'image-file\', shape=(3, 20), '
                     'dtype=\'uint16\', records_per_chunk=3)", \'fields\': "list(str:\'fs\', str:\'url\', '
                     "str:'byte_ranges', str:'shape', str:'dtype', str:'type_code', str:'records_per_chunk', "
                     'str:\'chunk_offsets\')", \'byte_ranges is\': True}',
 'unordered3 rpc=5': '{\'records_per_chunk\': \'int:3\', \'chunk_offsets\': "dict{int:0: '
                     'dict{str:\'offset\': int:20, str:\'size\': int:120}}", \'chunks\': \'tuple(int:3, '
                     'int:20)\', \'ndim\': \'int:2\', \'repr\': "Array(url=\'image-file\', shape=(3, 20), '
                     'dtype=\'uint16\', records_per_chunk=3)", \'fields\': "list(str:\'fs\', str:\'url\', '
                     "str:'byte_ranges', str:'shape', str:'dtype', str:'type_code', str:'records_per_chunk', "
                     'str:\'chunk_offsets\')", \'byte_ranges is\': True}',
 'unordered3 rpc=6': '{\'records_per_chunk\': \'int:3\', \'chunk_offsets\': "dict{int:0: '
                     'dict{str:\'offset\': int:20, str:\'size\': int:120}}", \'chunks\': \'tuple(int:3, '
                     'int:20)\', \'ndim\': \'int:2\', \'repr\': "Array(url=\'image-file\', shape=(3, 20), '
                     'dtype=\'uint16\', records_per_chunk=3)", \'fields\': "list(str:\'fs\', str:\'url\', '
                     "str:'byte_ranges', str:'shape', str:'dtype', str:'type_code', str:'records_per_chunk', "
                     'str:\'chunk_offsets\')", \'byte_ranges is\': True}',
 'unordered3 rpc=1024': '{\'records_per_chunk\': \'int:3\', \'chunk_offsets\': "dict{int:0: '
                        'dict{str:\'offset\': int:20, str:\'size\': int:120}}", \'chunks\': \'tuple(int:3, '
                        'int:20)\', \'ndim\': \'int:2\', \'repr\': "Array(url=\'image-file\', shape=(3, 20), '
                        'dtype=\'uint16\', records_per_chunk=3)", \'fields\': "list(str:\'fs\', str:\'url\', '
                        "str:'byte_ranges', str:'shape', str:'dtype', str:'type_code', "
                        'str:\'records_per_chunk\', str:\'chunk_offsets\')", \'byte_ranges is\': True}',
 'unordered3 rpc=-1': '{\'records_per_chunk\': \'int:3\', \'chunk_offsets\': "dict{int:0: '
                      'dict{str:\'offset\': int:20, str:\'size\': int:120}}", \'chunks\': \'tuple(int:3, '
                      'int:20)\', \'ndim\': \'int:2\', \'repr\': "Array(url=\'image-file\', shape=(3, 20), '
                      'dtype=\'uint16\', records_per_chunk=3)", \'fields\': "list(str:\'fs\', str:\'url\', '
                      "str:'byte_ranges', str:'shape', str:'dtype', str:'type_code', "
                      'str:\'records_per_chunk\', str:\'chunk_offsets\')", \'byte_ranges is\': True}',
 'unordered3 rpc=True': '{\'records_per_chunk\': \'bool:True\', \'chunk_offsets\': "dict{int:0: '
                        "dict{str:'offset': int:100, str:'size': int:40}, int:1: dict{str:'offset': int:20, "
                        'str:\'size\': int:40}, int:2: dict{str:\'offset\': int:40, str:\'size\': int:40}}", '
                        "'chunks': 'tuple(bool:True, int:20)', 'ndim': 'int:2', 'repr': "
                        '"Array(url=\'image-file\', shape=(3, 20), dtype=\'uint16\', '
                        'records_per_chunk=True)", \'fields\': "list(str:\'fs\', str:\'url\', '
                        "str:'byte_ranges', str:'shape', str:'dtype', str:'type_code', "
                        'str:\'records_per_chunk\', str:\'chunk_offsets\')", \'byte_ranges is\': True}',
 'unordered3 rpc=np.int64(2)': '{\'records_per_chunk\': \'int64(2)\', \'chunk_offsets\': "dict{int:0: '
                               "dict{str:'offset': int:20, str:'size': int:120}, int:1: dict{str:'offset': "
                               'int:40, str:\'size\': int:40}}", \'chunks\': \'tuple(int64(2), int:20)\', '
                               '\'ndim\': \'int:2\', \'repr\': "Array(url=\'image-file\', shape=(3, 20), '
                               'dtype=\'uint16\', records_per_chunk=np.int64(2))", \'fields\': '
                               '"list(str:\'fs\', str:\'url\', str:\'byte_ranges\', str:\'shape\', '
                               "str:'dtype', str:'type_code', str:'records_per_chunk', "
                               'str:\'chunk_offsets\')", \'byte_ranges is\': True}',
 'unordered3 rpc=np.int64(-1)': '{\'records_per_chunk\': \'int:3\', \'chunk_offsets\': "dict{int:0: '
                                'dict{str:\'offset\': int:20, str:\'size\': int:120}}", \'chunks\': '
                                "'tuple(int:3, int:20)', 'ndim': 'int:2', 'repr': "
                                '"Array(url=\'image-file\', shape=(3, 20), dtype=\'uint16\', '
                                'records_per_chunk=3)", \'fields\': "list(str:\'fs\', str:\'url\', '
                                "str:'byte_ranges', str:'shape', str:'dtype', str:'type_code', "
                                'str:\'records_per_chunk\', str:\'chunk_offsets\')", \'byte_ranges is\': '
                                'True}',
 'unordered3 rpc=np.uint8(9)': '{\'records_per_chunk\': \'int:3\', \'chunk_offsets\': "dict{int:0: '
                               'dict{str:\'offset\': int:20, str:\'size\': int:120}}", \'chunks\': '
                               "'tuple(int:3, int:20)', 'ndim': 'int:2', 'repr': "
                               '"Array(url=\'image-file\', shape=(3, 20), dtype=\'uint16\', '
                               'records_per_chunk=3)", \'fields\': "list(str:\'fs\', str:\'url\', '
                               "str:'byte_ranges', str:'shape', str:'dtype', str:'type_code', "
                               'str:\'records_per_chunk\', str:\'chunk_offsets\')", \'byte_ranges is\': '
                               'True}',
 'unordered3 rpc=IntLike(2)': "raise builtins.TypeError: unsupported operand type(s) for +: 'int' and "
                              "'IntLike'",
 'unordered3 rpc=IntLike(-1)': '{\'records_per_chunk\': \'int:3\', \'chunk_offsets\': "dict{int:0: '
                               'dict{str:\'offset\': int:20, str:\'size\': int:120}}", \'chunks\': '
                               "'tuple(int:3, int:20)', 'ndim': 'int:2', 'repr': "
                               '"Array(url=\'image-file\', shape=(3, 20), dtype=\'uint16\', '
                               'records_per_chunk=3)", \'fields\': "list(str:\'fs\', str:\'url\', '
                               "str:'byte_ranges', str:'shape', str:'dtype', str:'type_code', "
                               'str:\'records_per_chunk\', str:\'chunk_offsets\')", \'byte_ranges is\': '
                               'True}',
 'unordered3 rpc=IntLike(99)': '{\'records_per_chunk\': \'int:3\', \'chunk_offsets\': "dict{int:0: '
                               'dict{str:\'offset\': int:20, str:\'size\': int:120}}", \'chunks\': '
                               "'tuple(int:3, int:20)', 'ndim': 'int:2', 'repr': "
                               '"Array(url=\'image-file\', shape=(3, 20), dtype=\'uint16\', '
                               'records_per_chunk=3)", \'fields\': "list(str:\'fs\', str:\'url\', '
                               "str:'byte_ranges', str:'shape', str:'dtype', str:'type_code', "
                               'str:\'records_per_chunk\', str:\'chunk_offsets\')", \'byte_ranges is\': '
                               'True}',
 'unordered3 rpc=Fraction(2)': "raise builtins.TypeError: can't multiply sequence by non-int of type "
                               "'Fraction'",
 'unordered3 rpc=2.0': "raise builtins.TypeError: can't multiply sequence by non-int of type 'float'",
 'unordered3 rpc=nan': "raise builtins.TypeError: can't multiply sequence by non-int of type 'float'",
 'unordered3 rpc=inf': '{\'records_per_chunk\': \'int:3\', \'chunk_offsets\': "dict{int:0: '
                       'dict{str:\'offset\': int:20, str:\'size\': int:120}}", \'chunks\': \'tuple(int:3, '
                       'int:20)\', \'ndim\': \'int:2\', \'repr\': "Array(url=\'image-file\', shape=(3, 20), '
                       'dtype=\'uint16\', records_per_chunk=3)", \'fields\': "list(str:\'fs\', str:\'url\', '
                       "str:'byte_ranges', str:'shape', str:'dtype', str:'type_code', "
                       'str:\'records_per_chunk\', str:\'chunk_offsets\')", \'byte_ranges is\': True}',
 "unordered3 rpc='auto'": '{\'records_per_chunk\': \'int64(3)\', \'chunk_offsets\': "dict{int:0: '
                          'dict{str:\'offset\': int:20, str:\'size\': int:120}}", \'chunks\': '
                          "'tuple(int64(3), int:20)', 'ndim': 'int:2', 'repr': "
                          '"Array(url=\'image-file\', shape=(3, 20), dtype=\'uint16\', '
                          'records_per_chunk=np.int64(3))", \'fields\': "list(str:\'fs\', str:\'url\', '
                          "str:'byte_ranges', str:'shape', str:'dtype', str:'type_code', "
                          'str:\'records_per_chunk\', str:\'chunk_offsets\')", \'byte_ranges is\': True}',
 "unordered3 rpc=Text('auto')": '{\'records_per_chunk\': \'int64(3)\', \'chunk_offsets\': "dict{int:0: '
                                'dict{str:\'offset\': int:20, str:\'size\': int:120}}", \'chunks\': '
                                "'tuple(int64(3), int:20)', 'ndim': 'int:2', 'repr': "
                                '"Array(url=\'image-file\', shape=(3, 20), dtype=\'uint16\', '
                                'records_per_chunk=np.int64(3))", \'fields\': "list(str:\'fs\', str:\'url\', '
                                "str:'byte_ranges', str:'shape', str:'dtype', str:'type_code', "
                                'str:\'records_per_chunk\', str:\'chunk_offsets\')", \'byte_ranges is\': '
                                'True}',
 "unordered3 rpc='AUTO'": "raise builtins.ValueError: Could not interpret 'AUTO' as a byte unit",
 "unordered3 rpc=' auto'": "raise builtins.ValueError: Could not interpret 'auto' as a byte unit",
 "unordered3 rpc='1B'": '{\'records_per_chunk\': \'int64(1)\', \'chunk_offsets\': "dict{int:0: '
                        "dict{str:'offset': int:100, str:'size': int:40}, int:1: dict{str:'offset': int:20, "
                        'str:\'size\': int:40}, int:2: dict{str:\'offset\': int:40, str:\'size\': int:40}}", '
                        "'chunks': 'tuple(int64(1), int:20)', 'ndim': 'int:2', 'repr': "
                        '"Array(url=\'image-file\', shape=(3, 20), dtype=\'uint16\', '
                        'records_per_chunk=np.int64(1))", \'fields\': "list(str:\'fs\', str:\'url\', '
                        "str:'byte_ranges', str:'shape', str:'dtype', str:'type_code', "
                        'str:\'records_per_chunk\', str:\'chunk_offsets\')", \'byte_ranges is\': True}',
 "unordered3 rpc='39B'": '{\'records_per_chunk\': \'int64(1)\', \'chunk_offsets\': "dict{int:0: '
                         "dict{str:'offset': int:100, str:'size': int:40}, int:1: dict{str:'offset': int:20, "
                         "str:'size': int:40}, int:2: dict{str:'offset': int:40, str:'size': "
                         'int:40}}", \'chunks\': \'tuple(int64(1), int:20)\', \'ndim\': \'int:2\', \'repr\': '
                         '"Array(url=\'image-file\', shape=(3, 20), dtype=\'uint16\', '
                         'records_per_chunk=np.int64(1))", \'fields\': "list(str:\'fs\', str:\'url\', '
                         "str:'byte_ranges', str:'shape', str:'dtype', str:'type_code', "
                         'str:\'records_per_chunk\', str:\'chunk_offsets\')", \'byte_ranges is\': True}',
 "unordered3 rpc='40B'": '{\'records_per_chunk\': \'int64(1)\', \'chunk_offsets\': "dict{int:0: '
                         "dict{str:'offset': int:100, str:'size': int:40}, int:1: dict{str:'offset': int:20, "
                         "str:'size': int:40}, int:2: dict{str:'offset': int:40, str:'size': "
                         'int:40}}", \'chunks\': \'tuple(int64(1), int:20)\', \'ndim\': \'int:2\', \'repr\': '
                         '"Array(url=\'image-file\', shape=(3, 20), dtype=\'uint16\', '
                         'records_per_chunk=np.int64(1))", \'fields\': "list(str:\'fs\', str:\'url\', '
                         "str:'byte_ranges', str:'shape', str:'dtype', str:'type_code', "
                         'str:\'records_per_chunk\', str:\'chunk_offsets\')", \'byte_ranges is\': True}',
 "unordered3 rpc='60B'": '{\'records_per_chunk\': \'int64(1)\', \'chunk_offsets\': "dict{int:0: '
                         "dict{str:'offset': int:100, str:'size': int:40}, int:1: dict{str:'offset': int:20, "
                         "str:'size': int:40}, int:2: dict{str:'offset': int:40, str:'size': "
                         'int:40}}", \'chunks\': \'tuple(int64(1), int:20)\', \'ndim\': \'int:2\', \'repr\': '
                         '"Array(url=\'image-file\', shape=(3, 20), dtype=\'uint16\', '
                         'records_per_chunk=np.int64(1))", \'fields\': "list(str:\'fs\', str:\'url\', '
                         "str:'byte_ranges', str:'shape', str:'dtype', str:'type_code', "
                         'str:\'records_per_chunk\', str:\'chunk_offsets\')", \'byte_ranges is\': True}',
 "unordered3 rpc='61B'": '{\'records_per_chunk\': \'int64(2)\', \'chunk_offsets\': "dict{int:0: '
                         "dict{str:'offset': int:20, str:'size': int:120}, int:1: dict{str:'offset': int:40, "
                         'str:\'size\': int:40}}", \'chunks\': \'tuple(int64(2), int:20)\', \'ndim\': '
                         '\'int:2\', \'repr\': "Array(url=\'image-file\', shape=(3, 20), dtype=\'uint16\', '
                         'records_per_chunk=np.int64(2))", \'fields\': "list(str:\'fs\', str:\'url\', '
                         "str:'byte_ranges', str:'shape', str:'dtype', str:'type_code', "
                         'str:\'records_per_chunk\', str:\'chunk_offsets\')", \'byte_ranges is\': True}',
 "unordered3 rpc='80B'": '{\'records_per_chunk\': \'int64(2)\', \'chunk_offsets\': "dict{int:0: '
                         "dict{str:'offset': int:20, str:'size': int:120}, int:1: dict{str:'offset': int:40, "
                         'str:\'size\': int:40}}", \'chunks\': \'tuple(int64(2), int:20)\', \'ndim\': '
                         '\'int:2\', \'repr\': "Array(url=\'image-file\', shape=(3, 20), dtype=\'uint16\', '
                         'records_per_chunk=np.int64(2))", \'fields\': "list(str:\'fs\', str:\'url\', '
                         "str:'byte_ranges', str:'shape', str:'dtype', str:'type_code', "
                         'str:\'records_per_chunk\', str:\'chunk_offsets\')", \'byte_ranges is\': True}',
 "unordered3 rpc='100 B'": '{\'records_per_chunk\': \'int64(2)\', \'chunk_offsets\': "dict{int:0: '
                           "dict{str:'offset': int:20, str:'size': int:120}, int:1: dict{str:'offset': "
                           'int:40, str:\'size\': int:40}}", \'chunks\': \'tuple(int64(2), int:20)\', '
                           '\'ndim\': \'int:2\', \'repr\': "Array(url=\'image-file\', shape=(3, 20), '
                           'dtype=\'uint16\', records_per_chunk=np.int64(2))", \'fields\': "list(str:\'fs\', '
                           "str:'url', str:'byte_ranges', str:'shape', str:'dtype', str:'type_code', "
                           'str:\'records_per_chunk\', str:\'chunk_offsets\')", \'byte_ranges is\': True}',
 "unordered3 rpc='0.1kB'": '{\'records_per_chunk\': \'int64(2)\', \'chunk_offsets\': "dict{int:0: '
                           "dict{str:'offset': int:20, str:'size': int:120}, int:1: dict{str:'offset': "
                           'int:40, str:\'size\': int:40}}", \'chunks\': \'tuple(int64(2), int:20)\', '
                           '\'ndim\': \'int:2\', \'repr\': "Array(url=\'image-file\', shape=(3, 20), '
                           'dtype=\'uint16\', records_per_chunk=np.int64(2))", \'fields\': "list(str:\'fs\', '
                           "str:'url', str:'byte_ranges', str:'shape', str:'dtype', str:'type_code', "
                           'str:\'records_per_chunk\', str:\'chunk_offsets\')", \'byte_ranges is\': True}',
 "unordered3 rpc='1kB'": '{\'records_per_chunk\': \'int64(3)\', \'chunk_offsets\': "dict{int:0: '
                         'dict{str:\'offset\': int:20, str:\'size\': int:120}}", \'chunks\': '
                         "'tuple(int64(3), int:20)', 'ndim': 'int:2', 'repr': "
                         '"Array(url=\'image-file\', shape=(3, 20), dtype=\'uint16\', '
                         'records_per_chunk=np.int64(3))", \'fields\': "list(str:\'fs\', str:\'url\', '
                         "str:'byte_ranges', str:'shape', str:'dtype', str:'type_code', "
                         'str:\'records_per_chunk\', str:\'chunk_offsets\')", \'byte_ranges is\': True}',
 "unordered3 rpc='1KiB'": '{\'records_per_chunk\': \'int64(3)\', \'chunk_offsets\': "dict{int:0: '
                          'dict{str:\'offset\': int:20, str:\'size\': int:120}}", \'chunks\': '
                          "'tuple(int64(3), int:20)', 'ndim': 'int:2', 'repr': "
                          '"Array(url=\'image-file\', shape=(3, 20), dtype=\'uint16\', '
                          'records_per_chunk=np.int64(3))", \'fields\': "list(str:\'fs\', str:\'url\', '
                          "str:'byte_ranges', str:'shape', str:'dtype', str:'type_code', "
                          'str:\'records_per_chunk\', str:\'chunk_offsets\')", \'byte_ranges is\': True}',
 "unordered3 rpc='1e2'": '{\'records_per_chunk\': \'int64(2)\', \'chunk_offsets\': "dict{int:0: '
                         "dict{str:'offset': int:20, str:'size': int:120}, int:1: dict{str:'offset': int:40, "
                         'str:\'size\': int:40}}", \'chunks\': \'tuple(int64(2), int:20)\', \'ndim\': '
                         '\'int:2\', \'repr\': "Array(url=\'image-file\', shape=(3, 20), dtype=\'uint16\', '
                         'records_per_chunk=np.int64(2))", \'fields\': "list(str:\'fs\', str:\'url\', '
                         "str:'byte_ranges', str:'shape', str:'dtype', str:'type_code', "
                         'str:\'records_per_chunk\', str:\'chunk_offsets\')", \'byte_ranges is\': True}',
 "unordered3 rpc='120'": '{\'records_per_chunk\': \'int64(3)\', \'chunk_offsets\': "dict{int:0: '
                         'dict{str:\'offset\': int:20, str:\'size\': int:120}}", \'chunks\': '
                         "'tuple(int64(3), int:20)', 'ndim': 'int:2', 'repr': "
                         '"Array(url=\'image-file\', shape=(3, 20), dtype=\'uint16\', '
                         'records_per_chunk=np.int64(3))", \'fields\': "list(str:\'fs\', str:\'url\', '
                         "str:'byte_ranges', str:'shape', str:'dtype', str:'type_code', "
                         'str:\'records_per_chunk\', str:\'chunk_offsets\')", \'byte_ranges is\': True}',
 "unordered3 rpc='2'": '{\'records_per_chunk\': \'int64(1)\', \'chunk_offsets\': "dict{int:0: '
                       "dict{str:'offset': int:100, str:'size': int:40}, int:1: dict{str:'offset': int:20, "
                       'str:\'size\': int:40}, int:2: dict{str:\'offset\': int:40, str:\'size\': int:40}}", '
                       "'chunks': 'tuple(int64(1), int:20)', 'ndim': 'int:2', 'repr': "
                       '"Array(url=\'image-file\', shape=(3, 20), dtype=\'uint16\', '
                       'records_per_chunk=np.int64(1))", \'fields\': "list(str:\'fs\', str:\'url\', '
                       "str:'byte_ranges', str:'shape', str:'dtype', str:'type_code', "
                       'str:\'records_per_chunk\', str:\'chunk_offsets\')", \'byte_ranges is\': True}',
 "unordered3 rpc='0'": '{\'records_per_chunk\': \'int64(1)\', \'chunk_offsets\': "dict{int:0: '
                       "dict{str:'offset': int:100, str:'size': int:40}, int:1: dict{str:'offset': int:20, "
                       'str:\'size\': int:40}, int:2: dict{str:\'offset\': int:40, str:\'size\': int:40}}", '
                       "'chunks': 'tuple(int64(1), int:20)', 'ndim': 'int:2', 'repr': "
                       '"Array(url=\'image-file\', shape=(3, 20), dtype=\'uint16\', '
                       'records_per_chunk=np.int64(1))", \'fields\': "list(str:\'fs\', str:\'url\', '
                       "str:'byte_ranges', str:'shape', str:'dtype', str:'type_code', "
                       'str:\'records_per_chunk\', str:\'chunk_offsets\')", \'byte_ranges is\': True}',
 "unordered3 rpc='-1'": '{\'records_per_chunk\': \'int64(1)\', \'chunk_offsets\': "dict{int:0: '
                        "dict{str:'offset': int:100, str:'size': int:40}, int:1: dict{str:'offset': int:20, "
                        'str:\'size\': int:40}, int:2: dict{str:\'offset\': int:40, str:\'size\': int:40}}", '
                        "'chunks': 'tuple(int64(1), int:20)', 'ndim': 'int:2', 'repr': "
                        '"Array(url=\'image-file\', shape=(3, 20), dtype=\'uint16\', '
                        'records_per_chunk=np.int64(1))", \'fields\': "list(str:\'fs\', str:\'url\', '
                        "str:'byte_ranges', str:'shape', str:'dtype', str:'type_code', "
                        'str:\'records_per_chunk\', str:\'chunk_offsets\')", \'byte_ranges is\': True}',
 "unordered3 rpc='-80B'": '{\'records_per_chunk\': \'int64(1)\', \'chunk_offsets\': "dict{int:0: '
                          "dict{str:'offset': int:100, str:'size': int:40}, int:1: dict{str:'offset': "
                          "int:20, str:'size': int:40}, int:2: dict{str:'offset': int:40, str:'size': "
                          'int:40}}", \'chunks\': \'tuple(int64(1), int:20)\', \'ndim\': \'int:2\', '
                          '\'repr\': "Array(url=\'image-file\', shape=(3, 20), dtype=\'uint16\', '
                          'records_per_chunk=np.int64(1))", \'fields\': "list(str:\'fs\', str:\'url\', '
                          "str:'byte_ranges', str:'shape', str:'dtype', str:'type_code', "
                          'str:\'records_per_chunk\', str:\'chunk_offsets\')", \'byte_ranges is\': True}',
 "unordered3 rpc='5GB'": '{\'records_per_chunk\': \'int64(3)\', \'chunk_offsets\': "dict{int:0: '
                         'dict{str:\'offset\': int:20, str:\'size\': int:120}}", \'chunks\': '
                         "'tuple(int64(3), int:20)', 'ndim': 'int:2', 'repr': "
                         '"Array(url=\'image-file\', shape=(3, 20), dtype=\'uint16\', '
                         'records_per_chunk=np.int64(3))", \'fields\': "list(str:\'fs\', str:\'url\', '
                         "str:'byte_ranges', str:'shape', str:'dtype', str:'type_code', "
                         'str:\'records_per_chunk\', str:\'chunk_offsets\')", \'byte_ranges is\': True}',
 "unordered3 rpc='MB'": '{\'records_per_chunk\': \'int64(3)\', \'chunk_offsets\': "dict{int:0: '
                        'dict{str:\'offset\': int:20, str:\'size\': int:120}}", \'chunks\': '
                        "'tuple(int64(3), int:20)', 'ndim': 'int:2', 'repr': "
                        '"Array(url=\'image-file\', shape=(3, 20), dtype=\'uint16\', '
                        'records_per_chunk=np.int64(3))", \'fields\': "list(str:\'fs\', str:\'url\', '
                        "str:'byte_ranges', str:'shape', str:'dtype', str:'type_code', "
                        'str:\'records_per_chunk\', str:\'chunk_offsets\')", \'byte_ranges is\': True}',
 "unordered3 rpc=''": '{\'records_per_chunk\': \'int64(1)\', \'chunk_offsets\': "dict{int:0: '
                      "dict{str:'offset': int:100, str:'size': int:40}, int:1: dict{str:'offset': int:20, "
                      'str:\'size\': int:40}, int:2: dict{str:\'offset\': int:40, str:\'size\': int:40}}", '
                      "'chunks': 'tuple(int64(1), int:20)', 'ndim': 'int:2', 'repr': "
                      '"Array(url=\'image-file\', shape=(3, 20), dtype=\'uint16\', '
                      'records_per_chunk=np.int64(1))", \'fields\': "list(str:\'fs\', str:\'url\', '
                      "str:'byte_ranges', str:'shape', str:'dtype', str:'type_code', "
                      'str:\'records_per_chunk\', str:\'chunk_offsets\')", \'byte_ranges is\': True}',
 "unordered3 rpc='B'": '{\'records_per_chunk\': \'int64(1)\', \'chunk_offsets\': "dict{int:0: '
                       "dict{str:'offset': int:100, str:'size': int:40}, int:1: dict{str:'offset': int:20, "
                       'str:\'size\': int:40}, int:2: dict{str:\'offset\': int:40, str:\'size\': int:40}}", '
                       "'chunks': 'tuple(int64(1), int:20)', 'ndim': 'int:2', 'repr': "
                       '"Array(url=\'image-file\', shape=(3, 20), dtype=\'uint16\', '
                       'records_per_chunk=np.int64(1))", \'fields\': "list(str:\'fs\', str:\'url\', '
                       "str:'byte_ranges', str:'shape', str:'dtype', str:'type_code', "
                       'str:\'records_per_chunk\', str:\'chunk_offsets\')", \'byte_ranges is\': True}',
 "unordered3 rpc='5 foos'": "raise builtins.ValueError: Could not interpret 'foos' as a byte unit",
 "unordered3 rpc='abc'": "raise builtins.ValueError: Could not interpret 'abc' as a byte unit",
 "unordered3 rpc='1.2.3B'": "raise builtins.ValueError: Could not interpret '1.2.3' as a number",
 "unordered3 rpc=Text('80B')": '{\'records_per_chunk\': \'int64(2)\', \'chunk_offsets\': "dict{int:0: '
                               "dict{str:'offset': int:20, str:'size': int:120}, int:1: dict{str:'offset': "
                               'int:40, str:\'size\': int:40}}", \'chunks\': \'tuple(int64(2), int:20)\', '
                               '\'ndim\': \'int:2\', \'repr\': "Array(url=\'image-file\', shape=(3, 20), '
                               'dtype=\'uint16\', records_per_chunk=np.int64(2))", \'fields\': '
                               '"list(str:\'fs\', str:\'url\', str:\'byte_ranges\', str:\'shape\', '
                               "str:'dtype', str:'type_code', str:'records_per_chunk', "
                               'str:\'chunk_offsets\')", \'byte_ranges is\': True}',
 "unordered3 rpc=b'auto'": "raise builtins.TypeError: '>' not supported between instances of 'bytes' and "
                           "'int'",
 "unordered3 rpc=b'80B'": "raise builtins.TypeError: '>' not supported between instances of 'bytes' and "
                          "'int'",
 'unordered3 rpc=[2]': "raise builtins.TypeError: '>' not supported between instances of 'list' and 'int'",
 'unordered3 rpc=(2,)': "raise builtins.TypeError: '>' not supported between instances of 'tuple' and 'int'",
 'unordered3 rpc={}': "raise builtins.TypeError: '>' not supported between instances of 'dict' and 'int'",
 'unordered3 rpc=2j': "raise builtins.TypeError: '>' not supported between instances of 'complex' and 'int'",
 'unordered3 rpc=object': "raise builtins.TypeError: '>' not supported between instances of 'type' and 'int'",
 'unordered3 rpc not given': '{\'records_per_chunk\': \'int:1024\', \'chunk_offsets\': "dict{int:0: '
                             'dict{str:\'offset\': int:20, str:\'size\': int:120}}", \'chunks\': '
                             "'tuple(int:1024, int:20)', 'ndim': 'int:2', 'repr': "
                             '"Array(url=\'image-file\', shape=(3, 20), dtype=\'uint16\', '
                             'records_per_chunk=1024)", \'fields\': "list(str:\'fs\', str:\'url\', '
                             "str:'byte_ranges', str:'shape', str:'dtype', str:'type_code', "
                             'str:\'records_per_chunk\', str:\'chunk_offsets\')", \'byte_ranges is\': True}',
 'reversed2 rpc=None': '{\'records_per_chunk\': \'int:1024\', \'chunk_offsets\': "dict{int:0: '
                       'dict{str:\'offset\': int:60, str:\'size\': int:40}}", \'chunks\': \'tuple(int:1024, '
                       'int:20)\', \'ndim\': \'int:2\', \'repr\': "Array(url=\'image-file\', shape=(2, 20), '
                       'dtype=\'uint16\', records_per_chunk=1024)", \'fields\': "list(str:\'fs\', '
                       "str:'url', str:'byte_ranges', str:'shape', str:'dtype', str:'type_code', "
                       'str:\'records_per_chunk\', str:\'chunk_offsets\')", \'byte_ranges is\': True}',
 'reversed2 rpc=1': '{\'records_per_chunk\': \'int:1\', \'chunk_offsets\': "dict{int:0: dict{str:\'offset\': '
                    "int:60, str:'size': int:-40}, int:1: dict{str:'offset': int:140, str:'size': "
                    'int:-40}}", \'chunks\': \'tuple(int:1, int:20)\', \'ndim\': \'int:2\', \'repr\': '
                    '"Array(url=\'image-file\', shape=(2, 20), dtype=\'uint16\', records_per_chunk=1)", '
                    '\'fields\': "list(str:\'fs\', str:\'url\', str:\'byte_ranges\', str:\'shape\', '
                    'str:\'dtype\', str:\'type_code\', str:\'records_per_chunk\', str:\'chunk_offsets\')", '
                    "'byte_ranges is': True}",
 'reversed2 rpc=2': '{\'records_per_chunk\': \'int:2\', \'chunk_offsets\': "dict{int:0: dict{str:\'offset\': '
                    'int:60, str:\'size\': int:40}}", \'chunks\': \'tuple(int:2, int:20)\', \'ndim\': '
                    '\'int:2\', \'repr\': "Array(url=\'image-file\', shape=(2, 20), dtype=\'uint16\', '
                    'records_per_chunk=2)", \'fields\': "list(str:\'fs\', str:\'url\', str:\'byte_ranges\', '
                    "str:'shape', str:'dtype', str:'type_code', str:'records_per_chunk', "
                    'str:\'chunk_offsets\')", \'byte_ranges is\': True}',
 'reversed2 rpc=3': '{\'records_per_chunk\': \'int:2\', \'chunk_offsets\': "dict{int:0: dict{str:\'offset\': '
                    'int:60, str:\'size\': int:40}}", \'chunks\': \'tuple(int:2, int:20)\', \'ndim\': '
                    '\'int:2\', \'repr\': "Array(url=\'image-file\', shape=(2, 20), dtype=\'uint16\', '
                    'records_per_chunk=2)", \'fields\': "list(str:\'fs\', str:\'url\', str:\'byte_ranges\', '
                    "str:'shape', str:'dtype', str:'type_code', str:'records_per_chunk', "
                    'str:\'chunk_offsets\')", \'byte_ranges is\': True}',
 'reversed2 rpc=4': '{\'records_per_chunk\': \'int:2\', \'chunk_offsets\': "dict{int:0: dict{str:\'offset\': '
                    'int:60, str:\'size\': int:40}}", \'chunks\': \'tuple(int:2, int:20)\', \'ndim\': '
                    '\'int:2\', \'repr\': "Array(url=\'image-file\', shape=(2, 20), dtype=\'uint16\', '
                    'records_per_chunk=2)", \'fields\': "list(str:\'fs\', str:\'url\', str:\'byte_ranges\', '
                    "str:'shape', str:'dtype', str:'type_code', str:'records_per_chunk', "
                    'str:\'chunk_offsets\')", \'byte_ranges is\': True}',
 'reversed2 rpc=5': '{\'records_per_chunk\': \'int:2\', \'chunk_offsets\': "dict{int:0: dict{str:\'offset\': '
                    'int:60, str:\'size\': int:40}}", \'chunks\': \'tuple(int:2, int:20)\', \'ndim\': '
                    '\'int:2\', \'repr\': "Array(url=\'image-file\', shape=(2, 20), dtype=\'uint16\', '
                    'records_per_chunk=2)", \'fields\': "list(str:\'fs\', str:\'url\', str:\'byte_ranges\', '
                    "str:'shape', str:'dtype', str:'type_code', str:'records_per_chunk', "
                    'str:\'chunk_offsets\')", \'byte_ranges is\': True}',
 'reversed2 rpc=6': '{\'records_per_chunk\': \'int:2\', \'chunk_offsets\': "dict{int:0: dict{str:\'offset\': '
                    'int:60, str:\'size\': int:40}}", \'chunks\': \'tuple(int:2, int:20)\', \'ndim\': '
                    '\'int:2\', \'repr\': "Array(url=\'image-file\', shape=(2, 20), dtype=\'uint16\', '
                    'records_per_chunk=2)", \'fields\': "list(str:\'fs\', str:\'url\', str:\'byte_ranges\', '
                    "str:'shape', str:'dtype', str:'type_code', str:'records_per_chunk', "
                    'str:\'chunk_offsets\')", \'byte_ranges is\': True}',
 'reversed2 rpc=1024': '{\'records_per_chunk\': \'int:2\', \'chunk_offsets\': "dict{int:0: '
                       'dict{str:\'offset\': int:60, str:\'size\': int:40}}", \'chunks\': \'tuple(int:2, '
                       'int:20)\', \'ndim\': \'int:2\', \'repr\': "Array(url=\'image-file\', shape=(2, 20), '
                       'dtype=\'uint16\', records_per_chunk=2)", \'fields\': "list(str:\'fs\', str:\'url\', '
                       "str:'byte_ranges', str:'shape', str:'dtype', str:'type_code', "
                       'str:\'records_per_chunk\', str:\'chunk_offsets\')", \'byte_ranges is\': True}',
 'reversed2 rpc=-1': '{\'records_per_chunk\': \'int:2\', \'chunk_offsets\': "dict{int:0: '
                     'dict{str:\'offset\': int:60, str:\'size\': int:40}}", \'chunks\': \'tuple(int:2, '
                     'int:20)\', \'ndim\': \'int:2\', \'repr\': "Array(url=\'image-file\', shape=(2, 20), '
                     'dtype=\'uint16\', records_per_chunk=2)", \'fields\': "list(str:\'fs\', str:\'url\', '
                     "str:'byte_ranges', str:'shape', str:'dtype', str:'type_code', str:'records_per_chunk', "
                     'str:\'chunk_offsets\')", \'byte_ranges is\': True}',
 'reversed2 rpc=True': '{\'records_per_chunk\': \'bool:True\', \'chunk_offsets\': "dict{int:0: '
                       "dict{str:'offset': int:60, str:'size': int:-40}, int:1: dict{str:'offset': int:140, "
                       'str:\'size\': int:-40}}", \'chunks\': \'tuple(bool:True, int:20)\', \'ndim\': '
                       '\'int:2\', \'repr\': "Array(url=\'image-file\', shape=(2, 20), dtype=\'uint16\', '
                       'records_per_chunk=True)", \'fields\': "list(str:\'fs\', str:\'url\', '
                       "str:'byte_ranges', str:'shape', str:'dtype', str:'type_code', "
                       'str:\'records_per_chunk\', str:\'chunk_offsets\')", \'byte_ranges is\': True}',
 'reversed2 rpc=np.int64(2)': '{\'records_per_chunk\': \'int64(2)\', \'chunk_offsets\': "dict{int:0: '
                              'dict{str:\'offset\': int:60, str:\'size\': int:40}}", \'chunks\': '
                              "'tuple(int64(2), int:20)', 'ndim': 'int:2', 'repr': "
                              '"Array(url=\'image-file\', shape=(2, 20), dtype=\'uint16\', '
                              'records_per_chunk=np.int64(2))", \'fields\': "list(str:\'fs\', str:\'url\', '
                              "str:'byte_ranges', str:'shape', str:'dtype', str:'type_code', "
                              'str:\'records_per_chunk\', str:\'chunk_offsets\')", \'byte_ranges is\': True}',
 'reversed2 rpc=np.int64(-1)': '{\'records_per_chunk\': \'int:2\', \'chunk_offsets\': "dict{int:0: '
                               'dict{str:\'offset\': int:60, str:\'size\': int:40}}", \'chunks\': '
                               "'tuple(int:2, int:20)', 'ndim': 'int:2', 'repr': "
                               '"Array(url=\'image-file\', shape=(2, 20), dtype=\'uint16\', '
                               'records_per_chunk=2)", \'fields\': "list(str:\'fs\', str:\'url\', '
                               "str:'byte_ranges', str:'shape', str:'dtype', str:'type_code', "
                               'str:\'records_per_chunk\', str:\'chunk_offsets\')", \'byte_ranges is\': '
                               'True}',
 'reversed2 rpc=np.uint8(9)': '{\'records_per_chunk\': \'int:2\', \'chunk_offsets\': "dict{int:0: '
                              'dict{str:\'offset\': int:60, str:\'size\': int:40}}", \'chunks\': '
                              "'tuple(int:2, int:20)', 'ndim': 'int:2', 'repr': "
                              '"Array(url=\'image-file\', shape=(2, 20), dtype=\'uint16\', '
                              'records_per_chunk=2)", \'fields\': "list(str:\'fs\', str:\'url\', '
                              "str:'byte_ranges', str:'shape', str:'dtype', str:'type_code', "
                              'str:\'records_per_chunk\', str:\'chunk_offsets\')", \'byte_ranges is\': True}',
 'reversed2 rpc=IntLike(2)': "{'records_per_chunk': 'IntLike:IntLike(2)', 'chunk_offsets': "
                             '"dict{int:0: dict{str:\'offset\': int:60, str:\'size\': int:40}}", \'chunks\': '
                             "'tuple(IntLike:IntLike(2), int:20)', 'ndim': 'int:2', 'repr': "
                             '"Array(url=\'image-file\', shape=(2, 20), dtype=\'uint16\', '
                             'records_per_chunk=IntLike(2))", \'fields\': "list(str:\'fs\', str:\'url\', '
                             "str:'byte_ranges', str:'shape', str:'dtype', str:'type_code', "
                             'str:\'records_per_chunk\', str:\'chunk_offsets\')", \'byte_ranges is\': True}',
 'reversed2 rpc=IntLike(-1)': '{\'records_per_chunk\': \'int:2\', \'chunk_offsets\': "dict{int:0: '
                              'dict{str:\'offset\': int:60, str:\'size\': int:40}}", \'chunks\': '
                              "'tuple(int:2, int:20)', 'ndim': 'int:2', 'repr': "
                              '"Array(url=\'image-file\', shape=(2, 20), dtype=\'uint16\', '
                              'records_per_chunk=2)", \'fields\': "list(str:\'fs\', str:\'url\', '
                              "str:'byte_ranges', str:'shape', str:'dtype', str:'type_code', "
                              'str:\'records_per_chunk\', str:\'chunk_offsets\')", \'byte_ranges is\': True}',
 'reversed2 rpc=IntLike(99)': '{\'records_per_chunk\': \'int:2\', \'chunk_offsets\': "dict{int:0: '
                              'dict{str:\'offset\': int:60, str:\'size\': int:40}}", \'chunks\': '
                              "'tuple(int:2, int:20)', 'ndim': 'int:2', 'repr': "
                              '"Array(url=\'image-file\', shape=(2, 20), dtype=\'uint16\', '
                              'records_per_chunk=2)", \'fields\': "list(str:\'fs\', str:\'url\', '
                              "str:'byte_ranges', str:'shape', str:'dtype', str:'type_code', "
                              'str:\'records_per_chunk\', str:\'chunk_offsets\')", \'byte_ranges is\': True}',
 'reversed2 rpc=Fraction(2)': "raise builtins.TypeError: can't multiply sequence by non-int of type "
                              "'Fraction'",
 'reversed2 rpc=2.0': "raise builtins.TypeError: can't multiply sequence by non-int of type 'float'",
 'reversed2 rpc=nan': "raise builtins.TypeError: can't multiply sequence by non-int of type 'float'",
 'reversed2 rpc=inf': '{\'records_per_chunk\': \'int:2\', \'chunk_offsets\': "dict{int:0: '
                      'dict{str:\'offset\': int:60, str:\'size\': int:40}}", \'chunks\': \'tuple(int:2, '
                      'int:20)\', \'ndim\': \'int:2\', \'repr\': "Array(url=\'image-file\', shape=(2, 20), '
                      'dtype=\'uint16\', records_per_chunk=2)", \'fields\': "list(str:\'fs\', str:\'url\', '
                      "str:'byte_ranges', str:'shape', str:'dtype', str:'type_code', "
                      'str:\'records_per_chunk\', str:\'chunk_offsets\')", \'byte_ranges is\': True}',
 "reversed2 rpc='auto'": '{\'records_per_chunk\': \'int64(1)\', \'chunk_offsets\': "dict{int:0: '
                         "dict{str:'offset': int:60, str:'size': int:-40}, int:1: dict{str:'offset': "
                         'int:140, str:\'size\': int:-40}}", \'chunks\': \'tuple(int64(1), int:20)\', '
                         '\'ndim\': \'int:2\', \'repr\': "Array(url=\'image-file\', shape=(2, 20), '
                         'dtype=\'uint16\', records_per_chunk=np.int64(1))", \'fields\': "list(str:\'fs\', '
                         "str:'url', str:'byte_ranges', str:'shape', str:'dtype', str:'type_code', "
                         'str:\'records_per_chunk\', str:\'chunk_offsets\')", \'byte_ranges is\': True}',
 "reversed2 rpc=Text('auto')": '{\'records_per_chunk\': \'int64(1)\', \'chunk_offsets\': "dict{int:0: '
                               "dict{str:'offset': int:60, str:'size': int:-40}, int:1: dict{str:'offset': "
                               'int:140, str:\'size\': int:-40}}", \'chunks\': \'tuple(int64(1), int:20)\', '
                               '\'ndim\': \'int:2\', \'repr\': "Array(url=\'image-file\', shape=(2, 20), '
                               'dtype=\'uint16\', records_per_chunk=np.int64(1))", \'fields\': '
                               '"list(str:\'fs\', str:\'url\', str:\'byte_ranges\', str:\'shape\', '
                               "str:'dtype', str:'type_code', str:'records_per_chunk', "
                               'str:\'chunk_offsets\')", \'byte_ranges is\': True}',
 "reversed2 rpc='AUTO'": "raise builtins.ValueError: Could not interpret 'AUTO' as a byte unit",
 "reversed2 rpc=' auto'": "raise builtins.ValueError: Could not interpret 'auto' as a byte unit",
 "reversed2 rpc='1B'": '{\'records_per_chunk\': \'int64(1)\', \'chunk_offsets\': "dict{int:0: '
                       "dict{str:'offset': int:60, str:'size': int:-40}, int:1: dict{str:'offset': int:140, "
                       'str:\'size\': int:-40}}", \'chunks\': \'tuple(int64(1), int:20)\', \'ndim\': '
                       '\'int:2\', \'repr\': "Array(url=\'image-file\', shape=(2, 20), dtype=\'uint16\', '
                       'records_per_chunk=np.int64(1))", \'fields\': "list(str:\'fs\', str:\'url\', '
                       "str:'byte_ranges', str:'shape', str:'dtype', str:'type_code', "
                       'str:\'records_per_chunk\', str:\'chunk_offsets\')", \'byte_ranges is\': True}',
 "reversed2 rpc='39B'": '{\'records_per_chunk\': \'int64(1)\', \'chunk_offsets\': "dict{int:0: '
                        "dict{str:'offset': int:60, str:'size': int:-40}, int:1: dict{str:'offset': int:140, "
                        'str:\'size\': int:-40}}", \'chunks\': \'tuple(int64(1), int:20)\', \'ndim\': '
                        '\'int:2\', \'repr\': "Array(url=\'image-file\', shape=(2, 20), dtype=\'uint16\', '
                        'records_per_chunk=np.int64(1))", \'fields\': "list(str:\'fs\', str:\'url\', '
                        "str:'byte_ranges', str:'shape', str:'dtype', str:'type_code', "
                        'str:\'records_per_chunk\', str:\'chunk_offsets\')", \'byte_ranges is\': True}',
 "reversed2 rpc='40B'": '{\'records_per_chunk\': \'int64(1)\', \'chunk_offsets\': "dict{int:0: '
                        "dict{str:'offset': int:60, str:'size': int:-40}, int:1: dict{str:'offset': int:140, "
                        'str:\'size\': int:-40}}", \'chunks\': \'tuple(int64(1), int:20)\', \'ndim\': '
                        '\'int:2\', \'repr\': "Array(url=\'image-file\', shape=(2, 20), dtype=\'uint16\', '
                        'records_per_chunk=np.int64(1))", \'fields\': "list(str:\'fs\', str:\'url\', '
                        "str:'byte_ranges', str:'shape', str:'dtype', str:'type_code', "
                        'str:\'records_per_chunk\', str:\'chunk_offsets\')", \'byte_ranges is\': True}',
 "reversed2 rpc='60B'": '{\'records_per_chunk\': \'int64(1)\', \'chunk_offsets\': "dict{int:0: '
                        "dict{str:'offset': int:60, str:'size': int:-40}, int:1: dict{str:'offset': int:140, "
                        'str:\'size\': int:-40}}", \'chunks\': \'tuple(int64(1), int:20)\', \'ndim\': '
                        '\'int:2\', \'repr\': "Array(url=\'image-file\', shape=(2, 20), dtype=\'uint16\', '
                        'records_per_chunk=np.int64(1))", \'fields\': "list(str:\'fs\', str:\'url\', '
                        "str:'byte_ranges', str:'shape', str:'dtype', str:'type_code', "
                        'str:\'records_per_chunk\', str:\'chunk_offsets\')", \'byte_ranges is\': True}',
 "reversed2 rpc='61B'": '{\'records_per_chunk\': \'int64(1)\', \'chunk_offsets\': "dict{int:0: '
                        "dict{str:'offset': int:60, str:'size': int:-40}, int:1: dict{str:'offset': int:140, "
                        'str:\'size\': int:-40}}", \'chunks\': \'tuple(int64(1), int:20)\', \'ndim\': '
                        '\'int:2\', \'repr\': "Array(url=\'image-file\', shape=(2, 20), dtype=\'uint16\', '
                        'records_per_chunk=np.int64(1))", \'fields\': "list(str:\'fs\', str:\'url\', '
                        "str:'byte_ranges', str:'shape', str:'dtype', str:'type_code', "
                        'str:\'records_per_chunk\', str:\'chunk_offsets\')", \'byte_ranges is\': True}',
 "reversed2 rpc='80B'": '{\'records_per_chunk\': \'int64(1)\', \'chunk_offsets\': "dict{int:0: '
                        "dict{str:'offset': int:60, str:'size': int:-40}, int:1: dict{str:'offset': int:140, "
                        'str:\'size\': int:-40}}", \'chunks\': \'tuple(int64(1), int:20)\', \'ndim\': '
                        '\'int:2\', \'repr\': "Array(url=\'image-file\', shape=(2, 20), dtype=\'uint16\', '
                        'records_per_chunk=np.int64(1))", \'fields\': "list(str:\'fs\', str:\'url\', '
                        "str:'byte_ranges', str:'shape', str:'dtype', str:'type_code', "
                        'str:\'records_per_chunk\', str:\'chunk_offsets\')", \'byte_ranges is\': True}',
 "reversed2 rpc='100 B'": '{\'records_per_chunk\': \'int64(1)\', \'chunk_offsets\': "dict{int:0: '
                          "dict{str:'offset': int:60, str:'size': int:-40}, int:1: dict{str:'offset': "
                          'int:140, str:\'size\': int:-40}}", \'chunks\': \'tuple(int64(1), int:20)\', '
                          '\'ndim\': \'int:2\', \'repr\': "Array(url=\'image-file\', shape=(2, 20), '
                          'dtype=\'uint16\', records_per_chunk=np.int64(1))", \'fields\': "list(str:\'fs\', '
                          "str:'url', str:'byte_ranges', str:'shape', str:'dtype', str:'type_code', "
                          'str:\'records_per_chunk\', str:\'chunk_offsets\')", \'byte_ranges is\': True}',
 "reversed2 rpc='0.1kB'": '{\'records_per_chunk\': \'int64(1)\', \'chunk_offsets\': "dict{int:0: '
                          "dict{str:'offset': int:60, str:'size': int:-40}, int:1: dict{str:'offset': "
                          'int:140, str:\'size\': int:-40}}", \'chunks\': \'tuple(int64(1), int:20)\', '
                          '\'ndim\': \'int:2\', \'repr\': "Array(url=\'image-file\', shape=(2, 20), '
                          'dtype=\'uint16\', records_per_chunk=np.int64(1))", \'fields\': "list(str:\'fs\', '
                          "str:'url', str:'byte_ranges', str:'shape', str:'dtype', str:'type_code', "
                          'str:\'records_per_chunk\', str:\'chunk_offsets\')", \'byte_ranges is\': True}',
 "reversed2 rpc='1kB'": '{\'records_per_chunk\': \'int64(1)\', \'chunk_offsets\': "dict{int:0: '
                        "dict{str:'offset': int:60, str:'size': int:-40}, int:1: dict{str:'offset': int:140, "
                        'str:\'size\': int:-40}}", \'chunks\': \'tuple(int64(1), int:20)\', \'ndim\': '
                        '\'int:2\', \'repr\': "Array(url=\'image-file\', shape=(2, 20), dtype=\'uint16\', '
                        'records_per_chunk=np.int64(1))", \'fields\': "list(str:\'fs\', str:\'url\', '
                        "str:'byte_ranges', str:'shape', str:'dtype', str:'type_code', "
                        'str:\'records_per_chunk\', str:\'chunk_offsets\')", \'byte_ranges is\': True}',
 "reversed2 rpc='1KiB'": '{\'records_per_chunk\': \'int64(1)\', \'chunk_offsets\': "dict{int:0: '
                         "dict{str:'offset': int:60, str:'size': int:-40}, int:1: dict{str:'offset': "
                         'int:140, str:\'size\': int:-40}}", \'chunks\': \'tuple(int64(1), int:20)\', '
                         '\'ndim\': \'int:2\', \'repr\': "Array(url=\'image-file\', shape=(2, 20), '
                         'dtype=\'uint16\', records_per_chunk=np.int64(1))", \'fields\': "list(str:\'fs\', '
                         "str:'url', str:'byte_ranges', str:'shape', str:'dtype', str:'type_code', "
                         'str:\'records_per_chunk\', str:\'chunk_offsets\')", \'byte_ranges is\': True}',
 "reversed2 rpc='1e2'": '{\'records_per_chunk\': \'int64(1)\', \'chunk_offsets\': "dict{int:0: '
                        "dict{str:'offset': int:60, str:'size': int:-40}, int:1: dict{str:'offset': int:140, "
                        'str:\'size\': int:-40}}", \'chunks\': \'tuple(int64(1), int:20)\', \'ndim\': '
                        '\'int:2\', \'repr\': "Array(url=\'image-file\', shape=(2, 20), dtype=\'uint16\', '
                        'records_per_chunk=np.int64(1))", \'fields\': "list(str:\'fs\', str:\'url\', '
                        "str:'byte_ranges', str:'shape', str:'dtype', str:'type_code', "
                        'str:\'records_per_chunk\', str:\'chunk_offsets\')", \'byte_ranges is\': True}',
 "reversed2 rpc='120'": '{\'records_per_chunk\': \'int64(1)\', \'chunk_offsets\': "dict{int:0: '
                        "dict{str:'offset': int:60, str:'size': int:-40}, int:1: dict{str:'offset': int:140, "
                        'str:\'size\': int:-40}}", \'chunks\': \'tuple(int64(1), int:20)\', \'ndim\': '
                        '\'int:2\', \'repr\': "Array(url=\'image-file\', shape=(2, 20), dtype=\'uint16\', '
                        'records_per_chunk=np.int64(1))", \'fields\': "list(str:\'fs\', str:\'url\', '
                        "str:'byte_ranges', str:'shape', str:'dtype', str:'type_code', "
                        'str:\'records_per_chunk\', str:\'chunk_offsets\')", \'byte_ranges is\': True}',
 "reversed2 rpc='2'": '{\'records_per_chunk\': \'int64(1)\', \'chunk_offsets\': "dict{int:0: '
                      "dict{str:'offset': int:60, str:'size': int:-40}, int:1: dict{str:'offset': int:140, "
                      'str:\'size\': int:-40}}", \'chunks\': \'tuple(int64(1), int:20)\', \'ndim\': '
                      '\'int:2\', \'repr\': "Array(url=\'image-file\', shape=(2, 20), dtype=\'uint16\', '
                      'records_per_chunk=np.int64(1))", \'fields\': "list(str:\'fs\', str:\'url\', '
                      "str:'byte_ranges', str:'shape', str:'dtype', str:'type_code', "
                      'str:\'records_per_chunk\', str:\'chunk_offsets\')", \'byte_ranges is\': True}',
 "reversed2 rpc='0'": '{\'records_per_chunk\': \'int64(1)\', \'chunk_offsets\': "dict{int:0: '
                      "dict{str:'offset': int:60, str:'size': int:-40}, int:1: dict{str:'offset': int:140, "
                      'str:\'size\': int:-40}}", \'chunks\': \'tuple(int64(1), int:20)\', \'ndim\': '
                      '\'int:2\', \'repr\': "Array(url=\'image-file\', shape=(2, 20), dtype=\'uint16\', '
                      'records_per_chunk=np.int64(1))", \'fields\': "list(str:\'fs\', str:\'url\', '
                      "str:'byte_ranges', str:'shape', str:'dtype', str:'type_code', "
                      'str:\'records_per_chunk\', str:\'chunk_offsets\')", \'byte_ranges is\': True}',
 "reversed2 rpc='-1'": '{\'records_per_chunk\': \'int64(1)\', \'chunk_offsets\': "dict{int:0: '
                       "dict{str:'offset': int:60, str:'size': int:-40}, int:1: dict{str:'offset': int:140, "
                       'str:\'size\': int:-40}}", \'chunks\': \'tuple(int64(1), int:20)\', \'ndim\': '
                       '\'int:2\', \'repr\': "Array(url=\'image-file\', shape=(2, 20), dtype=\'uint16\', '
                       'records_per_chunk=np.int64(1))", \'fields\': "list(str:\'fs\', str:\'url\', '
                       "str:'byte_ranges', str:'shape', str:'dtype', str:'type_code', "
                       'str:\'records_per_chunk\', str:\'chunk_offsets\')", \'byte_ranges is\': True}',
 "reversed2 rpc='-80B'": '{\'records_per_chunk\': \'int64(2)\', \'chunk_offsets\': "dict{int:0: '
                         'dict{str:\'offset\': int:60, str:\'size\': int:40}}", \'chunks\': '
                         "'tuple(int64(2), int:20)', 'ndim': 'int:2', 'repr': "
                         '"Array(url=\'image-file\', shape=(2, 20), dtype=\'uint16\', '
                         'records_per_chunk=np.int64(2))", \'fields\': "list(str:\'fs\', str:\'url\', '
                         "str:'byte_ranges', str:'shape', str:'dtype', str:'type_code', "
                         'str:\'records_per_chunk\', str:\'chunk_offsets\')", \'byte_ranges is\': True}',
 "reversed2 rpc='5GB'": '{\'records_per_chunk\': \'int64(1)\', \'chunk_offsets\': "dict{int:0: '
                        "dict{str:'offset': int:60, str:'size': int:-40}, int:1: dict{str:'offset': int:140, "
                        'str:\'size\': int:-40}}", \'chunks\': \'tuple(int64(1), int:20)\', \'ndim\': '
                        '\'int:2\', \'repr\': "Array(url=\'image-file\', shape=(2, 20), dtype=\'uint16\', '
                        'records_per_chunk=np.int64(1))", \'fields\': "list(str:\'fs\', str:\'url\', '
                        "str:'byte_ranges', str:'shape', str:'dtype', str:'type_code', "
                        'str:\'records_per_chunk\', str:\'chunk_offsets\')", \'byte_ranges is\': True}',
 "reversed2 rpc='MB'": '{\'records_per_chunk\': \'int64(1)\', \'chunk_offsets\': "dict{int:0: '
                       "dict{str:'offset': int:60, str:'size': int:-40}, int:1: dict{str:'offset': int:140, "
                       'str:\'size\': int:-40}}", \'chunks\': \'tuple(int64(1), int:20)\', \'ndim\': '
                       '\'int:2\', \'repr\': "Array(url=\'image-file\', shape=(2, 20), dtype=\'uint16\', '
                       'records_per_chunk=np.int64(1))", \'fields\': "list(str:\'fs\', str:\'url\', '
                       "str:'byte_ranges', str:'shape', str:'dtype', str:'type_code', "
                       'str:\'records_per_chunk\', str:\'chunk_offsets\')", \'byte_ranges is\': True}',
 "reversed2 rpc=''": '{\'records_per_chunk\': \'int64(1)\', \'chunk_offsets\': "dict{int:0: '
                     "dict{str:'offset': int:60, str:'size': int:-40}, int:1: dict{str:'offset': int:140, "
                     'str:\'size\': int:-40}}", \'chunks\': \'tuple(int64(1), int:20)\', \'ndim\': '
                     '\'int:2\', \'repr\': "Array(url=\'image-file\', shape=(2, 20), dtype=\'uint16\', '
                     'records_per_chunk=np.int64(1))", \'fields\': "list(str:\'fs\', str:\'url\', '
                     "str:'byte_ranges', str:'shape', str:'dtype', str:'type_code', str:'records_per_chunk', "
                     'str:\'chunk_offsets\')", \'byte_ranges is\': True}',
 "reversed2 rpc='B'": '{\'records_per_chunk\': \'int64(1)\', \'chunk_offsets\': "dict{int:0: '
                      "dict{str:'offset': int:60, str:'size': int:-40}, int:1: dict{str:'offset': int:140, "
                      'str:\'size\': int:-40}}", \'chunks\': \'tuple(int64(1), int:20)\', \'ndim\': '
                      '\'int:2\', \'repr\': "Array(url=\'image-file\', shape=(2, 20), dtype=\'uint16\', '
                      'records_per_chunk=np.int64(1))", \'fields\': "list(str:\'fs\', str:\'url\', '
                      "str:'byte_ranges', str:'shape', str:'dtype', str:'type_code', "
                      'str:\'records_per_chunk\', str:\'chunk_offsets\')", \'byte_ranges is\': True}',
 "reversed2 rpc='5 foos'": "raise builtins.ValueError: Could not interpret 'foos' as a byte unit",
 "reversed2 rpc='abc'": "raise builtins.ValueError: Could not interpret 'abc' as a byte unit",
 "reversed2 rpc='1.2.3B'": "raise builtins.ValueError: Could not interpret '1.2.3' as a number",
 "reversed2 rpc=Text('80B')": '{\'records_per_chunk\': \'int64(1)\', \'chunk_offsets\': "dict{int:0: '
                              "dict{str:'offset': int:60, str:'size': int:-40}, int:1: dict{str:'offset': "
                              'int:140, str:\'size\': int:-40}}", \'chunks\': \'tuple(int64(1), int:20)\', '
                              '\'ndim\': \'int:2\', \'repr\': "Array(url=\'image-file\', shape=(2, 20), '
                              'dtype=\'uint16\', records_per_chunk=np.int64(1))", \'fields\': '
                              '"list(str:\'fs\', str:\'url\', str:\'byte_ranges\', str:\'shape\', '
                              "str:'dtype', str:'type_code', str:'records_per_chunk', "
                              'str:\'chunk_offsets\')", \'byte_ranges is\': True}',
 "reversed2 rpc=b'auto'": "raise builtins.TypeError: '>' not supported between instances of 'bytes' and "
                          "'int'",
 "reversed2 rpc=b'80B'": "raise builtins.TypeError: '>' not supported between instances of 'bytes' and 'int'",
 'reversed2 rpc=[2]': "raise builtins.TypeError: '>' not supported between instances of 'list' and 'int'",
 'reversed2 rpc=(2,)': "raise builtins.TypeError: '>' not supported between instances of 'tuple' and 'int'",
 'reversed2 rpc={}': "raise builtins.TypeError: '>' not supported between instances of 'dict' and 'int'",
 'reversed2 rpc=2j': "raise builtins.TypeError: '>' not supported between instances of 'complex' and 'int'",
 'reversed2 rpc=object': "raise builtins.TypeError: '>' not supported between instances of 'type' and 'int'",
 'reversed2 rpc not given': '{\'records_per_chunk\': \'int:1024\', \'chunk_offsets\': "dict{int:0: '
                            'dict{str:\'offset\': int:60, str:\'size\': int:40}}", \'chunks\': '
                            "'tuple(int:1024, int:20)', 'ndim': 'int:2', 'repr': "
                            '"Array(url=\'image-file\', shape=(2, 20), dtype=\'uint16\', '
                            'records_per_chunk=1024)", \'fields\': "list(str:\'fs\', str:\'url\', '
                            "str:'byte_ranges', str:'shape', str:'dtype', str:'type_code', "
                            'str:\'records_per_chunk\', str:\'chunk_offsets\')", \'byte_ranges is\': True}',
 'empty-rows rpc=None': '{\'records_per_chunk\': \'int:1024\', \'chunk_offsets\': "dict{int:0: '
                        'dict{str:\'offset\': int:20, str:\'size\': int:40}}", \'chunks\': \'tuple(int:1024, '
                        'int:20)\', \'ndim\': \'int:2\', \'repr\': "Array(url=\'image-file\', shape=(3, 20), '
                        'dtype=\'uint16\', records_per_chunk=1024)", \'fields\': "list(str:\'fs\', '
                        "str:'url', str:'byte_ranges', str:'shape', str:'dtype', str:'type_code', "
                        'str:\'records_per_chunk\', str:\'chunk_offsets\')", \'byte_ranges is\': True}',
 'empty-rows rpc=1': '{\'records_per_chunk\': \'int:1\', \'chunk_offsets\': "dict{int:0: '
                     "dict{str:'offset': int:20, str:'size': int:0}, int:1: dict{str:'offset': int:40, "
                     'str:\'size\': int:0}, int:2: dict{str:\'offset\': int:60, str:\'size\': int:0}}", '
                     "'chunks': 'tuple(int:1, int:20)', 'ndim': 'int:2', 'repr': "
                     '"Array(url=\'image-file\', shape=(3, 20), dtype=\'uint16\', records_per_chunk=1)", '
                     '\'fields\': "list(str:\'fs\', str:\'url\', str:\'byte_ranges\', str:\'shape\', '
                     'str:\'dtype\', str:\'type_code\', str:\'records_per_chunk\', str:\'chunk_offsets\')", '
                     "'byte_ranges is': True}",
 'empty-rows rpc=2': '{\'records_per_chunk\': \'int:2\', \'chunk_offsets\': "dict{int:0: '
                     "dict{str:'offset': int:20, str:'size': int:20}, int:1: dict{str:'offset': int:60, "
                     'str:\'size\': int:0}}", \'chunks\': \'tuple(int:2, int:20)\', \'ndim\': \'int:2\', '
                     '\'repr\': "Array(url=\'image-file\', shape=(3, 20), dtype=\'uint16\', '
                     'records_per_chunk=2)", \'fields\': "list(str:\'fs\', str:\'url\', str:\'byte_ranges\', '
                     "str:'shape', str:'dtype', str:'type_code', str:'records_per_chunk', "
                     'str:\'chunk_offsets\')", \'byte_ranges is\': True}',
 'empty-rows rpc=3': '{\'records_per_chunk\': \'int:3\', \'chunk_offsets\': "dict{int:0: '
                     'dict{str:\'offset\': int:20, str:\'size\': int:40}}", \'chunks\': \'tuple(int:3, '
                     'int:20)\', \'ndim\': \'int:2\', \'repr\': "Array(url=\'image-file\', shape=(3, 20), '
                     'dtype=\'uint16\', records_per_chunk=3)", \'fields\': "list(str:\'fs\', str:\'url\', '
                     "str:'byte_ranges', str:'shape', str:'dtype', str:'type_code', str:'records_per_chunk', "
                     'str:\'chunk_offsets\')", \'byte_ranges is\': True}',
 'empty-rows rpc=4': '{\'records_per_chunk\': \'int:3\', \'chunk_offsets\': "dict{int:0: '
                     'dict{str:\'offset\': int:20, str:\'size\': int:40}}", \'chunks\': \'tuple(int:3, '
                     'int:20)\', \'ndim\': \'int:2\', \'repr\': "Array(url=\'image-file\', shape=(3, 20), '
                     'dtype=\'uint16\', records_per_chunk=3)", \'fields\': "list(str:\'fs\', str:\'url\', '
                     "str:'byte_ranges', str:'shape', str:'dtype', str:'type_code', str:'records_per_chunk', "
                     'str:\'chunk_offsets\')", \'byte_ranges is\': True}',
 'empty-rows rpc=5': '{\'records_per_chunk\': \'int:3\', \'chunk_offsets\': "dict{int:0: '
                     'dict{str:\'offset\': int:20, str:\'size\': int:40}}", \'chunks\': \'tuple(int:3, '
                     'int:20)\', \'ndim\': \'int:2\', \'repr\': "Array(url=\'image-file\', shape=(3, 20), '
                     'dtype=\'uint16\', records_per_chunk=3)", \'fields\': "list(str:\'fs\', str:\'url\', '
                     "str:'byte_ranges', str:'shape', str:'dtype', str:'type_code', str:'records_per_chunk', "
                     'str:\'chunk_offsets\')", \'byte_ranges is\': True}',
 'empty-rows rpc=6': '{\'records_per_chunk\': \'int:3\', \'chunk_offsets\': "dict{int:0: '
                     'dict{str:\'offset\': int:20, str:\'size\': int:40}}", \'chunks\': \'tuple(int:3, '
                     'int:20)\', \'ndim\': \'int:2\', \'repr\': "Array(url=\'image-file\', shape=(3, 20), '
                     'dtype=\'uint16\', records_per_chunk=3)", \'fields\': "list(str:\'fs\', str:\'url\', '
                     "str:'byte_ranges', str:'shape', str:'dtype', str:'type_code', str:'records_per_chunk', "
                     'str:\'chunk_offsets\')", \'byte_ranges is\': True}',
 'empty-rows rpc=1024': '{\'records_per_chunk\': \'int:3\', \'chunk_offsets\': "dict{int:0: '
                        'dict{str:\'offset\': int:20, str:\'size\': int:40}}", \'chunks\': \'tuple(int:3, '
                        'int:20)\', \'ndim\': \'int:2\', \'repr\': "Array(url=\'image-file\', shape=(3, 20), '
                        'dtype=\'uint16\', records_per_chunk=3)", \'fields\': "list(str:\'fs\', str:\'url\', '
                        "str:'byte_ranges', str:'shape', str:'dtype', str:'type_code', "
                        'str:\'records_per_chunk\', str:\'chunk_offsets\')", \'byte_ranges is\': True}',
 'empty-rows rpc=-1': '{\'records_per_chunk\': \'int:3\', \'chunk_offsets\': "dict{int:0: '
                      'dict{str:\'offset\': int:20, str:\'size\': int:40}}", \'chunks\': \'tuple(int:3, '
                      'int:20)\', \'ndim\': \'int:2\', \'repr\': "Array(url=\'image-file\', shape=(3, 20), '
                      'dtype=\'uint16\', records_per_chunk=3)", \'fields\': "list(str:\'fs\', str:\'url\', '
                      "str:'byte_ranges', str:'shape', str:'dtype', str:'type_code', "
                      'str:\'records_per_chunk\', str:\'chunk_offsets\')", \'byte_ranges is\': True}',
 'empty-rows rpc=True': '{\'records_per_chunk\': \'bool:True\', \'chunk_offsets\': "dict{int:0: '
                        "dict{str:'offset': int:20, str:'size': int:0}, int:1: dict{str:'offset': int:40, "
                        'str:\'size\': int:0}, int:2: dict{str:\'offset\': int:60, str:\'size\': int:0}}", '
                        "'chunks': 'tuple(bool:True, int:20)', 'ndim': 'int:2', 'repr': "
                        '"Array(url=\'image-file\', shape=(3, 20), dtype=\'uint16\', '
                        'records_per_chunk=True)", \'fields\': "list(str:\'fs\', str:\'url\', '
                        "str:'byte_ranges', str:'shape', str:'dtype', str:'type_code', "
                        'str:\'records_per_chunk\', str:\'chunk_offsets\')", \'byte_ranges is\': True}',
 'empty-rows rpc=np.int64(2)': '{\'records_per_chunk\': \'int64(2)\', \'chunk_offsets\': "dict{int:0: '
                               "dict{str:'offset': int:20, str:'size': int:20}, int:1: dict{str:'offset': "
                               'int:60, str:\'size\': int:0}}", \'chunks\': \'tuple(int64(2), int:20)\', '
                               '\'ndim\': \'int:2\', \'repr\': "Array(url=\'image-file\', shape=(3, 20), '
                               'dtype=\'uint16\', records_per_chunk=np.int64(2))", \'fields\': '
                               '"list(str:\'fs\', str:\'url\', str:\'byte_ranges\', str:\'shape\', '
                               "str:'dtype', str:'type_code', str:'records_per_chunk', "
                               'str:\'chunk_offsets\')", \'byte_ranges is\': True}',
 'empty-rows rpc=np.int64(-1)': '{\'records_per_chunk\': \'int:3\', \'chunk_offsets\': "dict{int:0: '
                                'dict{str:\'offset\': int:20, str:\'size\': int:40}}", \'chunks\': '
                                "'tuple(int:3, int:20)', 'ndim': 'int:2', 'repr': "
                                '"Array(url=\'image-file\', shape=(3, 20), dtype=\'uint16\', '
                                'records_per_chunk=3)", \'fields\': "list(str:\'fs\', str:\'url\', '
                                "str:'byte_ranges', str:'shape', str:'dtype', str:'type_code', "
                                'str:\'records_per_chunk\', str:\'chunk_offsets\')", \'byte_ranges is\': '
                                'True}',
 'empty-rows rpc=np.uint8(9)': '{\'records_per_chunk\': \'int:3\', \'chunk_offsets\': "dict{int:0: '
                               'dict{str:\'offset\': int:20, str:\'size\': int:40}}", \'chunks\': '
                               "'tuple(int:3, int:20)', 'ndim': 'int:2', 'repr': "
                               '"Array(url=\'image-file\', shape=(3, 20), dtype=\'uint16\', '
                               'records_per_chunk=3)", \'fields\': "list(str:\'fs\', str:\'url\', '
                               "str:'byte_ranges', str:'shape', str:'dtype', str:'type_code', "
                               'str:\'records_per_chunk\', str:\'chunk_offsets\')", \'byte_ranges is\': '
                               'True}',
 'empty-rows rpc=IntLike(2)': "raise builtins.TypeError: unsupported operand type(s) for +: 'int' and "
                              "'IntLike'",
 'empty-rows rpc=IntLike(-1)': '{\'records_per_chunk\': \'int:3\', \'chunk_offsets\': "dict{int:0: '
                               'dict{str:\'offset\': int:20, str:\'size\': int:40}}", \'chunks\': '
                               "'tuple(int:3, int:20)', 'ndim': 'int:2', 'repr': "
                               '"Array(url=\'image-file\', shape=(3, 20), dtype=\'uint16\', '
                               'records_per_chunk=3)", \'fields\': "list(str:\'fs\', str:\'url\', '
                               "str:'byte_ranges', str:'shape', str:'dtype', str:'type_code', "
                               'str:\'records_per_chunk\', str:\'chunk_offsets\')", \'byte_ranges is\': '
                               'True}',
 'empty-rows rpc=IntLike(99)': '{\'records_per_chunk\': \'int:3\', \'chunk_offsets\': "dict{int:0: '
                               'dict{str:\'offset\': int:20, str:\'size\': int:40}}", \'chunks\': '
                               "'tuple(int:3, int:20)', 'ndim': 'int:2', 'repr': "
                               '"Array(url=\'image-file\', shape=(3, 20), dtype=\'uint16\', '
                               'records_per_chunk=3)", \'fields\': "list(str:\'fs\', str:\'url\', '
                               "str:'byte_ranges', str:'shape', str:'dtype', str:'type_code', "
                               'str:\'records_per_chunk\', str:\'chunk_offsets\')", \'byte_ranges is\': '
                               'True}',
 'empty-rows rpc=Fraction(2)': "raise builtins.TypeError: can't multiply sequence by non-int of type "
                               "'Fraction'",
 'empty-rows rpc=2.0': "raise builtins.TypeError: can't multiply sequence by non-int of type 'float'",
 'empty-rows rpc=nan': "raise builtins.TypeError: can't multiply sequence by non-int of type 'float'",
 'empty-rows rpc=inf': '{\'records_per_chunk\': \'int:3\', \'chunk_offsets\': "dict{int:0: '
                       'dict{str:\'offset\': int:20, str:\'size\': int:40}}", \'chunks\': \'tuple(int:3, '
                       'int:20)\', \'ndim\': \'int:2\', \'repr\': "Array(url=\'image-file\', shape=(3, 20), '
                       'dtype=\'uint16\', records_per_chunk=3)", \'fields\': "list(str:\'fs\', str:\'url\', '
                       "str:'byte_ranges', str:'shape', str:'dtype', str:'type_code', "
                       'str:\'records_per_chunk\', str:\'chunk_offsets\')", \'byte_ranges is\': True}',
 "empty-rows rpc='auto'": '{\'records_per_chunk\': \'int64(1)\', \'chunk_offsets\': "dict{int:0: '
                          "dict{str:'offset': int:20, str:'size': int:0}, int:1: dict{str:'offset': int:40, "
                          'str:\'size\': int:0}, int:2: dict{str:\'offset\': int:60, str:\'size\': int:0}}", '
                          "'chunks': 'tuple(int64(1), int:20)', 'ndim': 'int:2', 'repr': "
                          '"Array(url=\'image-file\', shape=(3, 20), dtype=\'uint16\', '
                          'records_per_chunk=np.int64(1))", \'fields\': "list(str:\'fs\', str:\'url\', '
                          "str:'byte_ranges', str:'shape', str:'dtype', str:'type_code', "
                          'str:\'records_per_chunk\', str:\'chunk_offsets\')", \'byte_ranges is\': True}',
 "empty-rows rpc=Text('auto')": '{\'records_per_chunk\': \'int64(1)\', \'chunk_offsets\': "dict{int:0: '
                                "dict{str:'offset': int:20, str:'size': int:0}, int:1: dict{str:'offset': "
                                "int:40, str:'size': int:0}, int:2: dict{str:'offset': int:60, str:'size': "
                                'int:0}}", \'chunks\': \'tuple(int64(1), int:20)\', \'ndim\': \'int:2\', '
                                '\'repr\': "Array(url=\'image-file\', shape=(3, 20), dtype=\'uint16\', '
                                'records_per_chunk=np.int64(1))", \'fields\': "list(str:\'fs\', str:\'url\', '
                                "str:'byte_ranges', str:'shape', str:'dtype', str:'type_code', "
                                'str:\'records_per_chunk\', str:\'chunk_offsets\')", \'byte_ranges is\': '
                                'True}',
 "empty-rows rpc='AUTO'": "raise builtins.ValueError: Could not interpret 'AUTO' as a byte unit",
 "empty-rows rpc=' auto'": "raise builtins.ValueError: Could not interpret 'auto' as a byte unit",
 "empty-rows rpc='1B'": '{\'records_per_chunk\': \'int64(1)\', \'chunk_offsets\': "dict{int:0: '
                        "dict{str:'offset': int:20, str:'size': int:0}, int:1: dict{str:'offset': int:40, "
                        'str:\'size\': int:0}, int:2: dict{str:\'offset\': int:60, str:\'size\': int:0}}", '
                        "'chunks': 'tuple(int64(1), int:20)', 'ndim': 'int:2', 'repr': "
                        '"Array(url=\'image-file\', shape=(3, 20), dtype=\'uint16\', '
                        'records_per_chunk=np.int64(1))", \'fields\': "list(str:\'fs\', str:\'url\', '
                        "str:'byte_ranges', str:'shape', str:'dtype', str:'type_code', "
                        'str:\'records_per_chunk\', str:\'chunk_offsets\')", \'byte_ranges is\': True}',
 "empty-rows rpc='39B'": '{\'records_per_chunk\': \'int64(1)\', \'chunk_offsets\': "dict{int:0: '
                         "dict{str:'offset': int:20, str:'size': int:0}, int:1: dict{str:'offset': int:40, "
                         'str:\'size\': int:0}, int:2: dict{str:\'offset\': int:60, str:\'size\': int:0}}", '
                         "'chunks': 'tuple(int64(1), int:20)', 'ndim': 'int:2', 'repr': "
                         '"Array(url=\'image-file\', shape=(3, 20), dtype=\'uint16\', '
                         'records_per_chunk=np.int64(1))", \'fields\': "list(str:\'fs\', str:\'url\', '
                         "str:'byte_ranges', str:'shape', str:'dtype', str:'type_code', "
                         'str:\'records_per_chunk\', str:\'chunk_offsets\')", \'byte_ranges is\': True}',
 "empty-rows rpc='40B'": '{\'records_per_chunk\': \'int64(1)\', \'chunk_offsets\': "dict{int:0: '
                         "dict{str:'offset': int:20, str:'size': int:0}, int:1: dict{str:'offset': int:40, "
                         'str:\'size\': int:0}, int:2: dict{str:\'offset\': int:60, str:\'size\': int:0}}", '
                         "'chunks': 'tuple(int64(1), int:20)', 'ndim': 'int:2', 'repr': "
                         '"Array(url=\'image-file\', shape=(3, 20), dtype=\'uint16\', '
                         'records_per_chunk=np.int64(1))", \'fields\': "list(str:\'fs\', str:\'url\', '
                         "str:'byte_ranges', str:'shape', str:'dtype', str:'type_code', "
                         'str:\'records_per_chunk\', str:\'chunk_offsets\')", \'byte_ranges is\': True}',
 "empty-rows rpc='60B'": '{\'records_per_chunk\': \'int64(1)\', \'chunk_offsets\': "dict{int:0: '
                         "dict{str:'offset': int:20, str:'size': int:0}, int:1: dict{str:'offset': int:40, "
                         'str:\'size\': int:0}, int:2: dict{str:\'offset\': int:60, str:\'size\': int:0}}", '
                         "'chunks': 'tuple(int64(1), int:20)', 'ndim': 'int:2', 'repr': "
                         '"Array(url=\'image-file\', shape=(3, 20), dtype=\'uint16\', '
                         'records_per_chunk=np.int64(1))", \'fields\': "list(str:\'fs\', str:\'url\', '
                         "str:'byte_ranges', str:'shape', str:'dtype', str:'type_code', "
                         'str:\'records_per_chunk\', str:\'chunk_offsets\')", \'byte_ranges is\': True}',
 "empty-rows rpc='61B'": '{\'records_per_chunk\': \'int64(1)\', \'chunk_offsets\': "dict{int:0: '
                         "dict{str:'offset': int:20, str:'size': int:0}, int:1: dict{str:'offset': int:40, "
                         'str:\'size\': int:0}, int:2: dict{str:\'offset\': int:60, str:\'size\': int:0}}", '
                         "'chunks': 'tuple(int64(1), int:20)', 'ndim': 'int:2', 'repr': "
                         '"Array(url=\'image-file\', shape=(3, 20), dtype=\'uint16\', '
                         'records_per_chunk=np.int64(1))", \'fields\': "list(str:\'fs\', str:\'url\', '
                         "str:'byte_ranges', str:'shape', str:'dtype', str:'type_code', "
                         'str:\'records_per_chunk\', str:\'chunk_offsets\')", \'byte_ranges is\': True}',
 "empty-rows rpc='80B'": '{\'records_per_chunk\': \'int64(1)\', \'chunk_offsets\': "dict{int:0: '
                         "dict{str:'offset': int:20, str:'size': int:0}, int:1: dict{str:'offset': int:40, "
                         'str:\'size\': int:0}, int:2: dict{str:\'offset\': int:60, str:\'size\': int:0}}", '
                         "'chunks': 'tuple(int64(1), int:20)', 'ndim': 'int:2', 'repr': "
                         '"Array(url=\'image-file\', shape=(3, 20), dtype=\'uint16\', '
                         'records_per_chunk=np.int64(1))", \'fields\': "list(str:\'fs\', str:\'url\', '
                         "str:'byte_ranges', str:'shape', str:'dtype', str:'type_code', "
                         'str:\'records_per_chunk\', str:\'chunk_offsets\')", \'byte_ranges is\': True}',
 "empty-rows rpc='100 B'": '{\'records_per_chunk\': \'int64(1)\', \'chunk_offsets\': "dict{int:0: '
                           "dict{str:'offset': int:20, str:'size': int:0}, int:1: dict{str:'offset': int:40, "
                           "str:'size': int:0}, int:2: dict{str:'offset': int:60, str:'size': "
                           'int:0}}", \'chunks\': \'tuple(int64(1), int:20)\', \'ndim\': \'int:2\', '
                           '\'repr\': "Array(url=\'image-file\', shape=(3, 20), dtype=\'uint16\', '
                           'records_per_chunk=np.int64(1))", \'fields\': "list(str:\'fs\', str:\'url\', '
                           "str:'byte_ranges', str:'shape', str:'dtype', str:'type_code', "
                           'str:\'records_per_chunk\', str:\'chunk_offsets\')", \'byte_ranges is\': True}',
 "empty-rows rpc='0.1kB'": '{\'records_per_chunk\': \'int64(1)\', \'chunk_offsets\': "dict{int:0: '
                           "dict{str:'offset': int:20, str:'size': int:0}, int:1: dict{str:'offset': int:40, "
                           "str:'size': int:0}, int:2: dict{str:'offset': int:60, str:'size': "
                           'int:0}}", \'chunks\': \'tuple(int64(1), int:20)\', \'ndim\': \'int:2\', '
                           '\'repr\': "Array(url=\'image-file\', shape=(3, 20), dtype=\'uint16\', '
                           'records_per_chunk=np.int64(1))", \'fields\': "list(str:\'fs\', str:\'url\', '
                           "str:'byte_ranges', str:'shape', str:'dtype', str:'type_code', "
                           'str:\'records_per_chunk\', str:\'chunk_offsets\')", \'byte_ranges is\': True}',
 "empty-rows rpc='1kB'": '{\'records_per_chunk\': \'int64(1)\', \'chunk_offsets\': "dict{int:0: '
                         "dict{str:'offset': int:20, str:'size': int:0}, int:1: dict{str:'offset': int:40, "
                         'str:\'size\': int:0}, int:2: dict{str:\'offset\': int:60, str:\'size\': int:0}}", '
                         "'chunks': 'tuple(int64(1), int:20)', 'ndim': 'int:2', 'repr': "
                         '"Array(url=\'image-file\', shape=(3, 20), dtype=\'uint16\', '
                         'records_per_chunk=np.int64(1))", \'fields\': "list(str:\'fs\', str:\'url\', '
                         "str:'byte_ranges', str:'shape', str:'dtype', str:'type_code', "
                         'str:\'records_per_chunk\', str:\'chunk_offsets\')", \'byte_ranges is\': True}',
 "empty-rows rpc='1KiB'": '{\'records_per_chunk\': \'int64(1)\', \'chunk_offsets\': "dict{int:0: '
                          "dict{str:'offset': int:20, str:'size': int:0}, int:1: dict{str:'offset': int:40, "
                          'str:\'size\': int:0}, int:2: dict{str:\'offset\': int:60, str:\'size\': int:0}}", '
                          "'chunks': 'tuple(int64(1), int:20)', 'ndim': 'int:2', 'repr': "
                          '"Array(url=\'image-file\', shape=(3, 20), dtype=\'uint16\', '
                          'records_per_chunk=np.int64(1))", \'fields\': "list(str:\'fs\', str:\'url\', '
                          "str:'byte_ranges', str:'shape', str:'dtype', str:'type_code', "
                          'str:\'records_per_chunk\', str:\'chunk_offsets\')", \'byte_ranges is\': True}',
 "empty-rows rpc='1e2'": '{\'records_per_chunk\': \'int64(1)\', \'chunk_offsets\': "dict{int:0: '
                         "dict{str:'offset': int:20, str:'size': int:0}, int:1: dict{str:'offset': int:40, "
                         'str:\'size\': int:0}, int:2: dict{str:\'offset\': int:60, str:\'size\': int:0}}", '
                         "'chunks': 'tuple(int64(1), int:20)', 'ndim': 'int:2', 'repr': "
                         '"Array(url=\'image-file\', shape=(3, 20), dtype=\'uint16\', '
                         'records_per_chunk=np.int64(1))", \'fields\': "list(str:\'fs\', str:\'url\', '
                         "str:'byte_ranges', str:'shape', str:'dtype', str:'type_code', "
                         'str:\'records_per_chunk\', str:\'chunk_offsets\')", \'byte_ranges is\': True}',
 "empty-rows rpc='120'": '{\'records_per_chunk\': \'int64(1)\', \'chunk_offsets\': "dict{int:0: '
                         "dict{str:'offset': int:20, str:'size': int:0}, int:1: dict{str:'offset': int:40, "
                         'str:\'size\': int:0}, int:2: dict{str:\'offset\': int:60, str:\'size\': int:0}}", '
                         "'chunks': 'tuple(int64(1), int:20)', 'ndim': 'int:2', 'repr': "
                         '"Array(url=\'image-file\', shape=(3, 20), dtype=\'uint16\', '
                         'records_per_chunk=np.int64(1))", \'fields\': "list(str:\'fs\', str:\'url\', '
                         "str:'byte_ranges', str:'shape', str:'dtype', str:'type_code', "
                         'str:\'records_per_chunk\', str:\'chunk_offsets\')", \'byte_ranges is\': True}',
 "empty-rows rpc='2'": '{\'records_per_chunk\': \'int64(1)\', \'chunk_offsets\': "dict{int:0: '
                       "dict{str:'offset': int:20, str:'size': int:0}, int:1: dict{str:'offset': int:40, "
                       'str:\'size\': int:0}, int:2: dict{str:\'offset\': int:60, str:\'size\': int:0}}", '
                       "'chunks': 'tuple(int64(1), int:20)', 'ndim': 'int:2', 'repr': "
                       '"Array(url=\'image-file\', shape=(3, 20), dtype=\'uint16\', '
                       'records_per_chunk=np.int64(1))", \'fields\': "list(str:\'fs\', str:\'url\', '
                       "str:'byte_ranges', str:'shape', str:'dtype', str:'type_code', "
                       'str:\'records_per_chunk\', str:\'chunk_offsets\')", \'byte_ranges is\': True}',
 "empty-rows rpc='0'": '{\'records_per_chunk\': \'int64(1)\', \'chunk_offsets\': "dict{int:0: '
                       "dict{str:'offset': int:20, str:'size': int:0}, int:1: dict{str:'offset': int:40, "
                       'str:\'size\': int:0}, int:2: dict{str:\'offset\': int:60, str:\'size\': int:0}}", '
                       "'chunks': 'tuple(int64(1), int:20)', 'ndim': 'int:2', 'repr': "
                       '"Array(url=\'image-file\', shape=(3, 20), dtype=\'uint16\', '
                       'records_per_chunk=np.int64(1))", \'fields\': "list(str:\'fs\', str:\'url\', '
                       "str:'byte_ranges', str:'shape', str:'dtype', str:'type_code', "
                       'str:\'records_per_chunk\', str:\'chunk_offsets\')", \'byte_ranges is\': True}',
 "empty-rows rpc='-1'": '{\'records_per_chunk\': \'int64(1)\', \'chunk_offsets\': "dict{int:0: '
                        "dict{str:'offset': int:20, str:'size': int:0}, int:1: dict{str:'offset': int:40, "
                        'str:\'size\': int:0}, int:2: dict{str:\'offset\': int:60, str:\'size\': int:0}}", '
                        "'chunks': 'tuple(int64(1), int:20)', 'ndim': 'int:2', 'repr': "
                        '"Array(url=\'image-file\', shape=(3, 20), dtype=\'uint16\', '
                        'records_per_chunk=np.int64(1))", \'fields\': "list(str:\'fs\', str:\'url\', '
                        "str:'byte_ranges', str:'shape', str:'dtype', str:'type_code', "
                        'str:\'records_per_chunk\', str:\'chunk_offsets\')", \'byte_ranges is\': True}',
 "empty-rows rpc='-80B'": '{\'records_per_chunk\': \'int64(1)\', \'chunk_offsets\': "dict{int:0: '
                          "dict{str:'offset': int:20, str:'size': int:0}, int:1: dict{str:'offset': int:40, "
                          'str:\'size\': int:0}, int:2: dict{str:\'offset\': int:60, str:\'size\': int:0}}", '
                          "'chunks': 'tuple(int64(1), int:20)', 'ndim': 'int:2', 'repr': "
                          '"Array(url=\'image-file\', shape=(3, 20), dtype=\'uint16\', '
                          'records_per_chunk=np.int64(1))", \'fields\': "list(str:\'fs\', str:\'url\', '
                          "str:'byte_ranges', str:'shape', str:'dtype', str:'type_code', "
                          'str:\'records_per_chunk\', str:\'chunk_offsets\')", \'byte_ranges is\': True}',
 "empty-rows rpc='5GB'": '{\'records_per_chunk\': \'int64(1)\', \'chunk_offsets\': "dict{int:0: '
                         "dict{str:'offset': int:20, str:'size': int:0}, int:1: dict{str:'offset': int:40, "
                         'str:\'size\': int:0}, int:2: dict{str:\'offset\': int:60, str:\'size\': int:0}}", '
                         "'chunks': 'tuple(int64(1), int:20)', 'ndim': 'int:2', 'repr': "
                         '"Array(url=\'image-file\', shape=(3, 20), dtype=\'uint16\', '
                         'records_per_chunk=np.int64(1))", \'fields\': "list(str:\'fs\', str:\'url\', '
                         "str:'byte_ranges', str:'shape', str:'dtype', str:'type_code', "
                         'str:\'records_per_chunk\', str:\'chunk_offsets\')", \'byte_ranges is\': True}',
 "empty-rows rpc='MB'": '{\'records_per_chunk\': \'int64(1)\', \'chunk_offsets\': "dict{int:0: '
                        "dict{str:'offset': int:20, str:'size': int:0}, int:1: dict{str:'offset': int:40, "
                        'str:\'size\': int:0}, int:2: dict{str:\'offset\': int:60, str:\'size\': int:0}}", '
                        "'chunks': 'tuple(int64(1), int:20)', 'ndim': 'int:2', 'repr': "
                        '"Array(url=\'image-file\', shape=(3, 20), dtype=\'uint16\', '
                        'records_per_chunk=np.int64(1))", \'fields\': "list(str:\'fs\', str:\'url\', '
                        "str:'byte_ranges', str:'shape', str:'dtype', str:'type_code', "
                        'str:\'records_per_chunk\', str:\'chunk_offsets\')", \'byte_ranges is\': True}',
 "empty-rows rpc=''": '{\'records_per_chunk\': \'int64(1)\', \'chunk_offsets\': "dict{int:0: '
                      "dict{str:'offset': int:20, str:'size': int:0}, int:1: dict{str:'offset': int:40, "
                      'str:\'size\': int:0}, int:2: dict{str:\'offset\': int:60, str:\'size\': int:0}}", '
                      "'chunks': 'tuple(int64(1), int:20)', 'ndim': 'int:2', 'repr': "
                      '"Array(url=\'image-file\', shape=(3, 20), dtype=\'uint16\', '
                      'records_per_chunk=np.int64(1))", \'fields\': "list(str:\'fs\', str:\'url\', '
                      "str:'byte_ranges', str:'shape', str:'dtype', str:'type_code', "
                      'str:\'records_per_chunk\', str:\'chunk_offsets\')", \'byte_ranges is\': True}',
 "empty-rows rpc='B'": '{\'records_per_chunk\': \'int64(1)\', \'chunk_offsets\': "dict{int:0: '
                       "dict{str:'offset': int:20, str:'size': int:0}, int:1: dict{str:'offset': int:40, "
                       'str:\'size\': int:0}, int:2: dict{str:\'offset\': int:60, str:\'size\': int:0}}", '
                       "'chunks': 'tuple(int64(1), int:20)', 'ndim': 'int:2', 'repr': "
                       '"Array(url=\'image-file\', shape=(3, 20), dtype=\'uint16\', '
                       'records_per_chunk=np.int64(1))", \'fields\': "list(str:\'fs\', str:\'url\', '
                       "str:'byte_ranges', str:'shape', str:'dtype', str:'type_code', "
                       'str:\'records_per_chunk\', str:\'chunk_offsets\')", \'byte_ranges is\': True}',
 "empty-rows rpc='5 foos'": "raise builtins.ValueError: Could not interpret 'foos' as a byte unit",
 "empty-rows rpc='abc'": "raise builtins.ValueError: Could not interpret 'abc' as a byte unit",
 "empty-rows rpc='1.2.3B'": "raise builtins.ValueError: Could not interpret '1.2.3' as a number",
 "empty-rows rpc=Text('80B')": '{\'records_per_chunk\': \'int64(1)\', \'chunk_offsets\': "dict{int:0: '
                               "dict{str:'offset': int:20, str:'size': int:0}, int:1: dict{str:'offset': "
                               "int:40, str:'size': int:0}, int:2: dict{str:'offset': int:60, str:'size': "
                               'int:0}}", \'chunks\': \'tuple(int64(1), int:20)\', \'ndim\': \'int:2\', '
                               '\'repr\': "Array(url=\'image-file\', shape=(3, 20), dtype=\'uint16\', '
                               'records_per_chunk=np.int64(1))", \'fields\': "list(str:\'fs\', str:\'url\', '
                               "str:'byte_ranges', str:'shape', str:'dtype', str:'type_code', "
                               'str:\'records_per_chunk\', str:\'chunk_offsets\')", \'byte_ranges is\': '
                               'True}',
 "empty-rows rpc=b'auto'": "raise builtins.TypeError: '>' not supported between instances of 'bytes' and "
                           "'int'",
 "empty-rows rpc=b'80B'": "raise builtins.TypeError: '>' not supported between instances of 'bytes' and "
                          "'int'",
 'empty-rows rpc=[2]': "raise builtins.TypeError: '>' not supported between instances of 'list' and 'int'",
 'empty-rows rpc=(2,)': "raise builtins.TypeError: '>' not supported between instances of 'tuple' and 'int'",
 'empty-rows rpc={}': "raise builtins.TypeError: '>' not supported between instances of 'dict' and 'int'",
 'empty-rows rpc=2j': "raise builtins.TypeError: '>' not supported between instances of 'complex' and 'int'",
 'empty-rows rpc=object': "raise builtins.TypeError: '>' not supported between instances of 'type' and 'int'",
 'empty-rows rpc not given': '{\'records_per_chunk\': \'int:1024\', \'chunk_offsets\': "dict{int:0: '
                             'dict{str:\'offset\': int:20, str:\'size\': int:40}}", \'chunks\': '
                             "'tuple(int:1024, int:20)', 'ndim': 'int:2', 'repr': "
                             '"Array(url=\'image-file\', shape=(3, 20), dtype=\'uint16\', '
                             'records_per_chunk=1024)", \'fields\': "list(str:\'fs\', str:\'url\', '
                             "str:'byte_ranges', str:'shape', str:'dtype', str:'type_code', "
                             'str:\'records_per_chunk\', str:\'chunk_offsets\')", \'byte_ranges is\': True}',
 'none rpc=None': "{'records_per_chunk': 'int:1024', 'chunk_offsets': 'dict{}', 'chunks': 'tuple(int:1024, "
                  'int:20)\', \'ndim\': \'int:2\', \'repr\': "Array(url=\'image-file\', shape=(0, 20), '
                  'dtype=\'uint16\', records_per_chunk=1024)", \'fields\': "list(str:\'fs\', str:\'url\', '
                  "str:'byte_ranges', str:'shape', str:'dtype', str:'type_code', str:'records_per_chunk', "
                  'str:\'chunk_offsets\')", \'byte_ranges is\': True}',
 'none rpc=1': "{'records_per_chunk': 'int:0', 'chunk_offsets': 'dict{}', 'chunks': 'tuple(int:0, int:20)', "
               '\'ndim\': \'int:2\', \'repr\': "Array(url=\'image-file\', shape=(0, 20), dtype=\'uint16\', '
               'records_per_chunk=0)", \'fields\': "list(str:\'fs\', str:\'url\', str:\'byte_ranges\', '
               "str:'shape', str:'dtype', str:'type_code', str:'records_per_chunk', "
               'str:\'chunk_offsets\')", \'byte_ranges is\': True}',
 'none rpc=2': "{'records_per_chunk': 'int:0', 'chunk_offsets': 'dict{}', 'chunks': 'tuple(int:0, int:20)', "
               '\'ndim\': \'int:2\', \'repr\': "Array(url=\'image-file\', shape=(0, 20), dtype=\'uint16\', '
               'records_per_chunk=0)", \'fields\': "list(str:\'fs\', str:\'url\', str:\'byte_ranges\', '
               "str:'shape', str:'dtype', str:'type_code', str:'records_per_chunk', "
               'str:\'chunk_offsets\')", \'byte_ranges is\': True}',
 'none rpc=3': "{'records_per_chunk': 'int:0', 'chunk_offsets': 'dict{}', 'chunks': 'tuple(int:0, int:20)', "
               '\'ndim\': \'int:2\', \'repr\': "Array(url=\'image-file\', shape=(0, 20), dtype=\'uint16\', '
               'records_per_chunk=0)", \'fields\': "list(str:\'fs\', str:\'url\', str:\'byte_ranges\', '
               "str:'shape', str:'dtype', str:'type_code', str:'records_per_chunk', "
               'str:\'chunk_offsets\')", \'byte_ranges is\': True}',
 'none rpc=4': "{'records_per_chunk': 'int:0', 'chunk_offsets': 'dict{}', 'chunks': 'tuple(int:0, int:20)', "
               '\'ndim\': \'int:2\', \'repr\': "Array(url=\'image-file\', shape=(0, 20), dtype=\'uint16\', '
               'records_per_chunk=0)", \'fields\': "list(str:\'fs\', str:\'url\', str:\'byte_ranges\', '
               "str:'shape', str:'dtype', str:'type_code', str:'records_per_chunk', "
               'str:\'chunk_offsets\')", \'byte_ranges is\': True}',
 'none rpc=5': "{'records_per_chunk': 'int:0', 'chunk_offsets': 'dict{}', 'chunks': 'tuple(int:0, int:20)', "
               '\'ndim\': \'int:2\', \'repr\': "Array(url=\'image-file\', shape=(0, 20), dtype=\'uint16\', '
               'records_per_chunk=0)", \'fields\': "list(str:\'fs\', str:\'url\', str:\'byte_ranges\', '
               "str:'shape', str:'dtype', str:'type_code', str:'records_per_chunk', "
               'str:\'chunk_offsets\')", \'byte_ranges is\': True}',
 'none rpc=6': "{'records_per_chunk': 'int:0', 'chunk_offsets': 'dict{}', 'chunks': 'tuple(int:0, int:20)', "
               '\'ndim\': \'int:2\', \'repr\': "Array(url=\'image-file\', shape=(0, 20), dtype=\'uint16\', '
               'records_per_chunk=0)", \'fields\': "list(str:\'fs\', str:\'url\', str:\'byte_ranges\', '
               "str:'shape', str:'dtype', str:'type_code', str:'records_per_chunk', "
               'str:\'chunk_offsets\')", \'byte_ranges is\': True}',
 'none rpc=1024': "{'records_per_chunk': 'int:0', 'chunk_offsets': 'dict{}', 'chunks': 'tuple(int:0, "
                  'int:20)\', \'ndim\': \'int:2\', \'repr\': "Array(url=\'image-file\', shape=(0, 20), '
                  'dtype=\'uint16\', records_per_chunk=0)", \'fields\': "list(str:\'fs\', str:\'url\', '
                  "str:'byte_ranges', str:'shape', str:'dtype', str:'type_code', str:'records_per_chunk', "
                  'str:\'chunk_offsets\')", \'byte_ranges is\': True}',
 'none rpc=-1': "{'records_per_chunk': 'int:0', 'chunk_offsets': 'dict{}', 'chunks': 'tuple(int:0, int:20)', "
                '\'ndim\': \'int:2\', \'repr\': "Array(url=\'image-file\', shape=(0, 20), dtype=\'uint16\', '
                'records_per_chunk=0)", \'fields\': "list(str:\'fs\', str:\'url\', str:\'byte_ranges\', '
                "str:'shape', str:'dtype', str:'type_code', str:'records_per_chunk', "
                'str:\'chunk_offsets\')", \'byte_ranges is\': True}',
 'none rpc=True': "{'records_per_chunk': 'int:0', 'chunk_offsets': 'dict{}', 'chunks': 'tuple(int:0, "
                  'int:20)\', \'ndim\': \'int:2\', \'repr\': "Array(url=\'image-file\', shape=(0, 20), '
                  'dtype=\'uint16\', records_per_chunk=0)", \'fields\': "list(str:\'fs\', str:\'url\', '
                  "str:'byte_ranges', str:'shape', str:'dtype', str:'type_code', str:'records_per_chunk', "
                  'str:\'chunk_offsets\')", \'byte_ranges is\': True}',
 'none rpc=np.int64(2)': "{'records_per_chunk': 'int:0', 'chunk_offsets': 'dict{}', 'chunks': 'tuple(int:0, "
                         'int:20)\', \'ndim\': \'int:2\', \'repr\': "Array(url=\'image-file\', shape=(0, '
                         '20), dtype=\'uint16\', records_per_chunk=0)", \'fields\': "list(str:\'fs\', '
                         "str:'url', str:'byte_ranges', str:'shape', str:'dtype', str:'type_code', "
                         'str:\'records_per_chunk\', str:\'chunk_offsets\')", \'byte_ranges is\': True}',
 'none rpc=np.int64(-1)': "{'records_per_chunk': 'int:0', 'chunk_offsets': 'dict{}', 'chunks': 'tuple(int:0, "
                          'int:20)\', \'ndim\': \'int:2\', \'repr\': "Array(url=\'image-file\', shape=(0, '
                          '20), dtype=\'uint16\', records_per_chunk=0)", \'fields\': "list(str:\'fs\', '
                          "str:'url', str:'byte_ranges', str:'shape', str:'dtype', str:'type_code', "
                          'str:\'records_per_chunk\', str:\'chunk_offsets\')", \'byte_ranges is\': True}',
 'none rpc=np.uint8(9)': "{'records_per_chunk': 'int:0', 'chunk_offsets': 'dict{}', 'chunks': 'tuple(int:0, "
                         'int:20)\', \'ndim\': \'int:2\', \'repr\': "Array(url=\'image-file\', shape=(0, '
                         '20), dtype=\'uint16\', records_per_chunk=0)", \'fields\': "list(str:\'fs\', '
                         "str:'url', str:'byte_ranges', str:'shape', str:'dtype', str:'type_code', "
                         'str:\'records_per_chunk\', str:\'chunk_offsets\')", \'byte_ranges is\': True}',
 'none rpc=IntLike(2)': "{'records_per_chunk': 'int:0', 'chunk_offsets': 'dict{}', 'chunks': 'tuple(int:0, "
                        'int:20)\', \'ndim\': \'int:2\', \'repr\': "Array(url=\'image-file\', shape=(0, 20), '
                        'dtype=\'uint16\', records_per_chunk=0)", \'fields\': "list(str:\'fs\', str:\'url\', '
                        "str:'byte_ranges', str:'shape', str:'dtype', str:'type_code', "
                        'str:\'records_per_chunk\', str:\'chunk_offsets\')", \'byte_ranges is\': True}',
 'none rpc=IntLike(-1)': "{'records_per_chunk': 'int:0', 'chunk_offsets': 'dict{}', 'chunks': 'tuple(int:0, "
                         'int:20)\', \'ndim\': \'int:2\', \'repr\': "Array(url=\'image-file\', shape=(0, '
                         '20), dtype=\'uint16\', records_per_chunk=0)", \'fields\': "list(str:\'fs\', '
                         "str:'url', str:'byte_ranges', str:'shape', str:'dtype', str:'type_code', "
                         'str:\'records_per_chunk\', str:\'chunk_offsets\')", \'byte_ranges is\': True}',
 'none rpc=IntLike(99)': "{'records_per_chunk': 'int:0', 'chunk_offsets': 'dict{}', 'chunks': 'tuple(int:0, "
                         'int:20)\', \'ndim\': \'int:2\', \'repr\': "Array(url=\'image-file\', shape=(0, '
                         '20), dtype=\'uint16\', records_per_chunk=0)", \'fields\': "list(str:\'fs\', '
                         "str:'url', str:'byte_ranges', str:'shape', str:'dtype', str:'type_code', "
                         'str:\'records_per_chunk\', str:\'chunk_offsets\')", \'byte_ranges is\': True}',
 'none rpc=Fraction(2)': "{'records_per_chunk': 'int:0', 'chunk_offsets': 'dict{}', 'chunks': 'tuple(int:0, "
                         'int:20)\', \'ndim\': \'int:2\', \'repr\': "Array(url=\'image-file\', shape=(0, '
                         '20), dtype=\'uint16\', records_per_chunk=0)", \'fields\': "list(str:\'fs\', '
                         "str:'url', str:'byte_ranges', str:'shape', str:'dtype', str:'type_code', "
                         'str:\'records_per_chunk\', str:\'chunk_offsets\')", \'byte_ranges is\': True}',
 'none rpc=2.0': "{'records_per_chunk': 'int:0', 'chunk_offsets': 'dict{}', 'chunks': 'tuple(int:0, "
                 'int:20)\', \'ndim\': \'int:2\', \'repr\': "Array(url=\'image-file\', shape=(0, 20), '
                 'dtype=\'uint16\', records_per_chunk=0)", \'fields\': "list(str:\'fs\', str:\'url\', '
                 "str:'byte_ranges', str:'shape', str:'dtype', str:'type_code', str:'records_per_chunk', "
                 'str:\'chunk_offsets\')", \'byte_ranges is\': True}',
 'none rpc=nan': "raise builtins.TypeError: can't multiply sequence by non-int of type 'float'",
 'none rpc=inf': "{'records_per_chunk': 'int:0', 'chunk_offsets': 'dict{}', 'chunks': 'tuple(int:0, "
                 'int:20)\', \'ndim\': \'int:2\', \'repr\': "Array(url=\'image-file\', shape=(0, 20), '
                 'dtype=\'uint16\', records_per_chunk=0)", \'fields\': "list(str:\'fs\', str:\'url\', '
                 "str:'byte_ranges', str:'shape', str:'dtype', str:'type_code', str:'records_per_chunk', "
                 'str:\'chunk_offsets\')", \'byte_ranges is\': True}',
 "none rpc='auto'": 'raise builtins.ValueError: attempt to get argmin of an empty sequence',
 "none rpc=Text('auto')": 'raise builtins.ValueError: attempt to get argmin of an empty sequence',
 "none rpc='AUTO'": "raise builtins.ValueError: Could not interpret 'AUTO' as a byte unit",
 "none rpc=' auto'": "raise builtins.ValueError: Could not interpret 'auto' as a byte unit",
 "none rpc='1B'": 'raise builtins.ValueError: attempt to get argmin of an empty sequence',
 "none rpc='39B'": 'raise builtins.ValueError: attempt to get argmin of an empty sequence',
 "none rpc='40B'": 'raise builtins.ValueError: attempt to get argmin of an empty sequence',
 "none rpc='60B'": 'raise builtins.ValueError: attempt to get argmin of an empty sequence',
 "none rpc='61B'": 'raise builtins.ValueError: attempt to get argmin of an empty sequence',
 "none rpc='80B'": 'raise builtins.ValueError: attempt to get argmin of an empty sequence',
 "none rpc='100 B'": 'raise builtins.ValueError: attempt to get argmin of an empty sequence',
 "none rpc='0.1kB'": 'raise builtins.ValueError: attempt to get argmin of an empty sequence',
 "none rpc='1kB'": 'raise builtins.ValueError: attempt to get argmin of an empty sequence',
 "none rpc='1KiB'": 'raise builtins.ValueError: attempt to get argmin of an empty sequence',
 "none rpc='1e2'": 'raise builtins.ValueError: attempt to get argmin of an empty sequence',
 "none rpc='120'": 'raise builtins.ValueError: attempt to get argmin of an empty sequence',
 "none rpc='2'": 'raise builtins.ValueError: attempt to get argmin of an empty sequence',
 "none rpc='0'": 'raise builtins.ValueError: attempt to get argmin of an empty sequence',
 "none rpc='-1'": 'raise builtins.ValueError: attempt to get argmin of an empty sequence',
 "none rpc='-80B'": 'raise builtins.ValueError: attempt to get argmin of an empty sequence',
 "none rpc='5GB'": 'raise builtins.ValueError: attempt to get argmin of an empty sequence',
 "none rpc='MB'": 'raise builtins.ValueError: attempt to get argmin of an empty sequence',
 "none rpc=''": 'raise builtins.ValueError: attempt to get argmin of an empty sequence',
 "none rpc='B'": 'raise builtins.ValueError: attempt to get argmin of an empty sequence',
 "none rpc='5 foos'": "raise builtins.ValueError: Could not interpret 'foos' as a byte unit",
 "none rpc='abc'": "raise builtins.ValueError: Could not interpret 'abc' as a byte unit",
 "none rpc='1.2.3B'": "raise builtins.ValueError: Could not interpret '1.2.3' as a number",
 "none rpc=Text('80B')": 'raise builtins.ValueError: attempt to get argmin of an empty sequence',
 "none rpc=b'auto'": "raise builtins.TypeError: '>' not supported between instances of 'bytes' and 'int'",
 "none rpc=b'80B'": "raise builtins.TypeError: '>' not supported between instances of 'bytes' and 'int'",
 'none rpc=[2]': "raise builtins.TypeError: '>' not supported between instances of 'list' and 'int'",
 'none rpc=(2,)': "raise builtins.TypeError: '>' not supported between instances of 'tuple' and 'int'",
 'none rpc={}': "raise builtins.TypeError: '>' not supported between instances of 'dict' and 'int'",
 'none rpc=2j': "raise builtins.TypeError: '>' not supported between instances of 'complex' and 'int'",
 'none rpc=object': "raise builtins.TypeError: '>' not supported between instances of 'type' and 'int'",
 'none rpc not given': "{'records_per_chunk': 'int:1024', 'chunk_offsets': 'dict{}', 'chunks': "
                       "'tuple(int:1024, int:20)', 'ndim': 'int:2', 'repr': "
                       '"Array(url=\'image-file\', shape=(0, 20), dtype=\'uint16\', '
                       'records_per_chunk=1024)", \'fields\': "list(str:\'fs\', str:\'url\', '
                       "str:'byte_ranges', str:'shape', str:'dtype', str:'type_code', "
                       'str:\'records_per_chunk\', str:\'chunk_offsets\')", \'byte_ranges is\': True}',
 'as-tuple rpc=None': '{\'records_per_chunk\': \'int:1024\', \'chunk_offsets\': "dict{int:0: '
                      'dict{str:\'offset\': int:20, str:\'size\': int:160}}", \'chunks\': \'tuple(int:1024, '
                      'int:20)\', \'ndim\': \'int:2\', \'repr\': "Array(url=\'image-file\', shape=(3, 20), '
                      'dtype=\'uint16\', records_per_chunk=1024)", \'fields\': "list(str:\'fs\', '
                      "str:'url', str:'byte_ranges', str:'shape', str:'dtype', str:'type_code', "
                      'str:\'records_per_chunk\', str:\'chunk_offsets\')", \'byte_ranges is\': True}',
 'as-tuple rpc=1': '{\'records_per_chunk\': \'int:1\', \'chunk_offsets\': "dict{int:0: dict{str:\'offset\': '
                   "int:20, str:'size': int:40}, int:1: dict{str:'offset': int:80, str:'size': int:40}, "
                   'int:2: dict{str:\'offset\': int:140, str:\'size\': int:40}}", \'chunks\': \'tuple(int:1, '
                   'int:20)\', \'ndim\': \'int:2\', \'repr\': "Array(url=\'image-file\', shape=(3, 20), '
                   'dtype=\'uint16\', records_per_chunk=1)", \'fields\': "list(str:\'fs\', str:\'url\', '
                   "str:'byte_ranges', str:'shape', str:'dtype', str:'type_code', str:'records_per_chunk', "
                   'str:\'chunk_offsets\')", \'byte_ranges is\': True}',
 'as-tuple rpc=2': '{\'records_per_chunk\': \'int:2\', \'chunk_offsets\': "dict{int:0: dict{str:\'offset\': '
                   "int:20, str:'size': int:100}, int:1: dict{str:'offset': int:140, str:'size': "
                   'int:40}}", \'chunks\': \'tuple(int:2, int:20)\', \'ndim\': \'int:2\', \'repr\': '
                   '"Array(url=\'image-file\', shape=(3, 20), dtype=\'uint16\', records_per_chunk=2)", '
                   '\'fields\': "list(str:\'fs\', str:\'url\', str:\'byte_ranges\', str:\'shape\', '
                   'str:\'dtype\', str:\'type_code\', str:\'records_per_chunk\', str:\'chunk_offsets\')", '
                   "'byte_ranges is': True}",
 'as-tuple rpc=3': '{\'records_per_chunk\': \'int:3\', \'chunk_offsets\': "dict{int:0: dict{str:\'offset\': '
                   'int:20, str:\'size\': int:160}}", \'chunks\': \'tuple(int:3, int:20)\', \'ndim\': '
                   '\'int:2\', \'repr\': "Array(url=\'image-file\', shape=(3, 20), dtype=\'uint16\', '
                   'records_per_chunk=3)", \'fields\': "list(str:\'fs\', str:\'url\', str:\'byte_ranges\', '
                   "str:'shape', str:'dtype', str:'type_code', str:'records_per_chunk', "
                   'str:\'chunk_offsets\')", \'byte_ranges is\': True}',
 'as-tuple rpc=4': '{\'records_per_chunk\': \'int:3\', \'chunk_offsets\': "dict{int:0: dict{str:\'offset\': '
                   'int:20, str:\'size\': int:160}}", \'chunks\': \'tuple(int:3, int:20)\', \'ndim\': '
                   '\'int:2\', \'repr\': "Array(url=\'image-file\', shape=(3, 20), dtype=\'uint16\', '
                   'records_per_chunk=3)", \'fields\': "list(str:\'fs\', str:\'url\', str:\'byte_ranges\', '
                   "str:'shape', str:'dtype', str:'type_code', str:'records_per_chunk', "
                   'str:\'chunk_offsets\')", \'byte_ranges is\': True}',
 'as-tuple rpc=5': '{\'records_per_chunk\': \'int:3\', \'chunk_offsets\': "dict{int:0: dict{str:\'offset\': '
                   'int:20, str:\'size\': int:160}}", \'chunks\': \'tuple(int:3, int:20)\', \'ndim\': '
                   '\'int:2\', \'repr\': "Array(url=\'image-file\', shape=(3, 20), dtype=\'uint16\', '
                   'records_per_chunk=3)", \'fields\': "list(str:\'fs\', str:\'url\', str:\'byte_ranges\', '
                   "str:'shape', str:'dtype', str:'type_code', str:'records_per_chunk', "
                   'str:\'chunk_offsets\')", \'byte_ranges is\': True}',
 'as-tuple rpc=6': '{\'records_per_chunk\': \'int:3\', \'chunk_offsets\': "dict{int:0: dict{str:\'offset\': '
                   'int:20, str:\'size\': int:160}}", \'chunks\': \'tuple(int:3, int:20)\', \'ndim\': '
                   '\'int:2\', \'repr\': "Array(url=\'image-file\', shape=(3, 20), dtype=\'uint16\', '
                   'records_per_chunk=3)", \'fields\': "list(str:\'fs\', str:\'url\', str:\'byte_ranges\', '
                   "str:'shape', str:'dtype', str:'type_code', str:'records_per_chunk', "
                   'str:\'chunk_offsets\')", \'byte_ranges is\': True}',
 'as-tuple rpc=1024': '{\'records_per_chunk\': \'int:3\', \'chunk_offsets\': "dict{int:0: '
                      'dict{str:\'offset\': int:20, str:\'size\': int:160}}", \'chunks\': \'tuple(int:3, '
                      'int:20)\', \'ndim\': \'int:2\', \'repr\': "Array(url=\'image-file\', shape=(3, 20), '
                      'dtype=\'uint16\', records_per_chunk=3)", \'fields\': "list(str:\'fs\', str:\'url\', '
                      "str:'byte_ranges', str:'shape', str:'dtype', str:'type_code', "
                      'str:\'records_per_chunk\', str:\'chunk_offsets\')", \'byte_ranges is\': True}',
 'as-tuple rpc=-1': '{\'records_per_chunk\': \'int:3\', \'chunk_offsets\': "dict{int:0: dict{str:\'offset\': '
                    'int:20, str:\'size\': int:160}}", \'chunks\': \'tuple(int:3, int:20)\', \'ndim\': '
                    '\'int:2\', \'repr\': "Array(url=\'image-file\', shape=(3, 20), dtype=\'uint16\', '
                    'records_per_chunk=3)", \'fields\': "list(str:\'fs\', str:\'url\', str:\'byte_ranges\', '
                    "str:'shape', str:'dtype', str:'type_code', str:'records_per_chunk', "
                    'str:\'chunk_offsets\')", \'byte_ranges is\': True}',
 'as-tuple rpc=True': '{\'records_per_chunk\': \'bool:True\', \'chunk_offsets\': "dict{int:0: '
                      "dict{str:'offset': int:20, str:'size': int:40}, int:1: dict{str:'offset': int:80, "
                      'str:\'size\': int:40}, int:2: dict{str:\'offset\': int:140, str:\'size\': int:40}}", '
                      "'chunks': 'tuple(bool:True, int:20)', 'ndim': 'int:2', 'repr': "
                      '"Array(url=\'image-file\', shape=(3, 20), dtype=\'uint16\', records_per_chunk=True)", '
                      '\'fields\': "list(str:\'fs\', str:\'url\', str:\'byte_ranges\', str:\'shape\', '
                      'str:\'dtype\', str:\'type_code\', str:\'records_per_chunk\', str:\'chunk_offsets\')", '
                      "'byte_ranges is': True}",
 'as-tuple rpc=np.int64(2)': '{\'records_per_chunk\': \'int64(2)\', \'chunk_offsets\': "dict{int:0: '
                             "dict{str:'offset': int:20, str:'size': int:100}, int:1: dict{str:'offset': "
                             'int:140, str:\'size\': int:40}}", \'chunks\': \'tuple(int64(2), int:20)\', '
                             '\'ndim\': \'int:2\', \'repr\': "Array(url=\'image-file\', shape=(3, 20), '
                             'dtype=\'uint16\', records_per_chunk=np.int64(2))", \'fields\': '
                             '"list(str:\'fs\', str:\'url\', str:\'byte_ranges\', str:\'shape\', '
                             "str:'dtype', str:'type_code', str:'records_per_chunk', "
                             'str:\'chunk_offsets\')", \'byte_ranges is\': True}',
 'as-tuple rpc=np.int64(-1)': '{\'records_per_chunk\': \'int:3\', \'chunk_offsets\': "dict{int:0: '
                              'dict{str:\'offset\': int:20, str:\'size\': int:160}}", \'chunks\': '
                              "'tuple(int:3, int:20)', 'ndim': 'int:2', 'repr': "
                              '"Array(url=\'image-file\', shape=(3, 20), dtype=\'uint16\', '
                              'records_per_chunk=3)", \'fields\': "list(str:\'fs\', str:\'url\', '
                              "str:'byte_ranges', str:'shape', str:'dtype', str:'type_code', "
                              'str:\'records_per_chunk\', str:\'chunk_offsets\')", \'byte_ranges is\': True}',
 'as-tuple rpc=np.uint8(9)': '{\'records_per_chunk\': \'int:3\', \'chunk_offsets\': "dict{int:0: '
                             'dict{str:\'offset\': int:20, str:\'size\': int:160}}", \'chunks\': '
                             "'tuple(int:3, int:20)', 'ndim': 'int:2', 'repr': "
                             '"Array(url=\'image-file\', shape=(3, 20), dtype=\'uint16\', '
                             'records_per_chunk=3)", \'fields\': "list(str:\'fs\', str:\'url\', '
                             "str:'byte_ranges', str:'shape', str:'dtype', str:'type_code', "
                             'str:\'records_per_chunk\', str:\'chunk_offsets\')", \'byte_ranges is\': True}',
 'as-tuple rpc=IntLike(2)': "raise builtins.TypeError: unsupported operand type(s) for +: 'int' and "
                            "'IntLike'",
 'as-tuple rpc=IntLike(-1)': '{\'records_per_chunk\': \'int:3\', \'chunk_offsets\': "dict{int:0: '
                             'dict{str:\'offset\': int:20, str:\'size\': int:160}}", \'chunks\': '
                             "'tuple(int:3, int:20)', 'ndim': 'int:2', 'repr': "
                             '"Array(url=\'image-file\', shape=(3, 20), dtype=\'uint16\', '
                             'records_per_chunk=3)", \'fields\': "list(str:\'fs\', str:\'url\', '
                             "str:'byte_ranges', str:'shape', str:'dtype', str:'type_code', "
                             'str:\'records_per_chunk\', str:\'chunk_offsets\')", \'byte_ranges is\': True}',
 'as-tuple rpc=IntLike(99)': '{\'records_per_chunk\': \'int:3\', \'chunk_offsets\': "dict{int:0: '
                             'dict{str:\'offset\': int:20, str:\'size\': int:160}}", \'chunks\': '
                             "'tuple(int:3, int:20)', 'ndim': 'int:2', 'repr': "
                             '"Array(url=\'image-file\', shape=(3, 20), dtype=\'uint16\', '
                             'records_per_chunk=3)", \'fields\': "list(str:\'fs\', str:\'url\', '
                             "str:'byte_ranges', str:'shape', str:'dtype', str:'type_code', "
                             'str:\'records_per_chunk\', str:\'chunk_offsets\')", \'byte_ranges is\': True}',
 'as-tuple rpc=Fraction(2)': "raise builtins.TypeError: can't multiply sequence by non-int of type "
                             "'Fraction'",
 'as-tuple rpc=2.0': "raise builtins.TypeError: can't multiply sequence by non-int of type 'float'",
 'as-tuple rpc=nan': "raise builtins.TypeError: can't multiply sequence by non-int of type 'float'",
 'as-tuple rpc=inf': '{\'records_per_chunk\': \'int:3\', \'chunk_offsets\': "dict{int:0: '
                     'dict{str:\'offset\': int:20, str:\'size\': int:160}}", \'chunks\': \'tuple(int:3, '
                     'int:20)\', \'ndim\': \'int:2\', \'repr\': "Array(url=\'image-file\', shape=(3, 20), '
                     'dtype=\'uint16\', records_per_chunk=3)", \'fields\': "list(str:\'fs\', str:\'url\', '
                     "str:'byte_ranges', str:'shape', str:'dtype', str:'type_code', str:'records_per_chunk', "
                     'str:\'chunk_offsets\')", \'byte_ranges is\': True}',
 "as-tuple rpc='auto'": '{\'records_per_chunk\': \'int64(3)\', \'chunk_offsets\': "dict{int:0: '
                        'dict{str:\'offset\': int:20, str:\'size\': int:160}}", \'chunks\': '
                        "'tuple(int64(3), int:20)', 'ndim': 'int:2', 'repr': "
                        '"Array(url=\'image-file\', shape=(3, 20), dtype=\'uint16\', '
                        'records_per_chunk=np.int64(3))", \'fields\': "list(str:\'fs\', str:\'url\', '
                        "str:'byte_ranges', str:'shape', str:'dtype', str:'type_code', "
                        'str:\'records_per_chunk\', str:\'chunk_offsets\')", \'byte_ranges is\': True}',
 "as-tuple rpc=Text('auto')": '{\'records_per_chunk\': \'int64(3)\', \'chunk_offsets\': "dict{int:0: '
                              'dict{str:\'offset\': int:20, str:\'size\': int:160}}", \'chunks\': '
                              "'tuple(int64(3), int:20)', 'ndim': 'int:2', 'repr': "
                              '"Array(url=\'image-file\', shape=(3, 20), dtype=\'uint16\', '
                              'records_per_chunk=np.int64(3))", \'fields\': "list(str:\'fs\', str:\'url\', '
                              "str:'byte_ranges', str:'shape', str:'dtype', str:'type_code', "
                              'str:\'records_per_chunk\', str:\'chunk_offsets\')", \'byte_ranges is\': True}',
 "as-tuple rpc='AUTO'": "raise builtins.ValueError: Could not interpret 'AUTO' as a byte unit",
 "as-tuple rpc=' auto'": "raise builtins.ValueError: Could not interpret 'auto' as a byte unit",
 "as-tuple rpc='1B'": '{\'records_per_chunk\': \'int64(1)\', \'chunk_offsets\': "dict{int:0: '
                      "dict{str:'offset': int:20, str:'size': int:40}, int:1: dict{str:'offset': int:80, "
                      'str:\'size\': int:40}, int:2: dict{str:\'offset\': int:140, str:\'size\': int:40}}", '
                      "'chunks': 'tuple(int64(1), int:20)', 'ndim': 'int:2', 'repr': "
                      '"Array(url=\'image-file\', shape=(3, 20), dtype=\'uint16\', '
                      'records_per_chunk=np.int64(1))", \'fields\': "list(str:\'fs\', str:\'url\', '
                      "str:'byte_ranges', str:'shape', str:'dtype', str:'type_code', "
                      'str:\'records_per_chunk\', str:\'chunk_offsets\')", \'byte_ranges is\': True}',
 "as-tuple rpc='39B'": '{\'records_per_chunk\': \'int64(1)\', \'chunk_offsets\': "dict{int:0: '
                       "dict{str:'offset': int:20, str:'size': int:40}, int:1: dict{str:'offset': int:80, "
                       'str:\'size\': int:40}, int:2: dict{str:\'offset\': int:140, str:\'size\': int:40}}", '
                       "'chunks': 'tuple(int64(1), int:20)', 'ndim': 'int:2', 'repr': "
                       '"Array(url=\'image-file\', shape=(3, 20), dtype=\'uint16\', '
                       'records_per_chunk=np.int64(1))", \'fields\': "list(str:\'fs\', str:\'url\', '
                       "str:'byte_ranges', str:'shape', str:'dtype', str:'type_code', "
                       'str:\'records_per_chunk\', str:\'chunk_offsets\')", \'byte_ranges is\': True}',
 "as-tuple rpc='40B'": '{\'records_per_chunk\': \'int64(1)\', \'chunk_offsets\': "dict{int:0: '
                       "dict{str:'offset': int:20, str:'size': int:40}, int:1: dict{str:'offset': int:80, "
                       'str:\'size\': int:40}, int:2: dict{str:\'offset\': int:140, str:\'size\': int:40}}", '
                       "'chunks': 'tuple(int64(1), int:20)', 'ndim': 'int:2', 'repr': "
                       '"Array(url=\'image-file\', shape=(3, 20), dtype=\'uint16\', '
                       'records_per_chunk=np.int64(1))", \'fields\': "list(str:\'fs\', str:\'url\', '
                       "str:'byte_ranges', str:'shape', str:'dtype', str:'type_code', "
                       'str:\'records_per_chunk\', str:\'chunk_offsets\')", \'byte_ranges is\': True}',
 "as-tuple rpc='60B'": '{\'records_per_chunk\': \'int64(1)\', \'chunk_offsets\': "dict{int:0: '
                       "dict{str:'offset': int:20, str:'size': int:40}, int:1: dict{str:'offset': int:80, "
                       'str:\'size\': int:40}, int:2: dict{str:\'offset\': int:140, str:\'size\': int:40}}", '
                       "'chunks': 'tuple(int64(1), int:20)', 'ndim': 'int:2', 'repr': "
                       '"Array(url=\'image-file\', shape=(3, 20), dtype=\'uint16\', '
                       'records_per_chunk=np.int64(1))", \'fields\': "list(str:\'fs\', str:\'url\', '
                       "str:'byte_ranges', str:'shape', str:'dtype', str:'type_code', "
                       'str:\'records_per_chunk\', str:\'chunk_offsets\')", \'byte_ranges is\': True}',
 "as-tuple rpc='61B'": '{\'records_per_chunk\': \'int64(2)\', \'chunk_offsets\': "dict{int:0: '
                       "dict{str:'offset': int:20, str:'size': int:100}, int:1: dict{str:'offset': int:140, "
                       'str:\'size\': int:40}}", \'chunks\': \'tuple(int64(2), int:20)\', \'ndim\': '
                       '\'int:2\', \'repr\': "Array(url=\'image-file\', shape=(3, 20), dtype=\'uint16\', '
                       'records_per_chunk=np.int64(2))", \'fields\': "list(str:\'fs\', str:\'url\', '
                       "str:'byte_ranges', str:'shape', str:'dtype', str:'type_code', "
                       'str:\'records_per_chunk\', str:\'chunk_offsets\')", \'byte_ranges is\': True}',
 "as-tuple rpc='80B'": '{\'records_per_chunk\': \'int64(2)\', \'chunk_offsets\': "dict{int:0: '
                       "dict{str:'offset': int:20, str:'size': int:100}, int:1: dict{str:'offset': int:140, "
                       'str:\'size\': int:40}}", \'chunks\': \'tuple(int64(2), int:20)\', \'ndim\': '
                       '\'int:2\', \'repr\': "Array(url=\'image-file\', shape=(3, 20), dtype=\'uint16\', '
                       'records_per_chunk=np.int64(2))", \'fields\': "list(str:\'fs\', str:\'url\', '
                       "str:'byte_ranges', str:'shape', str:'dtype', str:'type_code', "
                       'str:\'records_per_chunk\', str:\'chunk_offsets\')", \'byte_ranges is\': True}',
 "as-tuple rpc='100 B'": '{\'records_per_chunk\': \'int64(2)\', \'chunk_offsets\': "dict{int:0: '
                         "dict{str:'offset': int:20, str:'size': int:100}, int:1: dict{str:'offset': "
                         'int:140, str:\'size\': int:40}}", \'chunks\': \'tuple(int64(2), int:20)\', '
                         '\'ndim\': \'int:2\', \'repr\': "Array(url=\'image-file\', shape=(3, 20), '
                         'dtype=\'uint16\', records_per_chunk=np.int64(2))", \'fields\': "list(str:\'fs\', '
                         "str:'url', str:'byte_ranges', str:'shape', str:'dtype', str:'type_code', "
                         'str:\'records_per_chunk\', str:\'chunk_offsets\')", \'byte_ranges is\': True}',
 "as-tuple rpc='0.1kB'": '{\'records_per_chunk\': \'int64(2)\', \'chunk_offsets\': "dict{int:0: '
                         "dict{str:'offset': int:20, str:'size': int:100}, int:1: dict{str:'offset': "
                         'int:140, str:\'size\': int:40}}", \'chunks\': \'tuple(int64(2), int:20)\', '
                         '\'ndim\': \'int:2\', \'repr\': "Array(url=\'image-file\', shape=(3, 20), '
                         'dtype=\'uint16\', records_per_chunk=np.int64(2))", \'fields\': "list(str:\'fs\', '
                         "str:'url', str:'byte_ranges', str:'shape', str:'dtype', str:'type_code', "
                         'str:\'records_per_chunk\', str:\'chunk_offsets\')", \'byte_ranges is\': True}',
 "as-tuple rpc='1kB'": '{\'records_per_chunk\': \'int64(3)\', \'chunk_offsets\': "dict{int:0: '
                       'dict{str:\'offset\': int:20, str:\'size\': int:160}}", \'chunks\': \'tuple(int64(3), '
                       'int:20)\', \'ndim\': \'int:2\', \'repr\': "Array(url=\'image-file\', shape=(3, 20), '
                       'dtype=\'uint16\', records_per_chunk=np.int64(3))", \'fields\': "list(str:\'fs\', '
                       "str:'url', str:'byte_ranges', str:'shape', str:'dtype', str:'type_code', "
                       'str:\'records_per_chunk\', str:\'chunk_offsets\')", \'byte_ranges is\': True}',
 "as-tuple rpc='1KiB'": '{\'records_per_chunk\': \'int64(3)\', \'chunk_offsets\': "dict{int:0: '
                        'dict{str:\'offset\': int:20, str:\'size\': int:160}}", \'chunks\': '
                        "'tuple(int64(3), int:20)', 'ndim': 'int:2', 'repr': "
                        '"Array(url=\'image-file\', shape=(3, 20), dtype=\'uint16\', '
                        'records_per_chunk=np.int64(3))", \'fields\': "list(str:\'fs\', str:\'url\', '
                        "str:'byte_ranges', str:'shape', str:'dtype', str:'type_code', "
                        'str:\'records_per_chunk\', str:\'chunk_offsets\')", \'byte_ranges is\': True}',
 "as-tuple rpc='1e2'": '{\'records_per_chunk\': \'int64(2)\', \'chunk_offsets\': "dict{int:0: '
                       "dict{str:'offset': int:20, str:'size': int:100}, int:1: dict{str:'offset': int:140, "
                       'str:\'size\': int:40}}", \'chunks\': \'tuple(int64(2), int:20)\', \'ndim\': '
                       '\'int:2\', \'repr\': "Array(url=\'image-file\', shape=(3, 20), dtype=\'uint16\', '
                       'records_per_chunk=np.int64(2))", \'fields\': "list(str:\'fs\', str:\'url\', '
                       "str:'byte_ranges', str:'shape', str:'dtype', str:'type_code', "
                       'str:\'records_per_chunk\', str:\'chunk_offsets\')", \'byte_ranges is\': True}',
 "as-tuple rpc='120'": '{\'records_per_chunk\': \'int64(3)\', \'chunk_offsets\': "dict{int:0: '
                       'dict{str:\'offset\': int:20, str:\'size\': int:160}}", \'chunks\': \'tuple(int64(3), '
                       'int:20)\', \'ndim\': \'int:2\', \'repr\': "Array(url=\'image-file\', shape=(3, 20), '
                       'dtype=\'uint16\', records_per_chunk=np.int64(3))", \'fields\': "list(str:\'fs\', '
                       "str:'url', str:'byte_ranges', str:'shape', str:'dtype', str:'type_code', "
                       'str:\'records_per_chunk\', str:\'chunk_offsets\')", \'byte_ranges is\': True}',
 "as-tuple rpc='2'": '{\'records_per_chunk\': \'int64(1)\', \'chunk_offsets\': "dict{int:0: '
                     "dict{str:'offset': int:20, str:'size': int:40}, int:1: dict{str:'offset': int:80, "
                     'str:\'size\': int:40}, int:2: dict{str:\'offset\': int:140, str:\'size\': int:40}}", '
                     "'chunks': 'tuple(int64(1), int:20)', 'ndim': 'int:2', 'repr': "
                     '"Array(url=\'image-file\', shape=(3, 20), dtype=\'uint16\', '
                     'records_per_chunk=np.int64(1))", \'fields\': "list(str:\'fs\', str:\'url\', '
                     "str:'byte_ranges', str:'shape', str:'dtype', str:'type_code', str:'records_per_chunk', "
                     'str:\'chunk_offsets\')", \'byte_ranges is\': True}',
 "as-tuple rpc='0'": '{\'records_per_chunk\': \'int64(1)\', \'chunk_offsets\': "dict{int:0: '
                     "dict{str:'offset': int:20, str:'size': int:40}, int:1: dict{str:'offset': int:80, "
                     'str:\'size\': int:40}, int:2: dict{str:\'offset\': int:140, str:\'size\': int:40}}", '
                     "'chunks': 'tuple(int64(1), int:20)', 'ndim': 'int:2', 'repr': "
                     '"Array(url=\'image-file\', shape=(3, 20), dtype=\'uint16\', '
                     'records_per_chunk=np.int64(1))", \'fields\': "list(str:\'fs\', str:\'url\', '
                     "str:'byte_ranges', str:'shape', str:'dtype', str:'type_code', str:'records_per_chunk', "
                     'str:\'chunk_offsets\')", \'byte_ranges is\': True}',
 "as-tuple rpc='-1'": '{\'records_per_chunk\': \'int64(1)\', \'chunk_offsets\': "dict{int:0: '
                      "dict{str:'offset': int:20, str:'size': int:40}, int:1: dict{str:'offset': int:80, "
                      'str:\'size\': int:40}, int:2: dict{str:\'offset\': int:140, str:\'size\': int:40}}", '
                      "'chunks': 'tuple(int64(1), int:20)', 'ndim': 'int:2', 'repr': "
                      '"Array(url=\'image-file\', shape=(3, 20), dtype=\'uint16\', '
                      'records_per_chunk=np.int64(1))", \'fields\': "list(str:\'fs\', str:\'url\', '
                      "str:'byte_ranges', str:'shape', str:'dtype', str:'type_code', "
                      'str:\'records_per_chunk\', str:\'chunk_offsets\')", \'byte_ranges is\': True}',
 "as-tuple rpc='-80B'": '{\'records_per_chunk\': \'int64(1)\', \'chunk_offsets\': "dict{int:0: '
                        "dict{str:'offset': int:20, str:'size': int:40}, int:1: dict{str:'offset': int:80, "
                        "str:'size': int:40}, int:2: dict{str:'offset': int:140, str:'size': "
                        'int:40}}", \'chunks\': \'tuple(int64(1), int:20)\', \'ndim\': \'int:2\', \'repr\': '
                        '"Array(url=\'image-file\', shape=(3, 20), dtype=\'uint16\', '
                        'records_per_chunk=np.int64(1))", \'fields\': "list(str:\'fs\', str:\'url\', '
                        "str:'byte_ranges', str:'shape', str:'dtype', str:'type_code', "
                        'str:\'records_per_chunk\', str:\'chunk_offsets\')", \'byte_ranges is\': True}',
 "as-tuple rpc='5GB'": '{\'records_per_chunk\': \'int64(3)\', \'chunk_offsets\': "dict{int:0: '
                       'dict{str:\'offset\': int:20, str:\'size\': int:160}}", \'chunks\': \'tuple(int64(3), '
                       'int:20)\', \'ndim\': \'int:2\', \'repr\': "Array(url=\'image-file\', shape=(3, 20), '
                       'dtype=\'uint16\', records_per_chunk=np.int64(3))", \'fields\': "list(str:\'fs\', '
                       "str:'url', str:'byte_ranges', str:'shape', str:'dtype', str:'type_code', "
                       'str:\'records_per_chunk\', str:\'chunk_offsets\')", \'byte_ranges is\': True}',
 "as-tuple rpc='MB'": '{\'records_per_chunk\': \'int64(3)\', \'chunk_offsets\': "dict{int:0: '
                      'dict{str:\'offset\': int:20, str:\'size\': int:160}}", \'chunks\': \'tuple(int64(3), '
                      'int:20)\', \'ndim\': \'int:2\', \'repr\': "Array(url=\'image-file\', shape=(3, 20), '
                      'dtype=\'uint16\', records_per_chunk=np.int64(3))", \'fields\': "list(str:\'fs\', '
                      "str:'url', str:'byte_ranges', str:'shape', str:'dtype', str:'type_code', "
                      'str:\'records_per_chunk\', str:\'chunk_offsets\')", \'byte_ranges is\': True}',
 "as-tuple rpc=''": '{\'records_per_chunk\': \'int64(1)\', \'chunk_offsets\': "dict{int:0: '
                    "dict{str:'offset': int:20, str:'size': int:40}, int:1: dict{str:'offset': int:80, "
                    'str:\'size\': int:40}, int:2: dict{str:\'offset\': int:140, str:\'size\': int:40}}", '
                    "'chunks': 'tuple(int64(1), int:20)', 'ndim': 'int:2', 'repr': "
                    '"Array(url=\'image-file\', shape=(3, 20), dtype=\'uint16\', '
                    'records_per_chunk=np.int64(1))", \'fields\': "list(str:\'fs\', str:\'url\', '
                    "str:'byte_ranges', str:'shape', str:'dtype', str:'type_code', str:'records_per_chunk', "
                    'str:\'chunk_offsets\')", \'byte_ranges is\': True}',
 "as-tuple rpc='B'": '{\'records_per_chunk\': \'int64(1)\', \'chunk_offsets\': "dict{int:0: '
                     "dict{str:'offset': int:20, str:'size': int:40}, int:1: dict{str:'offset': int:80, "
                     'str:\'size\': int:40}, int:2: dict{str:\'offset\': int:140, str:\'size\': int:40}}", '
                     "'chunks': 'tuple(int64(1), int:20)', 'ndim': 'int:2', 'repr': "
                     '"Array(url=\'image-file\', shape=(3, 20), dtype=\'uint16\', '
                     'records_per_chunk=np.int64(1))", \'fields\': "list(str:\'fs\', str:\'url\', '
                     "str:'byte_ranges', str:'shape', str:'dtype', str:'type_code', str:'records_per_chunk', "
                     'str:\'chunk_offsets\')", \'byte_ranges is\': True}',
 "as-tuple rpc='5 foos'": "raise builtins.ValueError: Could not interpret 'foos' as a byte unit",
 "as-tuple rpc='abc'": "raise builtins.ValueError: Could not interpret 'abc' as a byte unit",
 "as-tuple rpc='1.2.3B'": "raise builtins.ValueError: Could not interpret '1.2.3' as a number",
 "as-tuple rpc=Text('80B')": '{\'records_per_chunk\': \'int64(2)\', \'chunk_offsets\': "dict{int:0: '
                             "dict{str:'offset': int:20, str:'size': int:100}, int:1: dict{str:'offset': "
                             'int:140, str:\'size\': int:40}}", \'chunks\': \'tuple(int64(2), int:20)\', '
                             '\'ndim\': \'int:2\', \'repr\': "Array(url=\'image-file\', shape=(3, 20), '
                             'dtype=\'uint16\', records_per_chunk=np.int64(2))", \'fields\': '
                             '"list(str:\'fs\', str:\'url\', str:\'byte_ranges\', str:\'shape\', '
                             "str:'dtype', str:'type_code', str:'records_per_chunk', "
                             'str:\'chunk_offsets\')", \'byte_ranges is\': True}',
 "as-tuple rpc=b'auto'": "raise builtins.TypeError: '>' not supported between instances of 'bytes' and 'int'",
 "as-tuple rpc=b'80B'": "raise builtins.TypeError: '>' not supported between instances of 'bytes' and 'int'",
 'as-tuple rpc=[2]': "raise builtins.TypeError: '>' not supported between instances of 'list' and 'int'",
 'as-tuple rpc=(2,)': "raise builtins.TypeError: '>' not supported between instances of 'tuple' and 'int'",
 'as-tuple rpc={}': "raise builtins.TypeError: '>' not supported between instances of 'dict' and 'int'",
 'as-tuple rpc=2j': "raise builtins.TypeError: '>' not supported between instances of 'complex' and 'int'",
 'as-tuple rpc=object': "raise builtins.TypeError: '>' not supported between instances of 'type' and 'int'",
 'as-tuple rpc not given': '{\'records_per_chunk\': \'int:1024\', \'chunk_offsets\': "dict{int:0: '
                           'dict{str:\'offset\': int:20, str:\'size\': int:160}}", \'chunks\': '
                           "'tuple(int:1024, int:20)', 'ndim': 'int:2', 'repr': "
                           '"Array(url=\'image-file\', shape=(3, 20), dtype=\'uint16\', '
                           'records_per_chunk=1024)", \'fields\': "list(str:\'fs\', str:\'url\', '
                           "str:'byte_ranges', str:'shape', str:'dtype', str:'type_code', "
                           'str:\'records_per_chunk\', str:\'chunk_offsets\')", \'byte_ranges is\': True}',
 'as-lists rpc=None': '{\'records_per_chunk\': \'int:1024\', \'chunk_offsets\': "dict{int:0: '
                      'dict{str:\'offset\': int:20, str:\'size\': int:100}}", \'chunks\': \'tuple(int:1024, '
                      'int:20)\', \'ndim\': \'int:2\', \'repr\': "Array(url=\'image-file\', shape=(2, 20), '
                      'dtype=\'uint16\', records_per_chunk=1024)", \'fields\': "list(str:\'fs\', '
                      "str:'url', str:'byte_ranges', str:'shape', str:'dtype', str:'type_code', "
                      'str:\'records_per_chunk\', str:\'chunk_offsets\')", \'byte_ranges is\': True}',
 'as-lists rpc=1': '{\'records_per_chunk\': \'int:1\', \'chunk_offsets\': "dict{int:0: dict{str:\'offset\': '
                   "int:20, str:'size': int:40}, int:1: dict{str:'offset': int:80, str:'size': "
                   'int:40}}", \'chunks\': \'tuple(int:1, int:20)\', \'ndim\': \'int:2\', \'repr\': '
                   '"Array(url=\'image-file\', shape=(2, 20), dtype=\'uint16\', records_per_chunk=1)", '
                   '\'fields\': "list(str:\'fs\', str:\'url\', str:\'byte_ranges\', str:\'shape\', '
                   'str:\'dtype\', str:\'type_code\', str:\'records_per_chunk\', str:\'chunk_offsets\')", '
                   "'byte_ranges is': True}",
 'as-lists rpc=2': '{\'records_per_chunk\': \'int:2\', \'chunk_offsets\': "dict{int:0: dict{str:\'offset\': '
                   'int:20, str:\'size\': int:100}}", \'chunks\': \'tuple(int:2, int:20)\', \'ndim\': '
                   '\'int:2\', \'repr\': "Array(url=\'image-file\', shape=(2, 20), dtype=\'uint16\', '
                   'records_per_chunk=2)", \'fields\': "list(str:\'fs\', str:\'url\', str:\'byte_ranges\', '
                   "str:'shape', str:'dtype', str:'type_code', str:'records_per_chunk', "
                   'str:\'chunk_offsets\')", \'byte_ranges is\': True}',
 'as-lists rpc=3': '{\'records_per_chunk\': \'int:2\', \'chunk_offsets\': "dict{int:0: dict{str:\'offset\': '
                   'int:20, str:\'size\': int:100}}", \'chunks\': \'tuple(int:2, int:20)\', \'ndim\': '
                   '\'int:2\', \'repr\': "Array(url=\'image-file\', shape=(2, 20), dtype=\'uint16\', '
                   'records_per_chunk=2)", \'fields\': "list(str:\'fs\', str:\'url\', str:\'byte_ranges\', '
                   "str:'shape', str:'dtype', str:'type_code', str:'records_per_chunk', "
                   'str:\'chunk_offsets\')", \'byte_ranges is\': True}',
 'as-lists rpc=4': '{\'records_per_chunk\': \'int:2\', \'chunk_offsets\': "dict{int:0: dict{str:\'offset\': '
                   'int:20, str:\'size\': int:100}}", \'chunks\': \'tuple(int:2, int:20)\', \'ndim\': '
                   '\'int:2\', \'repr\': "Array(url=\'image-file\', shape=(2, 20), dtype=\'uint16\', '
                   'records_per_chunk=2)", \'fields\': "list(str:\'fs\', str:\'url\', str:\'byte_ranges\', '
                   "str:'shape', str:'dtype', str:'type_code', str:'records_per_chunk', "
                   'str:\'chunk_offsets\')", \'byte_ranges is\': True}',
 'as-lists rpc=5': '{\'records_per_chunk\': \'int:2\', \'chunk_offsets\': "dict{int:0: dict{str:\'offset\': '
                   'int:20, str:\'size\': int:100}}", \'chunks\': \'tuple(int:2, int:20)\', \'ndim\': '
                   '\'int:2\', \'repr\': "Array(url=\'image-file\', shape=(2, 20), dtype=\'uint16\', '
                   'records_per_chunk=2)", \'fields\': "list(str:\'fs\', str:\'url\', str:\'byte_ranges\', '
                   "str:'shape', str:'dtype', str:'type_code', str:'records_per_chunk', "
                   'str:\'chunk_offsets\')", \'byte_ranges is\': True}',
 'as-lists rpc=6': '{\'records_per_chunk\': \'int:2\', \'chunk_offsets\': "dict{int:0: dict{str:\'offset\': '
                   'int:20, str:\'size\': int:100}}", \'chunks\': \'tuple(int:2, int:20)\', \'ndim\': '
                   '\'int:2\', \'repr\': "Array(url=\'image-file\', shape=(2, 20), dtype=\'uint16\', '
                   'records_per_chunk=2)", \'fields\': "list(str:\'fs\', str:\'url\', str:\'byte_ranges\', '
                   "str:'shape', str:'dtype', str:'type_code', str:'records_per_chunk', "
                   'str:\'chunk_offsets\')", \'byte_ranges is\': True}',
 'as-lists rpc=1024': '{\'records_per_chunk\': \'int:2\', \'chunk_offsets\': "dict{int:0: '
                      'dict{str:\'offset\': int:20, str:\'size\': int:100}}", \'chunks\': \'tuple(int:2, '
                      'int:20)\', \'ndim\': \'int:2\', \'repr\': "Array(url=\'image-file\', shape=(2, 20), '
                      'dtype=\'uint16\', records_per_chunk=2)", \'fields\': "list(str:\'fs\', str:\'url\', '
                      "str:'byte_ranges', str:'shape', str:'dtype', str:'type_code', "
                      'str:\'records_per_chunk\', str:\'chunk_offsets\')", \'byte_ranges is\': True}',
 'as-lists rpc=-1': '{\'records_per_chunk\': \'int:2\', \'chunk_offsets\': "dict{int:0: dict{str:\'offset\': '
                    'int:20, str:\'size\': int:100}}", \'chunks\': \'tuple(int:2, int:20)\', \'ndim\': '
                    '\'int:2\', \'repr\': "Array(url=\'image-file\', shape=(2, 20), dtype=\'uint16\', '
                    'records_per_chunk=2)", \'fields\': "list(str:\'fs\', str:\'url\', str:\'byte_ranges\', '
                    "str:'shape', str:'dtype', str:'type_code', str:'records_per_chunk', "
                    'str:\'chunk_offsets\')", \'byte_ranges is\': True}',
 'as-lists rpc=True': '{\'records_per_chunk\': \'bool:True\', \'chunk_offsets\': "dict{int:0: '
                      "dict{str:'offset': int:20, str:'size': int:40}, int:1: dict{str:'offset': int:80, "
                      'str:\'size\': int:40}}", \'chunks\': \'tuple(bool:True, int:20)\', \'ndim\': '
                      '\'int:2\', \'repr\': "Array(url=\'image-file\', shape=(2, 20), dtype=\'uint16\', '
                      'records_per_chunk=True)", \'fields\': "list(str:\'fs\', str:\'url\', '
                      "str:'byte_ranges', str:'shape', str:'dtype', str:'type_code', "
                      'str:\'records_per_chunk\', str:\'chunk_offsets\')", \'byte_ranges is\': True}',
 'as-lists rpc=np.int64(2)': '{\'records_per_chunk\': \'int64(2)\', \'chunk_offsets\': "dict{int:0: '
                             'dict{str:\'offset\': int:20, str:\'size\': int:100}}", \'chunks\': '
                             "'tuple(int64(2), int:20)', 'ndim': 'int:2', 'repr': "
                             '"Array(url=\'image-file\', shape=(2, 20), dtype=\'uint16\', '
                             'records_per_chunk=np.int64(2))", \'fields\': "list(str:\'fs\', str:\'url\', '
                             "str:'byte_ranges', str:'shape', str:'dtype', str:'type_code', "
                             'str:\'records_per_chunk\', str:\'chunk_offsets\')", \'byte_ranges is\': True}',
 'as-lists rpc=np.int64(-1)': '{\'records_per_chunk\': \'int:2\', \'chunk_offsets\': "dict{int:0: '
                              'dict{str:\'offset\': int:20, str:\'size\': int:100}}", \'chunks\': '
                              "'tuple(int:2, int:20)', 'ndim': 'int:2', 'repr': "
                              '"Array(url=\'image-file\', shape=(2, 20), dtype=\'uint16\', '
                              'records_per_chunk=2)", \'fields\': "list(str:\'fs\', str:\'url\', '
                              "str:'byte_ranges', str:'shape', str:'dtype', str:'type_code', "
                              'str:\'records_per_chunk\', str:\'chunk_offsets\')", \'byte_ranges is\': True}',
 'as-lists rpc=np.uint8(9)': '{\'records_per_chunk\': \'int:2\', \'chunk_offsets\': "dict{int:0: '
                             'dict{str:\'offset\': int:20, str:\'size\': int:100}}", \'chunks\': '
                             "'tuple(int:2, int:20)', 'ndim': 'int:2', 'repr': "
                             '"Array(url=\'image-file\', shape=(2, 20), dtype=\'uint16\', '
                             'records_per_chunk=2)", \'fields\': "list(str:\'fs\', str:\'url\', '
                             "str:'byte_ranges', str:'shape', str:'dtype', str:'type_code', "
                             'str:\'records_per_chunk\', str:\'chunk_offsets\')", \'byte_ranges is\': True}',
 'as-lists rpc=IntLike(2)': '{\'records_per_chunk\': \'IntLike:IntLike(2)\', \'chunk_offsets\': "dict{int:0: '
                            'dict{str:\'offset\': int:20, str:\'size\': int:100}}", \'chunks\': '
                            "'tuple(IntLike:IntLike(2), int:20)', 'ndim': 'int:2', 'repr': "
                            '"Array(url=\'image-file\', shape=(2, 20), dtype=\'uint16\', '
                            'records_per_chunk=IntLike(2))", \'fields\': "list(str:\'fs\', str:\'url\', '
                            "str:'byte_ranges', str:'shape', str:'dtype', str:'type_code', "
                            'str:\'records_per_chunk\', str:\'chunk_offsets\')", \'byte_ranges is\': True}',
 'as-lists rpc=IntLike(-1)': '{\'records_per_chunk\': \'int:2\', \'chunk_offsets\': "dict{int:0: '
                             'dict{str:\'offset\': int:20, str:\'size\': int:100}}", \'chunks\': '
                             "'tuple(int:2, int:20)', 'ndim': 'int:2', 'repr': "
                             '"Array(url=\'image-file\', shape=(2, 20), dtype=\'uint16\', '
                             'records_per_chunk=2)", \'fields\': "list(str:\'fs\', str:\'url\', '
                             "str:'byte_ranges', str:'shape', str:'dtype', str:'type_code', "
                             'str:\'records_per_chunk\', str:\'chunk_offsets\')", \'byte_ranges is\': True}',
 'as-lists rpc=IntLike(99)': '{\'records_per_chunk\': \'int:2\', \'chunk_offsets\': "dict{int:0: '
                             'dict{str:\'offset\': int:20, str:\'size\': int:100}}", \'chunks\': '
                             "'tuple(int:2, int:20)', 'ndim': 'int:2', 'repr': "
                             '"Array(url=\'image-file\', shape=(2, 20), dtype=\'uint16\', '
                             'records_per_chunk=2)", \'fields\': "list(str:\'fs\', str:\'url\', '
                             "str:'byte_ranges', str:'shape', str:'dtype', str:'type_code', "
                             'str:\'records_per_chunk\', str:\'chunk_offsets\')", \'byte_ranges is\': True}',
 'as-lists rpc=Fraction(2)': "raise builtins.TypeError: can't multiply sequence by non-int of type "
                             "'Fraction'",
 'as-lists rpc=2.0': "raise builtins.TypeError: can't multiply sequence by non-int of type 'float'",
 'as-lists rpc=nan': "raise builtins.TypeError: can't multiply sequence by non-int of type 'float'",
 'as-lists rpc=inf': '{\'records_per_chunk\': \'int:2\', \'chunk_offsets\': "dict{int:0: '
                     'dict{str:\'offset\': int:20, str:\'size\': int:100}}", \'chunks\': \'tuple(int:2, '
                     'int:20)\', \'ndim\': \'int:2\', \'repr\': "Array(url=\'image-file\', shape=(2, 20), '
                     'dtype=\'uint16\', records_per_chunk=2)", \'fields\': "list(str:\'fs\', str:\'url\', '
                     "str:'byte_ranges', str:'shape', str:'dtype', str:'type_code', str:'records_per_chunk', "
                     'str:\'chunk_offsets\')", \'byte_ranges is\': True}',
 "as-lists rpc='auto'": '{\'records_per_chunk\': \'int64(2)\', \'chunk_offsets\': "dict{int:0: '
                        'dict{str:\'offset\': int:20, str:\'size\': int:100}}", \'chunks\': '
                        "'tuple(int64(2), int:20)', 'ndim': 'int:2', 'repr': "
                        '"Array(url=\'image-file\', shape=(2, 20), dtype=\'uint16\', '
                        'records_per_chunk=np.int64(2))", \'fields\': "list(str:\'fs\', str:\'url\', '
                        "str:'byte_ranges', str:'shape', str:'dtype', str:'type_code', "
                        'str:\'records_per_chunk\', str:\'chunk_offsets\')", \'byte_ranges is\': True}',
 "as-lists rpc=Text('auto')": '{\'records_per_chunk\': \'int64(2)\', \'chunk_offsets\': "dict{int:0: '
                              'dict{str:\'offset\': int:20, str:\'size\': int:100}}", \'chunks\': '
                              "'tuple(int64(2), int:20)', 'ndim': 'int:2', 'repr': "
                              '"Array(url=\'image-file\', shape=(2, 20), dtype=\'uint16\', '
                              'records_per_chunk=np.int64(2))", \'fields\': "list(str:\'fs\', str:\'url\', '
                              "str:'byte_ranges', str:'shape', str:'dtype', str:'type_code', "
                              'str:\'records_per_chunk\', str:\'chunk_offsets\')", \'byte_ranges is\': True}',
 "as-lists rpc='AUTO'": "raise builtins.ValueError: Could not interpret 'AUTO' as a byte unit",
 "as-lists rpc=' auto'": "raise builtins.ValueError: Could not interpret 'auto' as a byte unit",
 "as-lists rpc='1B'": '{\'records_per_chunk\': \'int64(1)\', \'chunk_offsets\': "dict{int:0: '
                      "dict{str:'offset': int:20, str:'size': int:40}, int:1: dict{str:'offset': int:80, "
                      'str:\'size\': int:40}}", \'chunks\': \'tuple(int64(1), int:20)\', \'ndim\': '
                      '\'int:2\', \'repr\': "Array(url=\'image-file\', shape=(2, 20), dtype=\'uint16\', '
                      'records_per_chunk=np.int64(1))", \'fields\': "list(str:\'fs\', str:\'url\', '
                      "str:'byte_ranges', str:'shape', str:'dtype', str:'type_code', "
                      'str:\'records_per_chunk\', str:\'chunk_offsets\')", \'byte_ranges is\': True}',
 "as-lists rpc='39B'": '{\'records_per_chunk\': \'int64(1)\', \'chunk_offsets\': "dict{int:0: '
                       "dict{str:'offset': int:20, str:'size': int:40}, int:1: dict{str:'offset': int:80, "
                       'str:\'size\': int:40}}", \'chunks\': \'tuple(int64(1), int:20)\', \'ndim\': '
                       '\'int:2\', \'repr\': "Array(url=\'image-file\', shape=(2, 20), dtype=\'uint16\', '
                       'records_per_chunk=np.int64(1))", \'fields\': "list(str:\'fs\', str:\'url\', '
                       "str:'byte_ranges', str:'shape', str:'dtype', str:'type_code', "
                       'str:\'records_per_chunk\', str:\'chunk_offsets\')", \'byte_ranges is\': True}',
 "as-lists rpc='40B'": '{\'records_per_chunk\': \'int64(1)\', \'chunk_offsets\': "dict{int:0: '
                       "dict{str:'offset': int:20, str:'size': int:40}, int:1: dict{str:'offset': int:80, "
                       'str:\'size\': int:40}}", \'chunks\': \'tuple(int64(1), int:20)\', \'ndim\': '
                       '\'int:2\', \'repr\': "Array(url=\'image-file\', shape=(2, 20), dtype=\'uint16\', '
                       'records_per_chunk=np.int64(1))", \'fields\': "list(str:\'fs\', str:\'url\', '
                       "str:'byte_ranges', str:'shape', str:'dtype', str:'type_code', "
                       'str:\'records_per_chunk\', str:\'chunk_offsets\')", \'byte_ranges is\': True}',
 "as-lists rpc='60B'": '{\'records_per_chunk\': \'int64(1)\', \'chunk_offsets\': "dict{int:0: '
                       "dict{str:'offset': int:20, str:'size': int:40}, int:1: dict{str:'offset': int:80, "
                       'str:\'size\': int:40}}", \'chunks\': \'tuple(int64(1), int:20)\', \'ndim\': '
                       '\'int:2\', \'repr\': "Array(url=\'image-file\', shape=(2, 20), dtype=\'uint16\', '
                       'records_per_chunk=np.int64(1))", \'fields\': "list(str:\'fs\', str:\'url\', '
                       "str:'byte_ranges', str:'shape', str:'dtype', str:'type_code', "
                       'str:\'records_per_chunk\', str:\'chunk_offsets\')", \'byte_ranges is\': True}',
 "as-lists rpc='61B'": '{\'records_per_chunk\': \'int64(2)\', \'chunk_offsets\': "dict{int:0: '
                       'dict{str:\'offset\': int:20, str:\'size\': int:100}}", \'chunks\': \'tuple(int64(2), '
                       'int:20)\', \'ndim\': \'int:2\', \'repr\': "Array(url=\'image-file\', shape=(2, 20), '
                       'dtype=\'uint16\', records_per_chunk=np.int64(2))", \'fields\': "list(str:\'fs\', '
                       "str:'url', str:'byte_ranges', str:'shape', str:'dtype', str:'type_code', "
                       'str:\'records_per_chunk\', str:\'chunk_offsets\')", \'byte_ranges is\': True}',
 "as-lists rpc='80B'": '{\'records_per_chunk\': \'int64(2)\', \'chunk_offsets\': "dict{int:0: '
                       'dict{str:\'offset\': int:20, str:\'size\': int:100}}", \'chunks\': \'tuple(int64(2), '
                       'int:20)\', \'ndim\': \'int:2\', \'repr\': "Array(url=\'image-file\', shape=(2, 20), '
                       'dtype=\'uint16\', records_per_chunk=np.int64(2))", \'fields\': "list(str:\'fs\', '
                       "str:'url', str:'byte_ranges', str:'shape', str:'dtype', str:'type_code', "
                       'str:\'records_per_chunk\', str:\'chunk_offsets\')", \'byte_ranges is\': True}',
 "as-lists rpc='100 B'": '{\'records_per_chunk\': \'int64(2)\', \'chunk_offsets\': "dict{int:0: '
                         'dict{str:\'offset\': int:20, str:\'size\': int:100}}", \'chunks\': '
                         "'tuple(int64(2), int:20)', 'ndim': 'int:2', 'repr': "
                         '"Array(url=\'image-file\', shape=(2, 20), dtype=\'uint16\', '
                         'records_per_chunk=np.int64(2))", \'fields\': "list(str:\'fs\', str:\'url\', '
                         "str:'byte_ranges', str:'shape', str:'dtype', str:'type_code', "
                         'str:\'records_per_chunk\', str:\'chunk_offsets\')", \'byte_ranges is\': True}',
 "as-lists rpc='0.1kB'": '{\'records_per_chunk\': \'int64(2)\', \'chunk_offsets\': "dict{int:0: '
                         'dict{str:\'offset\': int:20, str:\'size\': int:100}}", \'chunks\': '
                         "'tuple(int64(2), int:20)', 'ndim': 'int:2', 'repr': "
                         '"Array(url=\'image-file\', shape=(2, 20), dtype=\'uint16\', '
                         'records_per_chunk=np.int64(2))", \'fields\': "list(str:\'fs\', str:\'url\', '
                         "str:'byte_ranges', str:'shape', str:'dtype', str:'type_code', "
                         'str:\'records_per_chunk\', str:\'chunk_offsets\')", \'byte_ranges is\': True}',
 "as-lists rpc='1kB'": '{\'records_per_chunk\': \'int64(2)\', \'chunk_offsets\': "dict{int:0: '
                       'dict{str:\'offset\': int:20, str:\'size\': int:100}}", \'chunks\': \'tuple(int64(2), '
                       'int:20)\', \'ndim\': \'int:2\', \'repr\': "Array(url=\'image-file\', shape=(2, 20), '
                       'dtype=\'uint16\', records_per_chunk=np.int64(2))", \'fields\': "list(str:\'fs\', '
                       "str:'url', str:'byte_ranges', str:'shape', str:'dtype', str:'type_code', "
                       'str:\'records_per_chunk\', str:\'chunk_offsets\')", \'byte_ranges is\': True}',
 "as-lists rpc='1KiB'": '{\'records_per_chunk\': \'int64(2)\', \'chunk_offsets\': "dict{int:0: '
                        'dict{str:\'offset\': int:20, str:\'size\': int:100}}", \'chunks\': '
                        "'tuple(int64(2), int:20)', 'ndim': 'int:2', 'repr': "
                        '"Array(url=\'image-file\', shape=(2, 20), dtype=\'uint16\', '
                        'records_per_chunk=np.int64(2))", \'fields\': "list(str:\'fs\', str:\'url\', '
                        "str:'byte_ranges', str:'shape', str:'dtype', str:'type_code', "
                        'str:\'records_per_chunk\', str:\'chunk_offsets\')", \'byte_ranges is\': True}',
 "as-lists rpc='1e2'": '{\'records_per_chunk\': \'int64(2)\', \'chunk_offsets\': "dict{int:0: '
                       'dict{str:\'offset\': int:20, str:\'size\': int:100}}", \'chunks\': \'tuple(int64(2), '
                       'int:20)\', \'ndim\': \'int:2\', \'repr\': "Array(url=\'image-file\', shape=(2, 20), '
                       'dtype=\'uint16\', records_per_chunk=np.int64(2))", \'fields\': "list(str:\'fs\', '
                       "str:'url', str:'byte_ranges', str:'shape', str:'dtype', str:'type_code', "
                       'str:\'records_per_chunk\', str:\'chunk_offsets\')", \'byte_ranges is\': True}',
 "as-lists rpc='120'": '{\'records_per_chunk\': \'int64(2)\', \'chunk_offsets\': "dict{int:0: '
                       'dict{str:\'offset\': int:20, str:\'size\': int:100}}", \'chunks\': \'tuple(int64(2), '
                       'int:20)\', \'ndim\': \'int:2\', \'repr\': "Array(url=\'image-file\', shape=(2, 20), '
                       'dtype=\'uint16\', records_per_chunk=np.int64(2))", \'fields\': "list(str:\'fs\', '
                       "str:'url', str:'byte_ranges', str:'shape', str:'dtype', str:'type_code', "
                       'str:\'records_per_chunk\', str:\'chunk_offsets\')", \'byte_ranges is\': True}',
 "as-lists rpc='2'": '{\'records_per_chunk\': \'int64(1)\', \'chunk_offsets\': "dict{int:0: '
                     "dict{str:'offset': int:20, str:'size': int:40}, int:1: dict{str:'offset': int:80, "
                     'str:\'size\': int:40}}", \'chunks\': \'tuple(int64(1), int:20)\', \'ndim\': \'int:2\', '
                     '\'repr\': "Array(url=\'image-file\', shape=(2, 20), dtype=\'uint16\', '
                     'records_per_chunk=np.int64(1))", \'fields\': "list(str:\'fs\', str:\'url\', '
                     "str:'byte_ranges', str:'shape', str:'dtype', str:'type_code', str:'records_per_chunk', "
                     'str:\'chunk_offsets\')", \'byte_ranges is\': True}',
 "as-lists rpc='0'": '{\'records_per_chunk\': \'int64(1)\', \'chunk_offsets\': "dict{int:0: '
                     "dict{str:'offset': int:20, str:'size': int:40}, int:1: dict{str:'offset': int:80, "
                     'str:\'size\': int:40}}", \'chunks\': \'tuple(int64(1), int:20)\', \'ndim\': \'int:2\', '
                     '\'repr\': "Array(url=\'image-file\', shape=(2, 20), dtype=\'uint16\', '
                     'records_per_chunk=np.int64(1))", \'fields\': "list(str:\'fs\', str:\'url\', '
                     "str:'byte_ranges', str:'shape', str:'dtype', str:'type_code', str:'records_per_chunk', "
                     'str:\'chunk_offsets\')", \'byte_ranges is\': True}',
 "as-lists rpc='-1'": '{\'records_per_chunk\': \'int64(1)\', \'chunk_offsets\': "dict{int:0: '
                      "dict{str:'offset': int:20, str:'size': int:40}, int:1: dict{str:'offset': int:80, "
                      'str:\'size\': int:40}}", \'chunks\': \'tuple(int64(1), int:20)\', \'ndim\': '
                      '\'int:2\', \'repr\': "Array(url=\'image-file\', shape=(2, 20), dtype=\'uint16\', '
                      'records_per_chunk=np.int64(1))", \'fields\': "list(str:\'fs\', str:\'url\', '
                      "str:'byte_ranges', str:'shape', str:'dtype', str:'type_code', "
                      'str:\'records_per_chunk\', str:\'chunk_offsets\')", \'byte_ranges is\': True}',
 "as-lists rpc='-80B'": '{\'records_per_chunk\': \'int64(1)\', \'chunk_offsets\': "dict{int:0: '
                        "dict{str:'offset': int:20, str:'size': int:40}, int:1: dict{str:'offset': int:80, "
                        'str:\'size\': int:40}}", \'chunks\': \'tuple(int64(1), int:20)\', \'ndim\': '
                        '\'int:2\', \'repr\': "Array(url=\'image-file\', shape=(2, 20), dtype=\'uint16\', '
                        'records_per_chunk=np.int64(1))", \'fields\': "list(str:\'fs\', str:\'url\', '
                        "str:'byte_ranges', str:'shape', str:'dtype', str:'type_code', "
                        'str:\'records_per_chunk\', str:\'chunk_offsets\')", \'byte_ranges is\': True}',
 "as-lists rpc='5GB'": '{\'records_per_chunk\': \'int64(2)\', \'chunk_offsets\': "dict{int:0: '
                       'dict{str:\'offset\': int:20, str:\'size\': int:100}}", \'chunks\': \'tuple(int64(2), '
                       'int:20)\', \'ndim\': \'int:2\', \'repr\': "Array(url=\'image-file\', shape=(2, 20), '
                       'dtype=\'uint16\', records_per_chunk=np.int64(2))", \'fields\': "list(str:\'fs\', '
                       "str:'url', str:'byte_ranges', str:'shape', str:'dtype', str:'type_code', "
                       'str:\'records_per_chunk\', str:\'chunk_offsets\')", \'byte_ranges is\': True}',
 "as-lists rpc='MB'": '{\'records_per_chunk\': \'int64(2)\', \'chunk_offsets\': "dict{int:0: '
                      'dict{str:\'offset\': int:20, str:\'size\': int:100}}", \'chunks\': \'tuple(int64(2), '
                      'int:20)\', \'ndim\': \'int:2\', \'repr\': "Array(url=\'image-file\', shape=(2, 20), '
                      'dtype=\'uint16\', records_per_chunk=np.int64(2))", \'fields\': "list(str:\'fs\', '
                      "str:'url', str:'byte_ranges', str:'shape', str:'dtype', str:'type_code', "
                      'str:\'records_per_chunk\', str:\'chunk_offsets\')", \'byte_ranges is\': True}',
 "as-lists rpc=''": '{\'records_per_chunk\': \'int64(1)\', \'chunk_offsets\': "dict{int:0: '
                    "dict{str:'offset': int:20, str:'size': int:40}, int:1: dict{str:'offset': int:80, "
                    'str:\'size\': int:40}}", \'chunks\': \'tuple(int64(1), int:20)\', \'ndim\': \'int:2\', '
                    '\'repr\': "Array(url=\'image-file\', shape=(2, 20), dtype=\'uint16\', '
                    'records_per_chunk=np.int64(1))", \'fields\': "list(str:\'fs\', str:\'url\', '
                    "str:'byte_ranges', str:'shape', str:'dtype', str:'type_code', str:'records_per_chunk', "
                    'str:\'chunk_offsets\')", \'byte_ranges is\': True}',
 "as-lists rpc='B'": '{\'records_per_chunk\': \'int64(1)\', \'chunk_offsets\': "dict{int:0: '
                     "dict{str:'offset': int:20, str:'size': int:40}, int:1: dict{str:'offset': int:80, "
                     'str:\'size\': int:40}}", \'chunks\': \'tuple(int64(1), int:20)\', \'ndim\': \'int:2\', '
                     '\'repr\': "Array(url=\'image-file\', shape=(2, 20), dtype=\'uint16\', '
                     'records_per_chunk=np.int64(1))", \'fields\': "list(str:\'fs\', str:\'url\', '
                     "str:'byte_ranges', str:'shape', str:'dtype', str:'type_code', str:'records_per_chunk', "
                     'str:\'chunk_offsets\')", \'byte_ranges is\': True}',
 "as-lists rpc='5 foos'": "raise builtins.ValueError: Could not interpret 'foos' as a byte unit",
 "as-lists rpc='abc'": "raise builtins.ValueError: Could not interpret 'abc' as a byte unit",
 "as-lists rpc='1.2.3B'": "raise builtins.ValueError: Could not interpret '1.2.3' as a number",
 "as-lists rpc=Text('80B')": '{\'records_per_chunk\': \'int64(2)\', \'chunk_offsets\': "dict{int:0: '
                             'dict{str:\'offset\': int:20, str:\'size\': int:100}}", \'chunks\': '
                             "'tuple(int64(2), int:20)', 'ndim': 'int:2', 'repr': "
                             '"Array(url=\'image-file\', shape=(2, 20), dtype=\'uint16\', '
                             'records_per_chunk=np.int64(2))", \'fields\': "list(str:\'fs\', str:\'url\', '
                             "str:'byte_ranges', str:'shape', str:'dtype', str:'type_code', "
                             'str:\'records_per_chunk\', str:\'chunk_offsets\')", \'byte_ranges is\': True}',
 "as-lists rpc=b'auto'": "raise builtins.TypeError: '>' not supported between instances of 'bytes' and 'int'",
 "as-lists rpc=b'80B'": "raise builtins.TypeError: '>' not supported between instances of 'bytes' and 'int'",
 'as-lists rpc=[2]': "raise builtins.TypeError: '>' not supported between instances of 'list' and 'int'",
 'as-lists rpc=(2,)': "raise builtins.TypeError: '>' not supported between instances of 'tuple' and 'int'",
 'as-lists rpc={}': "raise builtins.TypeError: '>' not supported between instances of 'dict' and 'int'",
 'as-lists rpc=2j': "raise builtins.TypeError: '>' not supported between instances of 'complex' and 'int'",
 'as-lists rpc=object': "raise builtins.TypeError: '>' not supported between instances of 'type' and 'int'",
 'as-lists rpc not given': '{\'records_per_chunk\': \'int:1024\', \'chunk_offsets\': "dict{int:0: '
                           'dict{str:\'offset\': int:20, str:\'size\': int:100}}", \'chunks\': '
                           "'tuple(int:1024, int:20)', 'ndim': 'int:2', 'repr': "
                           '"Array(url=\'image-file\', shape=(2, 20), dtype=\'uint16\', '
                           'records_per_chunk=1024)", \'fields\': "list(str:\'fs\', str:\'url\', '
                           "str:'byte_ranges', str:'shape', str:'dtype', str:'type_code', "
                           'str:\'records_per_chunk\', str:\'chunk_offsets\')", \'byte_ranges is\': True}',
 'float-ranges rpc=None': '{\'records_per_chunk\': \'int:1024\', \'chunk_offsets\': "dict{int:0: '
                          'dict{str:\'offset\': float:0.0, str:\'size\': float:80.5}}", \'chunks\': '
                          "'tuple(int:1024, int:20)', 'ndim': 'int:2', 'repr': "
                          '"Array(url=\'image-file\', shape=(2, 20), dtype=\'uint16\', '
                          'records_per_chunk=1024)", \'fields\': "list(str:\'fs\', str:\'url\', '
                          "str:'byte_ranges', str:'shape', str:'dtype', str:'type_code', "
                          'str:\'records_per_chunk\', str:\'chunk_offsets\')", \'byte_ranges is\': True}',
 'float-ranges rpc=1': '{\'records_per_chunk\': \'int:1\', \'chunk_offsets\': "dict{int:0: '
                       "dict{str:'offset': float:0.0, str:'size': float:40.0}, int:1: dict{str:'offset': "
                       'float:40.5, str:\'size\': float:40.0}}", \'chunks\': \'tuple(int:1, int:20)\', '
                       '\'ndim\': \'int:2\', \'repr\': "Array(url=\'image-file\', shape=(2, 20), '
                       'dtype=\'uint16\', records_per_chunk=1)", \'fields\': "list(str:\'fs\', str:\'url\', '
                       "str:'byte_ranges', str:'shape', str:'dtype', str:'type_code', "
                       'str:\'records_per_chunk\', str:\'chunk_offsets\')", \'byte_ranges is\': True}',
 'float-ranges rpc=2': '{\'records_per_chunk\': \'int:2\', \'chunk_offsets\': "dict{int:0: '
                       'dict{str:\'offset\': float:0.0, str:\'size\': float:80.5}}", \'chunks\': '
                       '\'tuple(int:2, int:20)\', \'ndim\': \'int:2\', \'repr\': "Array(url=\'image-file\', '
                       'shape=(2, 20), dtype=\'uint16\', records_per_chunk=2)", \'fields\': '
                       '"list(str:\'fs\', str:\'url\', str:\'byte_ranges\', str:\'shape\', str:\'dtype\', '
                       'str:\'type_code\', str:\'records_per_chunk\', str:\'chunk_offsets\')", \'byte_ranges '
                       "is': True}",
 'float-ranges rpc=3': '{\'records_per_chunk\': \'int:2\', \'chunk_offsets\': "dict{int:0: '
                       'dict{str:\'offset\': float:0.0, str:\'size\': float:80.5}}", \'chunks\': '
                       '\'tuple(int:2, int:20)\', \'ndim\': \'int:2\', \'repr\': "Array(url=\'image-file\', '
                       'shape=(2, 20), dtype=\'uint16\', records_per_chunk=2)", \'fields\': '
                       '"list(str:\'fs\', str:\'url\', str:\'byte_ranges\', str:\'shape\', str:\'dtype\', '
                       'str:\'type_code\', str:\'records_per_chunk\', str:\'chunk_offsets\')", \'byte_ranges '
                       "is': True}",
 'float-ranges rpc=4': '{\'records_per_chunk\': \'int:2\', \'chunk_offsets\': "dict{int:0: '
                       'dict{str:\'offset\': float:0.0, str:\'size\': float:80.5}}", \'chunks\': '
                       '\'tuple(int:2, int:20)\', \'ndim\': \'int:2\', \'repr\': "Array(url=\'image-file\', '
                       'shape=(2, 20), dtype=\'uint16\', records_per_chunk=2)", \'fields\': '
                       '"list(str:\'fs\', str:\'url\', str:\'byte_ranges\', str:\'shape\', str:\'dtype\', '
                       'str:\'type_code\', str:\'records_per_chunk\', str:\'chunk_offsets\')", \'byte_ranges '
                       "is': True}",
 'float-ranges rpc=5': '{\'records_per_chunk\': \'int:2\', \'chunk_offsets\': "dict{int:0: '
                       'dict{str:\'offset\': float:0.0, str:\'size\': float:80.5}}", \'chunks\': '
                       '\'tuple(int:2, int:20)\', \'ndim\': \'int:2\', \'repr\': "Array(url=\'image-file\', '
                       'shape=(2, 20), dtype=\'uint16\', records_per_chunk=2)", \'fields\': '
                       '"list(str:\'fs\', str:\'url\', str:\'byte_ranges\', str:\'shape\', str:\'dtype\', '
                       'str:\'type_code\', str:\'records_per_chunk\', str:\'chunk_offsets\')", \'byte_ranges '
                       "is': True}",
 'float-ranges rpc=6': '{\'records_per_chunk\': \'int:2\', \'chunk_offsets\': "dict{int:0: '
                       'dict{str:\'offset\': float:0.0, str:\'size\': float:80.5}}", \'chunks\': '
                       '\'tuple(int:2, int:20)\', \'ndim\': \'int:2\', \'repr\': "Array(url=\'image-file\', '
                       'shape=(2, 20), dtype=\'uint16\', records_per_chunk=2)", \'fields\': '
                       '"list(str:\'fs\', str:\'url\', str:\'byte_ranges\', str:\'shape\', str:\'dtype\', '
                       'str:\'type_code\', str:\'records_per_chunk\', str:\'chunk_offsets\')", \'byte_ranges '
                       "is': True}",
 'float-ranges rpc=1024': '{\'records_per_chunk\': \'int:2\', \'chunk_offsets\': "dict{int:0: '
                          'dict{str:\'offset\': float:0.0, str:\'size\': float:80.5}}", \'chunks\': '
                          "'tuple(int:2, int:20)', 'ndim': 'int:2', 'repr': "
                          '"Array(url=\'image-file\', shape=(2, 20), dtype=\'uint16\', '
                          'records_per_chunk=2)", \'fields\': "list(str:\'fs\', str:\'url\', '
                          "str:'byte_ranges', str:'shape', str:'dtype', str:'type_code', "
                          'str:\'records_per_chunk\', str:\'chunk_offsets\')", \'byte_ranges is\': True}',
 'float-ranges rpc=-1': '{\'records_per_chunk\': \'int:2\', \'chunk_offsets\': "dict{int:0: '
                        'dict{str:\'offset\': float:0.0, str:\'size\': float:80.5}}", \'chunks\': '
                        '\'tuple(int:2, int:20)\', \'ndim\': \'int:2\', \'repr\': "Array(url=\'image-file\', '
                        'shape=(2, 20), dtype=\'uint16\', records_per_chunk=2)", \'fields\': '
                        '"list(str:\'fs\', str:\'url\', str:\'byte_ranges\', str:\'shape\', str:\'dtype\', '
                        'str:\'type_code\', str:\'records_per_chunk\', str:\'chunk_offsets\')", '
                        "'byte_ranges is': True}",
 'float-ranges rpc=True': '{\'records_per_chunk\': \'bool:True\', \'chunk_offsets\': "dict{int:0: '
                          "dict{str:'offset': float:0.0, str:'size': float:40.0}, int:1: dict{str:'offset': "
                          'float:40.5, str:\'size\': float:40.0}}", \'chunks\': \'tuple(bool:True, '
                          'int:20)\', \'ndim\': \'int:2\', \'repr\': "Array(url=\'image-file\', shape=(2, '
                          '20), dtype=\'uint16\', records_per_chunk=True)", \'fields\': "list(str:\'fs\', '
                          "str:'url', str:'byte_ranges', str:'shape', str:'dtype', str:'type_code', "
                          'str:\'records_per_chunk\', str:\'chunk_offsets\')", \'byte_ranges is\': True}',
 'float-ranges rpc=np.int64(2)': '{\'records_per_chunk\': \'int64(2)\', \'chunk_offsets\': "dict{int:0: '
                                 'dict{str:\'offset\': float:0.0, str:\'size\': float:80.5}}", \'chunks\': '
                                 "'tuple(int64(2), int:20)', 'ndim': 'int:2', 'repr': "
                                 '"Array(url=\'image-file\', shape=(2, 20), dtype=\'uint16\', '
                                 'records_per_chunk=np.int64(2))", \'fields\': "list(str:\'fs\', '
                                 "str:'url', str:'byte_ranges', str:'shape', str:'dtype', str:'type_code', "
                                 'str:\'records_per_chunk\', str:\'chunk_offsets\')", \'byte_ranges is\': '
                                 'True}',
 'float-ranges rpc=np.int64(-1)': '{\'records_per_chunk\': \'int:2\', \'chunk_offsets\': "dict{int:0: '
                                  'dict{str:\'offset\': float:0.0, str:\'size\': float:80.5}}", \'chunks\': '
                                  "'tuple(int:2, int:20)', 'ndim': 'int:2', 'repr': "
                                  '"Array(url=\'image-file\', shape=(2, 20), dtype=\'uint16\', '
                                  'records_per_chunk=2)", \'fields\': "list(str:\'fs\', str:\'url\', '
                                  "str:'byte_ranges', str:'shape', str:'dtype', str:'type_code', "
                                  'str:\'records_per_chunk\', str:\'chunk_offsets\')", \'byte_ranges is\': '
                                  'True}',
 'float-ranges rpc=np.uint8(9)': '{\'records_per_chunk\': \'int:2\', \'chunk_offsets\': "dict{int:0: '
                                 'dict{str:\'offset\': float:0.0, str:\'size\': float:80.5}}", \'chunks\': '
                                 "'tuple(int:2, int:20)', 'ndim': 'int:2', 'repr': "
                                 '"Array(url=\'image-file\', shape=(2, 20), dtype=\'uint16\', '
                                 'records_per_chunk=2)", \'fields\': "list(str:\'fs\', str:\'url\', '
                                 "str:'byte_ranges', str:'shape', str:'dtype', str:'type_code', "
                                 'str:\'records_per_chunk\', str:\'chunk_offsets\')", \'byte_ranges is\': '
                                 'True}',
 'float-ranges rpc=IntLike(2)': "{'records_per_chunk': 'IntLike:IntLike(2)', 'chunk_offsets': "
                                '"dict{int:0: dict{str:\'offset\': float:0.0, str:\'size\': float:80.5}}", '
                                "'chunks': 'tuple(IntLike:IntLike(2), int:20)', 'ndim': 'int:2', 'repr': "
                                '"Array(url=\'image-file\', shape=(2, 20), dtype=\'uint16\', '
                                'records_per_chunk=IntLike(2))", \'fields\': "list(str:\'fs\', str:\'url\', '
                                "str:'byte_ranges', str:'shape', str:'dtype', str:'type_code', "
                                'str:\'records_per_chunk\', str:\'chunk_offsets\')", \'byte_ranges is\': '
                                'True}',
 'float-ranges rpc=IntLike(-1)': '{\'records_per_chunk\': \'int:2\', \'chunk_offsets\': "dict{int:0: '
                                 'dict{str:\'offset\': float:0.0, str:\'size\': float:80.5}}", \'chunks\': '
                                 "'tuple(int:2, int:20)', 'ndim': 'int:2', 'repr': "
                                 '"Array(url=\'image-file\', shape=(2, 20), dtype=\'uint16\', '
                                 'records_per_chunk=2)", \'fields\': "list(str:\'fs\', str:\'url\', '
                                 "str:'byte_ranges', str:'shape', str:'dtype', str:'type_code', "
                                 'str:\'records_per_chunk\', str:\'chunk_offsets\')", \'byte_ranges is\': '
                                 'True}',
 'float-ranges rpc=IntLike(99)': '{\'records_per_chunk\': \'int:2\', \'chunk_offsets\': "dict{int:0: '
                                 'dict{str:\'offset\': float:0.0, str:\'size\': float:80.5}}", \'chunks\': '
                                 "'tuple(int:2, int:20)', 'ndim': 'int:2', 'repr': "
                                 '"Array(url=\'image-file\', shape=(2, 20), dtype=\'uint16\', '
                                 'records_per_chunk=2)", \'fields\': "list(str:\'fs\', str:\'url\', '
                                 "str:'byte_ranges', str:'shape', str:'dtype', str:'type_code', "
                                 'str:\'records_per_chunk\', str:\'chunk_offsets\')", \'byte_ranges is\': '
                                 'True}',
 'float-ranges rpc=Fraction(2)': "raise builtins.TypeError: can't multiply sequence by non-int of type "
                                 "'Fraction'",
 'float-ranges rpc=2.0': "raise builtins.TypeError: can't multiply sequence by non-int of type 'float'",
 'float-ranges rpc=nan': "raise builtins.TypeError: can't multiply sequence by non-int of type 'float'",
 'float-ranges rpc=inf': '{\'records_per_chunk\': \'int:2\', \'chunk_offsets\': "dict{int:0: '
                         'dict{str:\'offset\': float:0.0, str:\'size\': float:80.5}}", \'chunks\': '
                         "'tuple(int:2, int:20)', 'ndim': 'int:2', 'repr': "
                         '"Array(url=\'image-file\', shape=(2, 20), dtype=\'uint16\', records_per_chunk=2)", '
                         '\'fields\': "list(str:\'fs\', str:\'url\', str:\'byte_ranges\', str:\'shape\', '
                         "str:'dtype', str:'type_code', str:'records_per_chunk', "
                         'str:\'chunk_offsets\')", \'byte_ranges is\': True}',
 "float-ranges rpc='auto'": '{\'records_per_chunk\': \'int64(2)\', \'chunk_offsets\': "dict{int:0: '
                            'dict{str:\'offset\': float:0.0, str:\'size\': float:80.5}}", \'chunks\': '
                            "'tuple(int64(2), int:20)', 'ndim': 'int:2', 'repr': "
                            '"Array(url=\'image-file\', shape=(2, 20), dtype=\'uint16\', '
                            'records_per_chunk=np.int64(2))", \'fields\': "list(str:\'fs\', str:\'url\', '
                            "str:'byte_ranges', str:'shape', str:'dtype', str:'type_code', "
                            'str:\'records_per_chunk\', str:\'chunk_offsets\')", \'byte_ranges is\': True}',
 "float-ranges rpc=Text('auto')": '{\'records_per_chunk\': \'int64(2)\', \'chunk_offsets\': "dict{int:0: '
                                  'dict{str:\'offset\': float:0.0, str:\'size\': float:80.5}}", \'chunks\': '
                                  "'tuple(int64(2), int:20)', 'ndim': 'int:2', 'repr': "
                                  '"Array(url=\'image-file\', shape=(2, 20), dtype=\'uint16\', '
                                  'records_per_chunk=np.int64(2))", \'fields\': "list(str:\'fs\', '
                                  "str:'url', str:'byte_ranges', str:'shape', str:'dtype', str:'type_code', "
                                  'str:\'records_per_chunk\', str:\'chunk_offsets\')", \'byte_ranges is\': '
                                  'True}',
 "float-ranges rpc='AUTO'": "raise builtins.ValueError: Could not interpret 'AUTO' as a byte unit",
 "float-ranges rpc=' auto'": "raise builtins.ValueError: Could not interpret 'auto' as a byte unit",
 "float-ranges rpc='1B'": '{\'records_per_chunk\': \'int64(1)\', \'chunk_offsets\': "dict{int:0: '
                          "dict{str:'offset': float:0.0, str:'size': float:40.0}, int:1: dict{str:'offset': "
                          'float:40.5, str:\'size\': float:40.0}}", \'chunks\': \'tuple(int64(1), int:20)\', '
                          '\'ndim\': \'int:2\', \'repr\': "Array(url=\'image-file\', shape=(2, 20), '
                          'dtype=\'uint16\', records_per_chunk=np.int64(1))", \'fields\': "list(str:\'fs\', '
                          "str:'url', str:'byte_ranges', str:'shape', str:'dtype', str:'type_code', "
                          'str:\'records_per_chunk\', str:\'chunk_offsets\')", \'byte_ranges is\': True}',
 "float-ranges rpc='39B'": '{\'records_per_chunk\': \'int64(1)\', \'chunk_offsets\': "dict{int:0: '
                           "dict{str:'offset': float:0.0, str:'size': float:40.0}, int:1: dict{str:'offset': "
                           'float:40.5, str:\'size\': float:40.0}}", \'chunks\': \'tuple(int64(1), '
                           'int:20)\', \'ndim\': \'int:2\', \'repr\': "Array(url=\'image-file\', shape=(2, '
                           '20), dtype=\'uint16\', records_per_chunk=np.int64(1))", \'fields\': '
                           '"list(str:\'fs\', str:\'url\', str:\'byte_ranges\', str:\'shape\', '
                           "str:'dtype', str:'type_code', str:'records_per_chunk', "
                           'str:\'chunk_offsets\')", \'byte_ranges is\': True}',
 "float-ranges rpc='40B'": '{\'records_per_chunk\': \'int64(1)\', \'chunk_offsets\': "dict{int:0: '
                           "dict{str:'offset': float:0.0, str:'size': float:40.0}, int:1: dict{str:'offset': "
                           'float:40.5, str:\'size\': float:40.0}}", \'chunks\': \'tuple(int64(1), '
                           'int:20)\', \'ndim\': \'int:2\', \'repr\': "Array(url=\'image-file\', shape=(2, '
                           '20), dtype=\'uint16\', records_per_chunk=np.int64(1))", \'fields\': '
                           '"list(str:\'fs\', str:\'url\', str:\'byte_ranges\', str:\'shape\', '
                           "str:'dtype', str:'type_code', str:'records_per_chunk', "
                           'str:\'chunk_offsets\')", \'byte_ranges is\': True}',
 "float-ranges rpc='60B'": '{\'records_per_chunk\': \'int64(1)\', \'chunk_offsets\': "dict{int:0: '
                           "dict{str:'offset': float:0.0, str:'size': float:40.0}, int:1: dict{str:'offset': "
                           'float:40.5, str:\'size\': float:40.0}}", \'chunks\': \'tuple(int64(1), '
                           'int:20)\', \'ndim\': \'int:2\', \'repr\': "Array(url=\'image-file\', shape=(2, '
                           '20), dtype=\'uint16\', records_per_chunk=np.int64(1))", \'fields\': '
                           '"list(str:\'fs\', str:\'url\', str:\'byte_ranges\', str:\'shape\', '
                           "str:'dtype', str:'type_code', str:'records_per_chunk', "
                           'str:\'chunk_offsets\')", \'byte_ranges is\': True}',
 "float-ranges rpc='61B'": '{\'records_per_chunk\': \'int64(2)\', \'chunk_offsets\': "dict{int:0: '
                           'dict{str:\'offset\': float:0.0, str:\'size\': float:80.5}}", \'chunks\': '
                           "'tuple(int64(2), int:20)', 'ndim': 'int:2', 'repr': "
                           '"Array(url=\'image-file\', shape=(2, 20), dtype=\'uint16\', '
                           'records_per_chunk=np.int64(2))", \'fields\': "list(str:\'fs\', str:\'url\', '
                           "str:'byte_ranges', str:'shape', str:'dtype', str:'type_code', "
                           'str:\'records_per_chunk\', str:\'chunk_offsets\')", \'byte_ranges is\': True}',
 "float-ranges rpc='80B'": '{\'records_per_chunk\': \'int64(2)\', \'chunk_offsets\': "dict{int:0: '
                           'dict{str:\'offset\': float:0.0, str:\'size\': float:80.5}}", \'chunks\': '
                           "'tuple(int64(2), int:20)', 'ndim': 'int:2', 'repr': "
                           '"Array(url=\'image-file\', shape=(2, 20), dtype=\'uint16\', '
                           'records_per_chunk=np.int64(2))", \'fields\': "list(str:\'fs\', str:\'url\', '
                           "str:'byte_ranges', str:'shape', str:'dtype', str:'type_code', "
                           'str:\'records_per_chunk\', str:\'chunk_offsets\')", \'byte_ranges is\': True}',
 "float-ranges rpc='100 B'": '{\'records_per_chunk\': \'int64(2)\', \'chunk_offsets\': "dict{int:0: '
                             'dict{str:\'offset\': float:0.0, str:\'size\': float:80.5}}", \'chunks\': '
                             "'tuple(int64(2), int:20)', 'ndim': 'int:2', 'repr': "
                             '"Array(url=\'image-file\', shape=(2, 20), dtype=\'uint16\', '
                             'records_per_chunk=np.int64(2))", \'fields\': "list(str:\'fs\', str:\'url\', '
                             "str:'byte_ranges', str:'shape', str:'dtype', str:'type_code', "
                             'str:\'records_per_chunk\', str:\'chunk_offsets\')", \'byte_ranges is\': True}',
 "float-ranges rpc='0.1kB'": '{\'records_per_chunk\': \'int64(2)\', \'chunk_offsets\': "dict{int:0: '
                             'dict{str:\'offset\': float:0.0, str:\'size\': float:80.5}}", \'chunks\': '
                             "'tuple(int64(2), int:20)', 'ndim': 'int:2', 'repr': "
                             '"Array(url=\'image-file\', shape=(2, 20), dtype=\'uint16\', '
                             'records_per_chunk=np.int64(2))", \'fields\': "list(str:\'fs\', str:\'url\', '
                             "str:'byte_ranges', str:'shape', str:'dtype', str:'type_code', "
                             'str:\'records_per_chunk\', str:\'chunk_offsets\')", \'byte_ranges is\': True}',
 "float-ranges rpc='1kB'": '{\'records_per_chunk\': \'int64(2)\', \'chunk_offsets\': "dict{int:0: '
                           'dict{str:\'offset\': float:0.0, str:\'size\': float:80.5}}", \'chunks\': '
                           "'tuple(int64(2), int:20)', 'ndim': 'int:2', 'repr': "
                           '"Array(url=\'image-file\', shape=(2, 20), dtype=\'uint16\', '
                           'records_per_chunk=np.int64(2))", \'fields\': "list(str:\'fs\', str:\'url\', '
                           "str:'byte_ranges', str:'shape', str:'dtype', str:'type_code', "
                           'str:\'records_per_chunk\', str:\'chunk_offsets\')", \'byte_ranges is\': True}',
 "float-ranges rpc='1KiB'": '{\'records_per_chunk\': \'int64(2)\', \'chunk_offsets\': "dict{int:0: '
                            'dict{str:\'offset\': float:0.0, str:\'size\': float:80.5}}", \'chunks\': '
                            "'tuple(int64(2), int:20)', 'ndim': 'int:2', 'repr': "
                            '"Array(url=\'image-file\', shape=(2, 20), dtype=\'uint16\', '
                            'records_per_chunk=np.int64(2))", \'fields\': "list(str:\'fs\', str:\'url\', '
                            "str:'byte_ranges', str:'shape', str:'dtype', str:'type_code', "
                            'str:\'records_per_chunk\', str:\'chunk_offsets\')", \'byte_ranges is\': True}',
 "float-ranges rpc='1e2'": '{\'records_per_chunk\': \'int64(2)\', \'chunk_offsets\': "dict{int:0: '
                           'dict{str:\'offset\': float:0.0, str:\'size\': float:80.5}}", \'chunks\': '
                           "'tuple(int64(2), int:20)', 'ndim': 'int:2', 'repr': "
                           '"Array(url=\'image-file\', shape=(2, 20), dtype=\'uint16\', '
                           'records_per_chunk=np.int64(2))", \'fields\': "list(str:\'fs\', str:\'url\', '
                           "str:'byte_ranges', str:'shape', str:'dtype', str:'type_code', "
                           'str:\'records_per_chunk\', str:\'chunk_offsets\')", \'byte_ranges is\': True}',
 "float-ranges rpc='120'": '{\'records_per_chunk\': \'int64(2)\', \'chunk_offsets\': "dict{int:0: '
                           'dict{str:\'offset\': float:0.0, str:\'size\': float:80.5}}", \'chunks\': '
                           "'tuple(int64(2), int:20)', 'ndim': 'int:2', 'repr': "
                           '"Array(url=\'image-file\', shape=(2, 20), dtype=\'uint16\', '
                           'records_per_chunk=np.int64(2))", \'fields\': "list(str:\'fs\', str:\'url\', '
                           "str:'byte_ranges', str:'shape', str:'dtype', str:'type_code', "
                           'str:\'records_per_chunk\', str:\'chunk_offsets\')", \'byte_ranges is\': True}',
 "float-ranges rpc='2'": '{\'records_per_chunk\': \'int64(1)\', \'chunk_offsets\': "dict{int:0: '
                         "dict{str:'offset': float:0.0, str:'size': float:40.0}, int:1: dict{str:'offset': "
                         'float:40.5, str:\'size\': float:40.0}}", \'chunks\': \'tuple(int64(1), int:20)\', '
                         '\'ndim\': \'int:2\', \'repr\': "Array(url=\'image-file\', shape=(2, 20), '
                         'dtype=\'uint16\', records_per_chunk=np.int64(1))", \'fields\': "list(str:\'fs\', '
                         "str:'url', str:'byte_ranges', str:'shape', str:'dtype', str:'type_code', "
                         'str:\'records_per_chunk\', str:\'chunk_offsets\')", \'byte_ranges is\': True}',
 "float-ranges rpc='0'": '{\'records_per_chunk\': \'int64(1)\', \'chunk_offsets\': "dict{int:0: '
                         "dict{str:'offset': float:0.0, str:'size': float:40.0}, int:1: dict{str:'offset': "
                         'float:40.5, str:\'size\': float:40.0}}", \'chunks\': \'tuple(int64(1), int:20)\', '
                         '\'ndim\': \'int:2\', \'repr\': "Array(url=\'image-file\', shape=(2, 20), '
                         'dtype=\'uint16\', records_per_chunk=np.int64(1))", \'fields\': "list(str:\'fs\', '
                         "str:'url', str:'byte_ranges', str:'shape', str:'dtype', str:'type_code', "
                         'str:\'records_per_chunk\', str:\'chunk_offsets\')", \'byte_ranges is\': True}',
 "float-ranges rpc='-1'": '{\'records_per_chunk\': \'int64(1)\', \'chunk_offsets\': "dict{int:0: '
                          "dict{str:'offset': float:0.0, str:'size': float:40.0}, int:1: dict{str:'offset': "
                          'float:40.5, str:\'size\': float:40.0}}", \'chunks\': \'tuple(int64(1), int:20)\', '
                          '\'ndim\': \'int:2\', \'repr\': "Array(url=\'image-file\', shape=(2, 20), '
                          'dtype=\'uint16\', records_per_chunk=np.int64(1))", \'fields\': "list(str:\'fs\', '
                          "str:'url', str:'byte_ranges', str:'shape', str:'dtype', str:'type_code', "
                          'str:\'records_per_chunk\', str:\'chunk_offsets\')", \'byte_ranges is\': True}',
 "float-ranges rpc='-80B'": '{\'records_per_chunk\': \'int64(1)\', \'chunk_offsets\': "dict{int:0: '
                            "dict{str:'offset': float:0.0, str:'size': float:40.0}, int:1: "
                            'dict{str:\'offset\': float:40.5, str:\'size\': float:40.0}}", \'chunks\': '
                            "'tuple(int64(1), int:20)', 'ndim': 'int:2', 'repr': "
                            '"Array(url=\'image-file\', shape=(2, 20), dtype=\'uint16\', '
                            'records_per_chunk=np.int64(1))", \'fields\': "list(str:\'fs\', str:\'url\', '
                            "str:'byte_ranges', str:'shape', str:'dtype', str:'type_code', "
                            'str:\'records_per_chunk\', str:\'chunk_offsets\')", \'byte_ranges is\': True}',
 "float-ranges rpc='5GB'": '{\'records_per_chunk\': \'int64(2)\', \'chunk_offsets\': "dict{int:0: '
                           'dict{str:\'offset\': float:0.0, str:\'size\': float:80.5}}", \'chunks\': '
                           "'tuple(int64(2), int:20)', 'ndim': 'int:2', 'repr': "
                           '"Array(url=\'image-file\', shape=(2, 20), dtype=\'uint16\', '
                           'records_per_chunk=np.int64(2))", \'fields\': "list(str:\'fs\', str:\'url\', '
                           "str:'byte_ranges', str:'shape', str:'dtype', str:'type_code', "
                           'str:\'records_per_chunk\', str:\'chunk_offsets\')", \'byte_ranges is\': True}',
 "float-ranges rpc='MB'": '{\'records_per_chunk\': \'int64(2)\', \'chunk_offsets\': "dict{int:0: '
                          'dict{str:\'offset\': float:0.0, str:\'size\': float:80.5}}", \'chunks\': '
                          "'tuple(int64(2), int:20)', 'ndim': 'int:2', 'repr': "
                          '"Array(url=\'image-file\', shape=(2, 20), dtype=\'uint16\', '
                          'records_per_chunk=np.int64(2))", \'fields\': "list(str:\'fs\', str:\'url\', '
                          "str:'byte_ranges', str:'shape', str:'dtype', str:'type_code', "
                          'str:\'records_per_chunk\', str:\'chunk_offsets\')", \'byte_ranges is\': True}',
 "float-ranges rpc=''": '{\'records_per_chunk\': \'int64(1)\', \'chunk_offsets\': "dict{int:0: '
                        "dict{str:'offset': float:0.0, str:'size': float:40.0}, int:1: dict{str:'offset': "
                        'float:40.5, str:\'size\': float:40.0}}", \'chunks\': \'tuple(int64(1), int:20)\', '
                        '\'ndim\': \'int:2\', \'repr\': "Array(url=\'image-file\', shape=(2, 20), '
                        'dtype=\'uint16\', records_per_chunk=np.int64(1))", \'fields\': "list(str:\'fs\', '
                        "str:'url', str:'byte_ranges', str:'shape', str:'dtype', str:'type_code', "
                        'str:\'records_per_chunk\', str:\'chunk_offsets\')", \'byte_ranges is\': True}',
 "float-ranges rpc='B'": '{\'records_per_chunk\': \'int64(1)\', \'chunk_offsets\': "dict{int:0: '
                         "dict{str:'offset': float:0.0, str:'size': float:40.0}, int:1: dict{str:'offset': "
                         'float:40.5, str:\'size\': float:40.0}}", \'chunks\': \'tuple(int64(1), int:20)\', '
                         '\'ndim\': \'int:2\', \'repr\': "Array(url=\'image-file\', shape=(2, 20), '
                         'dtype=\'uint16\', records_per_chunk=np.int64(1))", \'fields\': "list(str:\'fs\', '
                         "str:'url', str:'byte_ranges', str:'shape', str:'dtype', str:'type_code', "
                         'str:\'records_per_chunk\', str:\'chunk_offsets\')", \'byte_ranges is\': True}',
 "float-ranges rpc='5 foos'": "raise builtins.ValueError: Could not interpret 'foos' as a byte unit",
 "float-ranges rpc='abc'": "raise builtins.ValueError: Could not interpret 'abc' as a byte unit",
 "float-ranges rpc='1.2.3B'": "raise builtins.ValueError: Could not interpret '1.2.3' as a number",
 "float-ranges rpc=Text('80B')": '{\'records_per_chunk\': \'int64(2)\', \'chunk_offsets\': "dict{int:0: '
                                 'dict{str:\'offset\': float:0.0, str:\'size\': float:80.5}}", \'chunks\': '
                                 "'tuple(int64(2), int:20)', 'ndim': 'int:2', 'repr': "
                                 '"Array(url=\'image-file\', shape=(2, 20), dtype=\'uint16\', '
                                 'records_per_chunk=np.int64(2))", \'fields\': "list(str:\'fs\', '
                                 "str:'url', str:'byte_ranges', str:'shape', str:'dtype', str:'type_code', "
                                 'str:\'records_per_chunk\', str:\'chunk_offsets\')", \'byte_ranges is\': '
                                 'True}',
 "float-ranges rpc=b'auto'": "raise builtins.TypeError: '>' not supported between instances of 'bytes' and "
                             "'int'",
 "float-ranges rpc=b'80B'": "raise builtins.TypeError: '>' not supported between instances of 'bytes' and "
                            "'int'",
 'float-ranges rpc=[2]': "raise builtins.TypeError: '>' not supported between instances of 'list' and 'int'",
 'float-ranges rpc=(2,)': "raise builtins.TypeError: '>' not supported between instances of 'tuple' and "
                          "'int'",
 'float-ranges rpc={}': "raise builtins.TypeError: '>' not supported between instances of 'dict' and 'int'",
 'float-ranges rpc=2j': "raise builtins.TypeError: '>' not supported between instances of 'complex' and "
                        "'int'",
 'float-ranges rpc=object': "raise builtins.TypeError: '>' not supported between instances of 'type' and "
                            "'int'",
 'float-ranges rpc not given': '{\'records_per_chunk\': \'int:1024\', \'chunk_offsets\': "dict{int:0: '
                               'dict{str:\'offset\': float:0.0, str:\'size\': float:80.5}}", \'chunks\': '
                               "'tuple(int:1024, int:20)', 'ndim': 'int:2', 'repr': "
                               '"Array(url=\'image-file\', shape=(2, 20), dtype=\'uint16\', '
                               'records_per_chunk=1024)", \'fields\': "list(str:\'fs\', str:\'url\', '
                               "str:'byte_ranges', str:'shape', str:'dtype', str:'type_code', "
                               'str:\'records_per_chunk\', str:\'chunk_offsets\')", \'byte_ranges is\': '
                               'True}',
 'array-ranges rpc=None': '{\'records_per_chunk\': \'int:1024\', \'chunk_offsets\': "dict{int:0: '
                          'dict{str:\'offset\': int64(20), str:\'size\': int64(160)}}", \'chunks\': '
                          "'tuple(int:1024, int:20)', 'ndim': 'int:2', 'repr': "
                          '"Array(url=\'image-file\', shape=(3, 20), dtype=\'uint16\', '
                          'records_per_chunk=1024)", \'fields\': "list(str:\'fs\', str:\'url\', '
                          "str:'byte_ranges', str:'shape', str:'dtype', str:'type_code', "
                          'str:\'records_per_chunk\', str:\'chunk_offsets\')", \'byte_ranges is\': True}',
 'array-ranges rpc=1': '{\'records_per_chunk\': \'int:1\', \'chunk_offsets\': "dict{int:0: '
                       "dict{str:'offset': int64(20), str:'size': int64(40)}, int:1: dict{str:'offset': "
                       "int64(80), str:'size': int64(40)}, int:2: dict{str:'offset': int64(140), str:'size': "
                       'int64(40)}}", \'chunks\': \'tuple(int:1, int:20)\', \'ndim\': \'int:2\', \'repr\': '
                       '"Array(url=\'image-file\', shape=(3, 20), dtype=\'uint16\', records_per_chunk=1)", '
                       '\'fields\': "list(str:\'fs\', str:\'url\', str:\'byte_ranges\', str:\'shape\', '
                       "str:'dtype', str:'type_code', str:'records_per_chunk', "
                       'str:\'chunk_offsets\')", \'byte_ranges is\': True}',
 'array-ranges rpc=2': '{\'records_per_chunk\': \'int:2\', \'chunk_offsets\': "dict{int:0: '
                       "dict{str:'offset': int64(20), str:'size': int64(100)}, int:1: dict{str:'offset': "
                       'int64(140), str:\'size\': int64(40)}}", \'chunks\': \'tuple(int:2, int:20)\', '
                       '\'ndim\': \'int:2\', \'repr\': "Array(url=\'image-file\', shape=(3, 20), '
                       'dtype=\'uint16\', records_per_chunk=2)", \'fields\': "list(str:\'fs\', str:\'url\', '
                       "str:'byte_ranges', str:'shape', str:'dtype', str:'type_code', "
                       'str:\'records_per_chunk\', str:\'chunk_offsets\')", \'byte_ranges is\': True}',
 'array-ranges rpc=3': '{\'records_per_chunk\': \'int:3\', \'chunk_offsets\': "dict{int:0: '
                       'dict{str:\'offset\': int64(20), str:\'size\': int64(160)}}", \'chunks\': '
                       '\'tuple(int:3, int:20)\', \'ndim\': \'int:2\', \'repr\': "Array(url=\'image-file\', '
                       'shape=(3, 20), dtype=\'uint16\', records_per_chunk=3)", \'fields\': '
                       '"list(str:\'fs\', str:\'url\', str:\'byte_ranges\', str:\'shape\', str:\'dtype\', '
                       'str:\'type_code\', str:\'records_per_chunk\', str:\'chunk_offsets\')", \'byte_ranges '
                       "is': True}",
 'array-ranges rpc=4': '{\'records_per_chunk\': \'int:3\', \'chunk_offsets\': "dict{int:0: '
                       'dict{str:\'offset\': int64(20), str:\'size\': int64(160)}}", \'chunks\': '
                       '\'tuple(int:3, int:20)\', \'ndim\': \'int:2\', \'repr\': "Array(url=\'image-file\', '
                       'shape=(3, 20), dtype=\'uint16\', records_per_chunk=3)", \'fields\': '
                       '"list(str:\'fs\', str:\'url\', str:\'byte_ranges\', str:\'shape\', str:\'dtype\', '
                       'str:\'type_code\', str:\'records_per_chunk\', str:\'chunk_offsets\')", \'byte_ranges '
                       "is': True}",
 'array-ranges rpc=5': '{\'records_per_chunk\': \'int:3\', \'chunk_offsets\': "dict{int:0: '
                       'dict{str:\'offset\': int64(20), str:\'size\': int64(160)}}", \'chunks\': '
                       '\'tuple(int:3, int:20)\', \'ndim\': \'int:2\', \'repr\': "Array(url=\'image-file\', '
                       'shape=(3, 20), dtype=\'uint16\', records_per_chunk=3)", \'fields\': '
                       '"list(str:\'fs\', str:\'url\', str:\'byte_ranges\', str:\'shape\', str:\'dtype\', '
                       'str:\'type_code\', str:\'records_per_chunk\', str:\'chunk_offsets\')", \'byte_ranges '
                       "is': True}",
 'array-ranges rpc=6': '{\'records_per_chunk\': \'int:3\', \'chunk_offsets\': "dict{int:0: '
                       'dict{str:\'offset\': int64(20), str:\'size\': int64(160)}}", \'chunks\': '
                       '\'tuple(int:3, int:20)\', \'ndim\': \'int:2\', \'repr\': "Array(url=\'image-file\', '
                       'shape=(3, 20), dtype=\'uint16\', records_per_chunk=3)", \'fields\': '
                       '"list(str:\'fs\', str:\'url\', str:\'byte_ranges\', str:\'shape\', str:\'dtype\', '
                       'str:\'type_code\', str:\'records_per_chunk\', str:\'chunk_offsets\')", \'byte_ranges '
                       "is': True}",
 'array-ranges rpc=1024': '{\'records_per_chunk\': \'int:3\', \'chunk_offsets\': "dict{int:0: '
                          'dict{str:\'offset\': int64(20), str:\'size\': int64(160)}}", \'chunks\': '
                          "'tuple(int:3, int:20)', 'ndim': 'int:2', 'repr': "
                          '"Array(url=\'image-file\', shape=(3, 20), dtype=\'uint16\', '
                          'records_per_chunk=3)", \'fields\': "list(str:\'fs\', str:\'url\', '
                          "str:'byte_ranges', str:'shape', str:'dtype', str:'type_code', "
                          'str:\'records_per_chunk\', str:\'chunk_offsets\')", \'byte_ranges is\': True}',
 'array-ranges rpc=-1': '{\'records_per_chunk\': \'int:3\', \'chunk_offsets\': "dict{int:0: '
                        'dict{str:\'offset\': int64(20), str:\'size\': int64(160)}}", \'chunks\': '
                        '\'tuple(int:3, int:20)\', \'ndim\': \'int:2\', \'repr\': "Array(url=\'image-file\', '
                        'shape=(3, 20), dtype=\'uint16\', records_per_chunk=3)", \'fields\': '
                        '"list(str:\'fs\', str:\'url\', str:\'byte_ranges\', str:\'shape\', str:\'dtype\', '
                        'str:\'type_code\', str:\'records_per_chunk\', str:\'chunk_offsets\')", '
                        "'byte_ranges is': True}",
 'array-ranges rpc=True': '{\'records_per_chunk\': \'bool:True\', \'chunk_offsets\': "dict{int:0: '
                          "dict{str:'offset': int64(20), str:'size': int64(40)}, int:1: dict{str:'offset': "
                          "int64(80), str:'size': int64(40)}, int:2: dict{str:'offset': int64(140), "
                          'str:\'size\': int64(40)}}", \'chunks\': \'tuple(bool:True, int:20)\', \'ndim\': '
                          '\'int:2\', \'repr\': "Array(url=\'image-file\', shape=(3, 20), dtype=\'uint16\', '
                          'records_per_chunk=True)", \'fields\': "list(str:\'fs\', str:\'url\', '
                          "str:'byte_ranges', str:'shape', str:'dtype', str:'type_code', "
                          'str:\'records_per_chunk\', str:\'chunk_offsets\')", \'byte_ranges is\': True}',
 'array-ranges rpc=np.int64(2)': '{\'records_per_chunk\': \'int64(2)\', \'chunk_offsets\': "dict{int:0: '
                                 "dict{str:'offset': int64(20), str:'size': int64(100)}, int:1: "
                                 'dict{str:\'offset\': int64(140), str:\'size\': int64(40)}}", \'chunks\': '
                                 "'tuple(int64(2), int:20)', 'ndim': 'int:2', 'repr': "
                                 '"Array(url=\'image-file\', shape=(3, 20), dtype=\'uint16\', '
                                 'records_per_chunk=np.int64(2))", \'fields\': "list(str:\'fs\', '
                                 "str:'url', str:'byte_ranges', str:'shape', str:'dtype', str:'type_code', "
                                 'str:\'records_per_chunk\', str:\'chunk_offsets\')", \'byte_ranges is\': '
                                 'True}',
 'array-ranges rpc=np.int64(-1)': '{\'records_per_chunk\': \'int:3\', \'chunk_offsets\': "dict{int:0: '
                                  'dict{str:\'offset\': int64(20), str:\'size\': int64(160)}}", \'chunks\': '
                                  "'tuple(int:3, int:20)', 'ndim': 'int:2', 'repr': "
                                  '"Array(url=\'image-file\', shape=(3, 20), dtype=\'uint16\', '
                                  'records_per_chunk=3)", \'fields\': "list(str:\'fs\', str:\'url\', '
                                  "str:'byte_ranges', str:'shape', str:'dtype', str:'type_code', "
                                  'str:\'records_per_chunk\', str:\'chunk_offsets\')", \'byte_ranges is\': '
                                  'True}',
 'array-ranges rpc=np.uint8(9)': '{\'records_per_chunk\': \'int:3\', \'chunk_offsets\': "dict{int:0: '
                                 'dict{str:\'offset\': int64(20), str:\'size\': int64(160)}}", \'chunks\': '
                                 "'tuple(int:3, int:20)', 'ndim': 'int:2', 'repr': "
                                 '"Array(url=\'image-file\', shape=(3, 20), dtype=\'uint16\', '
                                 'records_per_chunk=3)", \'fields\': "list(str:\'fs\', str:\'url\', '
                                 "str:'byte_ranges', str:'shape', str:'dtype', str:'type_code', "
                                 'str:\'records_per_chunk\', str:\'chunk_offsets\')", \'byte_ranges is\': '
                                 'True}',
 'array-ranges rpc=IntLike(2)': "raise builtins.TypeError: unsupported operand type(s) for +: 'int' and "
                                "'IntLike'",
 'array-ranges rpc=IntLike(-1)': '{\'records_per_chunk\': \'int:3\', \'chunk_offsets\': "dict{int:0: '
                                 'dict{str:\'offset\': int64(20), str:\'size\': int64(160)}}", \'chunks\': '
                                 "'tuple(int:3, int:20)', 'ndim': 'int:2', 'repr': "
                                 '"Array(url=\'image-file\', shape=(3, 20), dtype=\'uint16\', '
                                 'records_per_chunk=3)", \'fields\': "list(str:\'fs\', str:\'url\', '
                                 "str:'byte_ranges', str:'shape', str:'dtype', str:'type_code', "
                                 'str:\'records_per_chunk\', str:\'chunk_offsets\')", \'byte_ranges is\': '
                                 'True}',
 'array-ranges rpc=IntLike(99)': '{\'records_per_chunk\': \'int:3\', \'chunk_offsets\': "dict{int:0: '
                                 'dict{str:\'offset\': int64(20), str:\'size\': int64(160)}}", \'chunks\': '
                                 "'tuple(int:3, int:20)', 'ndim': 'int:2', 'repr': "
                                 '"Array(url=\'image-file\', shape=(3, 20), dtype=\'uint16\', '
                                 'records_per_chunk=3)", \'fields\': "list(str:\'fs\', str:\'url\', '
                                 "str:'byte_ranges', str:'shape', str:'dtype', str:'type_code', "
                                 'str:\'records_per_chunk\', str:\'chunk_offsets\')", \'byte_ranges is\': '
                                 'True}',
 'array-ranges rpc=Fraction(2)': "raise builtins.TypeError: can't multiply sequence by non-int of type "
                                 "'Fraction'",
 'array-ranges rpc=2.0': "raise builtins.TypeError: can't multiply sequence by non-int of type 'float'",
 'array-ranges rpc=nan': "raise builtins.TypeError: can't multiply sequence by non-int of type 'float'",
 'array-ranges rpc=inf': '{\'records_per_chunk\': \'int:3\', \'chunk_offsets\': "dict{int:0: '
                         'dict{str:\'offset\': int64(20), str:\'size\': int64(160)}}", \'chunks\': '
                         "'tuple(int:3, int:20)', 'ndim': 'int:2', 'repr': "
                         '"Array(url=\'image-file\', shape=(3, 20), dtype=\'uint16\', records_per_chunk=3)", '
                         '\'fields\': "list(str:\'fs\', str:\'url\', str:\'byte_ranges\', str:\'shape\', '
                         "str:'dtype', str:'type_code', str:'records_per_chunk', "
                         'str:\'chunk_offsets\')", \'byte_ranges is\': True}',
 "array-ranges rpc='auto'": '{\'records_per_chunk\': \'int64(3)\', \'chunk_offsets\': "dict{int:0: '
                            'dict{str:\'offset\': int64(20), str:\'size\': int64(160)}}", \'chunks\': '
                            "'tuple(int64(3), int:20)', 'ndim': 'int:2', 'repr': "
                            '"Array(url=\'image-file\', shape=(3, 20), dtype=\'uint16\', '
                            'records_per_chunk=np.int64(3))", \'fields\': "list(str:\'fs\', str:\'url\', '
                            "str:'byte_ranges', str:'shape', str:'dtype', str:'type_code', "
                            'str:\'records_per_chunk\', str:\'chunk_offsets\')", \'byte_ranges is\': True}',
 "array-ranges rpc=Text('auto')": '{\'records_per_chunk\': \'int64(3)\', \'chunk_offsets\': "dict{int:0: '
                                  'dict{str:\'offset\': int64(20), str:\'size\': int64(160)}}", \'chunks\': '
                                  "'tuple(int64(3), int:20)', 'ndim': 'int:2', 'repr': "
                                  '"Array(url=\'image-file\', shape=(3, 20), dtype=\'uint16\', '
                                  'records_per_chunk=np.int64(3))", \'fields\': "list(str:\'fs\', '
                                  "str:'url', str:'byte_ranges', str:'shape', str:'dtype', str:'type_code', "
                                  'str:\'records_per_chunk\', str:\'chunk_offsets\')", \'byte_ranges is\': '
                                  'True}',
 "array-ranges rpc='AUTO'": "raise builtins.ValueError: Could not interpret 'AUTO' as a byte unit",
 "array-ranges rpc=' auto'": "raise builtins.ValueError: Could not interpret 'auto' as a byte unit",
 "array-ranges rpc='1B'": '{\'records_per_chunk\': \'int64(1)\', \'chunk_offsets\': "dict{int:0: '
                          "dict{str:'offset': int64(20), str:'size': int64(40)}, int:1: dict{str:'offset': "
                          "int64(80), str:'size': int64(40)}, int:2: dict{str:'offset': int64(140), "
                          'str:\'size\': int64(40)}}", \'chunks\': \'tuple(int64(1), int:20)\', \'ndim\': '
                          '\'int:2\', \'repr\': "Array(url=\'image-file\', shape=(3, 20), dtype=\'uint16\', '
                          'records_per_chunk=np.int64(1))", \'fields\': "list(str:\'fs\', str:\'url\', '
                          "str:'byte_ranges', str:'shape', str:'dtype', str:'type_code', "
                          'str:\'records_per_chunk\', str:\'chunk_offsets\')", \'byte_ranges is\': True}',
 "array-ranges rpc='39B'": '{\'records_per_chunk\': \'int64(1)\', \'chunk_offsets\': "dict{int:0: '
                           "dict{str:'offset': int64(20), str:'size': int64(40)}, int:1: dict{str:'offset': "
                           "int64(80), str:'size': int64(40)}, int:2: dict{str:'offset': int64(140), "
                           'str:\'size\': int64(40)}}", \'chunks\': \'tuple(int64(1), int:20)\', \'ndim\': '
                           '\'int:2\', \'repr\': "Array(url=\'image-file\', shape=(3, 20), dtype=\'uint16\', '
                           'records_per_chunk=np.int64(1))", \'fields\': "list(str:\'fs\', str:\'url\', '
                           "str:'byte_ranges', str:'shape', str:'dtype', str:'type_code', "
                           'str:\'records_per_chunk\', str:\'chunk_offsets\')", \'byte_ranges is\': True}',
 "array-ranges rpc='40B'": '{\'records_per_chunk\': \'int64(1)\', \'chunk_offsets\': "dict{int:0: '
                           "dict{str:'offset': int64(20), str:'size': int64(40)}, int:1: dict{str:'offset': "
                           "int64(80), str:'size': int64(40)}, int:2: dict{str:'offset': int64(140), "
                           'str:\'size\': int64(40)}}", \'chunks\': \'tuple(int64(1), int:20)\', \'ndim\': '
                           '\'int:2\', \'repr\': "Array(url=\'image-file\', shape=(3, 20), dtype=\'uint16\', '
                           'records_per_chunk=np.int64(1))", \'fields\': "list(str:\'fs\', str:\'url\', '
                           "str:'byte_ranges', str:'shape', str:'dtype', str:'type_code', "
                           'str:\'records_per_chunk\', str:\'chunk_offsets\')", \'byte_ranges is\': True}',
 "array-ranges rpc='60B'": '{\'records_per_chunk\': \'int64(1)\', \'chunk_offsets\': "dict{int:0: '
                           "dict{str:'offset': int64(20), str:'size': int64(40)}, int:1: dict{str:'offset': "
                           "int64(80), str:'size': int64(40)}, int:2: dict{str:'offset': int64(140), "
                           'str:\'size\': int64(40)}}", \'chunks\': \'tuple(int64(1), int:20)\', \'ndim\': '
                           '\'int:2\', \'repr\': "Array(url=\'image-file\', shape=(3, 20), dtype=\'uint16\', '
                           'records_per_chunk=np.int64(1))", \'fields\': "list(str:\'fs\', str:\'url\', '
                           "str:'byte_ranges', str:'shape', str:'dtype', str:'type_code', "
                           'str:\'records_per_chunk\', str:\'chunk_offsets\')", \'byte_ranges is\': True}',
 "array-ranges rpc='61B'": '{\'records_per_chunk\': \'int64(2)\', \'chunk_offsets\': "dict{int:0: '
                           "dict{str:'offset': int64(20), str:'size': int64(100)}, int:1: dict{str:'offset': "
                           'int64(140), str:\'size\': int64(40)}}", \'chunks\': \'tuple(int64(2), int:20)\', '
                           '\'ndim\': \'int:2\', \'repr\': "Array(url=\'image-file\', shape=(3, 20), '
                           'dtype=\'uint16\', records_per_chunk=np.int64(2))", \'fields\': "list(str:\'fs\', '
                           "str:'url', str:'byte_ranges', str:'shape', str:'dtype', str:'type_code', "
                           'str:\'records_per_chunk\', str:\'chunk_offsets\')", \'byte_ranges is\': True}',
 "array-ranges rpc='80B'": '{\'records_per_chunk\': \'int64(2)\', \'chunk_offsets\': "dict{int:0: '
                           "dict{str:'offset': int64(20), str:'size': int64(100)}, int:1: dict{str:'offset': "
                           'int64(140), str:\'size\': int64(40)}}", \'chunks\': \'tuple(int64(2), int:20)\', '
                           '\'ndim\': \'int:2\', \'repr\': "Array(url=\'image-file\', shape=(3, 20), '
                           'dtype=\'uint16\', records_per_chunk=np.int64(2))", \'fields\': "list(str:\'fs\', '
                           "str:'url', str:'byte_ranges', str:'shape', str:'dtype', str:'type_code', "
                           'str:\'records_per_chunk\', str:\'chunk_offsets\')", \'byte_ranges is\': True}',
 "array-ranges rpc='100 B'": '{\'records_per_chunk\': \'int64(2)\', \'chunk_offsets\': "dict{int:0: '
                             "dict{str:'offset': int64(20), str:'size': int64(100)}, int:1: "
                             'dict{str:\'offset\': int64(140), str:\'size\': int64(40)}}", \'chunks\': '
                             "'tuple(int64(2), int:20)', 'ndim': 'int:2', 'repr': "
                             '"Array(url=\'image-file\', shape=(3, 20), dtype=\'uint16\', '
                             'records_per_chunk=np.int64(2))", \'fields\': "list(str:\'fs\', str:\'url\', '
                             "str:'byte_ranges', str:'shape', str:'dtype', str:'type_code', "
                             'str:\'records_per_chunk\', str:\'chunk_offsets\')", \'byte_ranges is\': True}',
 "array-ranges rpc='0.1kB'": '{\'records_per_chunk\': \'int64(2)\', \'chunk_offsets\': "dict{int:0: '
                             "dict{str:'offset': int64(20), str:'size': int64(100)}, int:1: "
                             'dict{str:\'offset\': int64(140), str:\'size\': int64(40)}}", \'chunks\': '
                             "'tuple(int64(2), int:20)', 'ndim': 'int:2', 'repr': "
                             '"Array(url=\'image-file\', shape=(3, 20), dtype=\'uint16\', '
                             'records_per_chunk=np.int64(2))", \'fields\': "list(str:\'fs\', str:\'url\', '
                             "str:'byte_ranges', str:'shape', str:'dtype', str:'type_code', "
                             'str:\'records_per_chunk\', str:\'chunk_offsets\')", \'byte_ranges is\': True}',
 "array-ranges rpc='1kB'": '{\'records_per_chunk\': \'int64(3)\', \'chunk_offsets\': "dict{int:0: '
                           'dict{str:\'offset\': int64(20), str:\'size\': int64(160)}}", \'chunks\': '
                           "'tuple(int64(3), int:20)', 'ndim': 'int:2', 'repr': "
                           '"Array(url=\'image-file\', shape=(3, 20), dtype=\'uint16\', '
                           'records_per_chunk=np.int64(3))", \'fields\': "list(str:\'fs\', str:\'url\', '
                           "str:'byte_ranges', str:'shape', str:'dtype', str:'type_code', "
                           'str:\'records_per_chunk\', str:\'chunk_offsets\')", \'byte_ranges is\': True}',
 "array-ranges rpc='1KiB'": '{\'records_per_chunk\': \'int64(3)\', \'chunk_offsets\': "dict{int:0: '
                            'dict{str:\'offset\': int64(20), str:\'size\': int64(160)}}", \'chunks\': '
                            "'tuple(int64(3), int:20)', 'ndim': 'int:2', 'repr': "
                            '"Array(url=\'image-file\', shape=(3, 20), dtype=\'uint16\', '
                            'records_per_chunk=np.int64(3))", \'fields\': "list(str:\'fs\', str:\'url\', '
                            "str:'byte_ranges', str:'shape', str:'dtype', str:'type_code', "
                            'str:\'records_per_chunk\', str:\'chunk_offsets\')", \'byte_ranges is\': True}',
 "array-ranges rpc='1e2'": '{\'records_per_chunk\': \'int64(2)\', \'chunk_offsets\': "dict{int:0: '
                           "dict{str:'offset': int64(20), str:'size': int64(100)}, int:1: dict{str:'offset': "
                           'int64(140), str:\'size\': int64(40)}}", \'chunks\': \'tuple(int64(2), int:20)\', '
                           '\'ndim\': \'int:2\', \'repr\': "Array(url=\'image-file\', shape=(3, 20), '
                           'dtype=\'uint16\', records_per_chunk=np.int64(2))", \'fields\': "list(str:\'fs\', '
                           "str:'url', str:'byte_ranges', str:'shape', str:'dtype', str:'type_code', "
                           'str:\'records_per_chunk\', str:\'chunk_offsets\')", \'byte_ranges is\': True}',
 "array-ranges rpc='120'": '{\'records_per_chunk\': \'int64(3)\', \'chunk_offsets\': "dict{int:0: '
                           'dict{str:\'offset\': int64(20), str:\'size\': int64(160)}}", \'chunks\': '
                           "'tuple(int64(3), int:20)', 'ndim': 'int:2', 'repr': "
                           '"Array(url=\'image-file\', shape=(3, 20), dtype=\'uint16\', '
                           'records_per_chunk=np.int64(3))", \'fields\': "list(str:\'fs\', str:\'url\', '
                           "str:'byte_ranges', str:'shape', str:'dtype', str:'type_code', "
                           'str:\'records_per_chunk\', str:\'chunk_offsets\')", \'byte_ranges is\': True}',
 "array-ranges rpc='2'": '{\'records_per_chunk\': \'int64(1)\', \'chunk_offsets\': "dict{int:0: '
                         "dict{str:'offset': int64(20), str:'size': int64(40)}, int:1: dict{str:'offset': "
                         "int64(80), str:'size': int64(40)}, int:2: dict{str:'offset': int64(140), "
                         'str:\'size\': int64(40)}}", \'chunks\': \'tuple(int64(1), int:20)\', \'ndim\': '
                         '\'int:2\', \'repr\': "Array(url=\'image-file\', shape=(3, 20), dtype=\'uint16\', '
                         'records_per_chunk=np.int64(1))", \'fields\': "list(str:\'fs\', str:\'url\', '
                         "str:'byte_ranges', str:'shape', str:'dtype', str:'type_code', "
                         'str:\'records_per_chunk\', str:\'chunk_offsets\')", \'byte_ranges is\': True}',
 "array-ranges rpc='0'": '{\'records_per_chunk\': \'int64(1)\', \'chunk_offsets\': "dict{int:0: '
                         "dict{str:'offset': int64(20), str:'size': int64(40)}, int:1: dict{str:'offset': "
                         "int64(80), str:'size': int64(40)}, int:2: dict{str:'offset': int64(140), "
                         'str:\'size\': int64(40)}}", \'chunks\': \'tuple(int64(1), int:20)\', \'ndim\': '
                         '\'int:2\', \'repr\': "Array(url=\'image-file\', shape=(3, 20), dtype=\'uint16\', '
                         'records_per_chunk=np.int64(1))", \'fields\': "list(str:\'fs\', str:\'url\', '
                         "str:'byte_ranges', str:'shape', str:'dtype', str:'type_code', "
                         'str:\'records_per_chunk\', str:\'chunk_offsets\')", \'byte_ranges is\': True}',
 "array-ranges rpc='-1'": '{\'records_per_chunk\': \'int64(1)\', \'chunk_offsets\': "dict{int:0: '
                          "dict{str:'offset': int64(20), str:'size': int64(40)}, int:1: dict{str:'offset': "
                          "int64(80), str:'size': int64(40)}, int:2: dict{str:'offset': int64(140), "
                          'str:\'size\': int64(40)}}", \'chunks\': \'tuple(int64(1), int:20)\', \'ndim\': '
                          '\'int:2\', \'repr\': "Array(url=\'image-file\', shape=(3, 20), dtype=\'uint16\', '
                          'records_per_chunk=np.int64(1))", \'fields\': "list(str:\'fs\', str:\'url\', '
                          "str:'byte_ranges', str:'shape', str:'dtype', str:'type_code', "
                          'str:\'records_per_chunk\', str:\'chunk_offsets\')", \'byte_ranges is\': True}',
 "array-ranges rpc='-80B'": '{\'records_per_chunk\': \'int64(1)\', \'chunk_offsets\': "dict{int:0: '
                            "dict{str:'offset': int64(20), str:'size': int64(40)}, int:1: dict{str:'offset': "
                            "int64(80), str:'size': int64(40)}, int:2: dict{str:'offset': int64(140), "
                            'str:\'size\': int64(40)}}", \'chunks\': \'tuple(int64(1), int:20)\', \'ndim\': '
                            '\'int:2\', \'repr\': "Array(url=\'image-file\', shape=(3, 20), '
                            'dtype=\'uint16\', records_per_chunk=np.int64(1))", \'fields\': '
                            '"list(str:\'fs\', str:\'url\', str:\'byte_ranges\', str:\'shape\', '
                            "str:'dtype', str:'type_code', str:'records_per_chunk', "
                            'str:\'chunk_offsets\')", \'byte_ranges is\': True}',
 "array-ranges rpc='5GB'": '{\'records_per_chunk\': \'int64(3)\', \'chunk_offsets\': "dict{int:0: '
                           'dict{str:\'offset\': int64(20), str:\'size\': int64(160)}}", \'chunks\': '
                           "'tuple(int64(3), int:20)', 'ndim': 'int:2', 'repr': "
                           '"Array(url=\'image-file\', shape=(3, 20), dtype=\'uint16\', '
                           'records_per_chunk=np.int64(3))", \'fields\': "list(str:\'fs\', str:\'url\', '
                           "str:'byte_ranges', str:'shape', str:'dtype', str:'type_code', "
                           'str:\'records_per_chunk\', str:\'chunk_offsets\')", \'byte_ranges is\': True}',
 "array-ranges rpc='MB'": '{\'records_per_chunk\': \'int64(3)\', \'chunk_offsets\': "dict{int:0: '
                          'dict{str:\'offset\': int64(20), str:\'size\': int64(160)}}", \'chunks\': '
                          "'tuple(int64(3), int:20)', 'ndim': 'int:2', 'repr': "
                          '"Array(url=\'image-file\', shape=(3, 20), dtype=\'uint16\', '
                          'records_per_chunk=np.int64(3))", \'fields\': "list(str:\'fs\', str:\'url\', '
                          "str:'byte_ranges', str:'shape', str:'dtype', str:'type_code', "
                          'str:\'records_per_chunk\', str:\'chunk_offsets\')", \'byte_ranges is\': True}',
 "array-ranges rpc=''": '{\'records_per_chunk\': \'int64(1)\', \'chunk_offsets\': "dict{int:0: '
                        "dict{str:'offset': int64(20), str:'size': int64(40)}, int:1: dict{str:'offset': "
                        "int64(80), str:'size': int64(40)}, int:2: dict{str:'offset': int64(140), "
                        'str:\'size\': int64(40)}}", \'chunks\': \'tuple(int64(1), int:20)\', \'ndim\': '
                        '\'int:2\', \'repr\': "Array(url=\'image-file\', shape=(3, 20), dtype=\'uint16\', '
                        'records_per_chunk=np.int64(1))", \'fields\': "list(str:\'fs\', str:\'url\', '
                        "str:'byte_ranges', str:'shape', str:'dtype', str:'type_code', "
                        'str:\'records_per_chunk\', str:\'chunk_offsets\')", \'byte_ranges is\': True}',
 "array-ranges rpc='B'": '{\'records_per_chunk\': \'int64(1)\', \'chunk_offsets\': "dict{int:0: '
                         "dict{str:'offset': int64(20), str:'size': int64(40)}, int:1: dict{str:'offset': "
                         "int64(80), str:'size': int64(40)}, int:2: dict{str:'offset': int64(140), "
                         'str:\'size\': int64(40)}}", \'chunks\': \'tuple(int64(1), int:20)\', \'ndim\': '
                         '\'int:2\', \'repr\': "Array(url=\'image-file\', shape=(3, 20), dtype=\'uint16\', '
                         'records_per_chunk=np.int64(1))", \'fields\': "list(str:\'fs\', str:\'url\', '
                         "str:'byte_ranges', str:'shape', str:'dtype', str:'type_code', "
                         'str:\'records_per_chunk\', str:\'chunk_offsets\')", \'byte_ranges is\': True}',
 "array-ranges rpc='5 foos'": "raise builtins.ValueError: Could not interpret 'foos' as a byte unit",
 "array-ranges rpc='abc'": "raise builtins.ValueError: Could not interpret 'abc' as a byte unit",
 "array-ranges rpc='1.2.3B'": "raise builtins.ValueError: Could not interpret '1.2.3' as a number",
 "array-ranges rpc=Text('80B')": '{\'records_per_chunk\': \'int64(2)\', \'chunk_offsets\': "dict{int:0: '
                                 "dict{str:'offset': int64(20), str:'size': int64(100)}, int:1: "
                                 'dict{str:\'offset\': int64(140), str:\'size\': int64(40)}}", \'chunks\': '
                                 "'tuple(int64(2), int:20)', 'ndim': 'int:2', 'repr': "
                                 '"Array(url=\'image-file\', shape=(3, 20), dtype=\'uint16\', '
                                 'records_per_chunk=np.int64(2))", \'fields\': "list(str:\'fs\', '
                                 "str:'url', str:'byte_ranges', str:'shape', str:'dtype', str:'type_code', "
                                 'str:\'records_per_chunk\', str:\'chunk_offsets\')", \'byte_ranges is\': '
                                 'True}',
 "array-ranges rpc=b'auto'": "raise builtins.TypeError: '>' not supported between instances of 'bytes' and "
                             "'int'",
 "array-ranges rpc=b'80B'": "raise builtins.TypeError: '>' not supported between instances of 'bytes' and "
                            "'int'",
 'array-ranges rpc=[2]': "raise builtins.TypeError: '>' not supported between instances of 'list' and 'int'",
 'array-ranges rpc=(2,)': "raise builtins.TypeError: '>' not supported between instances of 'tuple' and "
                          "'int'",
 'array-ranges rpc={}': "raise builtins.TypeError: '>' not supported between instances of 'dict' and 'int'",
 'array-ranges rpc=2j': "raise builtins.TypeError: '>' not supported between instances of 'complex' and "
                        "'int'",
 'array-ranges rpc=object': "raise builtins.TypeError: '>' not supported between instances of 'type' and "
                            "'int'",
 'array-ranges rpc not given': '{\'records_per_chunk\': \'int:1024\', \'chunk_offsets\': "dict{int:0: '
                               'dict{str:\'offset\': int64(20), str:\'size\': int64(160)}}", \'chunks\': '
                               "'tuple(int:1024, int:20)', 'ndim': 'int:2', 'repr': "
                               '"Array(url=\'image-file\', shape=(3, 20), dtype=\'uint16\', '
                               'records_per_chunk=1024)", \'fields\': "list(str:\'fs\', str:\'url\', '
                               "str:'byte_ranges', str:'shape', str:'dtype', str:'type_code', "
                               'str:\'records_per_chunk\', str:\'chunk_offsets\')", \'byte_ranges is\': '
                               'True}',
 'triples rpc=None': 'raise builtins.ValueError: too many values to unpack (expected 2)',
 'triples rpc=1': 'raise builtins.ValueError: too many values to unpack (expected 2)',
 'triples rpc=2': 'raise builtins.ValueError: too many values to unpack (expected 2)',
 'triples rpc=3': 'raise builtins.ValueError: too many values to unpack (expected 2)',
 'triples rpc=4': 'raise builtins.ValueError: too many values to unpack (expected 2)',
 'triples rpc=5': 'raise builtins.ValueError: too many values to unpack (expected 2)',
 'triples rpc=6': 'raise builtins.ValueError: too many values to unpack (expected 2)',
 'triples rpc=1024': 'raise builtins.ValueError: too many values to unpack (expected 2)',
 'triples rpc=-1': 'raise builtins.ValueError: too many values to unpack (expected 2)',
 'triples rpc=True': 'raise builtins.ValueError: too many values to unpack (expected 2)',
 'triples rpc=np.int64(2)': 'raise builtins.ValueError: too many values to unpack (expected 2)',
 'triples rpc=np.int64(-1)': 'raise builtins.ValueError: too many values to unpack (expected 2)',
 'triples rpc=np.uint8(9)': 'raise builtins.ValueError: too many values to unpack (expected 2)',
 'triples rpc=IntLike(2)': 'raise builtins.ValueError: too many values to unpack (expected 2)',
 'triples rpc=IntLike(-1)': 'raise builtins.ValueError: too many values to unpack (expected 2)',
 'triples rpc=IntLike(99)': 'raise builtins.ValueError: too many values to unpack (expected 2)',
 'triples rpc=Fraction(2)': 'raise builtins.ValueError: too many values to unpack (expected 2)',
 'triples rpc=2.0': 'raise builtins.ValueError: too many values to unpack (expected 2)',
 'triples rpc=nan': 'raise builtins.ValueError: too many values to unpack (expected 2)',
 'triples rpc=inf': 'raise builtins.ValueError: too many values to unpack (expected 2)',
 "triples rpc='auto'": 'raise builtins.ValueError: too many values to unpack (expected 2)',
 "triples rpc=Text('auto')": 'raise builtins.ValueError: too many values to unpack (expected 2)',
 "triples rpc='AUTO'": 'raise builtins.ValueError: too many values to unpack (expected 2)',
 "triples rpc=' auto'": 'raise builtins.ValueError: too many values to unpack (expected 2)',
 "triples rpc='1B'": 'raise builtins.ValueError: too many values to unpack (expected 2)',
 "triples rpc='39B'": 'raise builtins.ValueError: too many values to unpack (expected 2)',
 "triples rpc='40B'": 'raise builtins.ValueError: too many values to unpack (expected 2)',
 "triples rpc='60B'": 'raise builtins.ValueError: too many values to unpack (expected 2)',
 "triples rpc='61B'": 'raise builtins.ValueError: too many values to unpack (expected 2)',
 "triples rpc='80B'": 'raise builtins.ValueError: too many values to unpack (expected 2)',
 "triples rpc='100 B'": 'raise builtins.ValueError: too many values to unpack (expected 2)',
 "triples rpc='0.1kB'": 'raise builtins.ValueError: too many values to unpack (expected 2)',
 "triples rpc='1kB'": 'raise builtins.ValueError: too many values to unpack (expected 2)',
 "triples rpc='1KiB'": 'raise builtins.ValueError: too many values to unpack (expected 2)',
 "triples rpc='1e2'": 'raise builtins.ValueError: too many values to unpack (expected 2)',
 "triples rpc='120'": 'raise builtins.ValueError: too many values to unpack (expected 2)',
 "triples rpc='2'": 'raise builtins.ValueError: too many values to unpack (expected 2)',
 "triples rpc='0'": 'raise builtins.ValueError: too many values to unpack (expected 2)',
 "triples rpc='-1'": 'raise builtins.ValueError: too many values to unpack (expected 2)',
 "triples rpc='-80B'": 'raise builtins.ValueError: too many values to unpack (expected 2)',
 "triples rpc='5GB'": 'raise builtins.ValueError: too many values to unpack (expected 2)',
 "triples rpc='MB'": 'raise builtins.ValueError: too many values to unpack (expected 2)',
 "triples rpc=''": 'raise builtins.ValueError: too many values to unpack (expected 2)',
 "triples rpc='B'": 'raise builtins.ValueError: too many values to unpack (expected 2)',
 "triples rpc='5 foos'": 'raise builtins.ValueError: too many values to unpack (expected 2)',
 "triples rpc='abc'": 'raise builtins.ValueError: too many values to unpack (expected 2)',
 "triples rpc='1.2.3B'": 'raise builtins.ValueError: too many values to unpack (expected 2)',
 "triples rpc=Text('80B')": 'raise builtins.ValueError: too many values to unpack (expected 2)',
 "triples rpc=b'auto'": 'raise builtins.ValueError: too many values to unpack (expected 2)',
 "triples rpc=b'80B'": 'raise builtins.ValueError: too many values to unpack (expected 2)',
 'triples rpc=[2]': 'raise builtins.ValueError: too many values to unpack (expected 2)',
 'triples rpc=(2,)': 'raise builtins.ValueError: too many values to unpack (expected 2)',
 'triples rpc={}': 'raise builtins.ValueError: too many values to unpack (expected 2)',
 'triples rpc=2j': 'raise builtins.ValueError: too many values to unpack (expected 2)',
 'triples rpc=object': 'raise builtins.ValueError: too many values to unpack (expected 2)',
 'triples rpc not given': 'raise builtins.ValueError: too many values to unpack (expected 2)',
 'singles rpc=None': 'raise builtins.ValueError: not enough values to unpack (expected 2, got 1)',
 'singles rpc=1': 'raise builtins.ValueError: not enough values to unpack (expected 2, got 1)',
 'singles rpc=2': 'raise builtins.ValueError: not enough values to unpack (expected 2, got 1)',
 'singles rpc=3': 'raise builtins.ValueError: not enough values to unpack (expected 2, got 1)',
 'singles rpc=4': 'raise builtins.ValueError: not enough values to unpack (expected 2, got 1)',
 'singles rpc=5': 'raise builtins.ValueError: not enough values to unpack (expected 2, got 1)',
 'singles rpc=6': 'raise builtins.ValueError: not enough values to unpack (expected 2, got 1)',
 'singles rpc=1024': 'raise builtins.ValueError: not enough values to unpack (expected 2, got 1)',
 'singles rpc=-1': 'raise builtins.ValueError: not enough values to unpack (expected 2, got 1)',
 'singles rpc=True': 'raise builtins.ValueError: not enough values to unpack (expected 2, got 1)',
 'singles rpc=np.int64(2)': 'raise builtins.ValueError: not enough values to unpack (expected 2, got 1)',
 'singles rpc=np.int64(-1)': 'raise builtins.ValueError: not enough values to unpack (expected 2, got 1)',
 'singles rpc=np.uint8(9)': 'raise builtins.ValueError: not enough values to unpack (expected 2, got 1)',
 'singles rpc=IntLike(2)': 'raise builtins.ValueError: not enough values to unpack (expected 2, got 1)',
 'singles rpc=IntLike(-1)': 'raise builtins.ValueError: not enough values to unpack (expected 2, got 1)',
 'singles rpc=IntLike(99)': 'raise builtins.ValueError: not enough values to unpack (expected 2, got 1)',
 'singles rpc=Fraction(2)': 'raise builtins.ValueError: not enough values to unpack (expected 2, got 1)',
 'singles rpc=2.0': 'raise builtins.ValueError: not enough values to unpack (expected 2, got 1)',
 'singles rpc=nan': 'raise builtins.ValueError: not enough values to unpack (expected 2, got 1)',
 'singles rpc=inf': 'raise builtins.ValueError: not enough values to unpack (expected 2, got 1)',
 "singles rpc='auto'": 'raise builtins.ValueError: not enough values to unpack (expected 2, got 1)',
 "singles rpc=Text('auto')": 'raise builtins.ValueError: not enough values to unpack (expected 2, got 1)',
 "singles rpc='AUTO'": 'raise builtins.ValueError: not enough values to unpack (expected 2, got 1)',
 "singles rpc=' auto'": 'raise builtins.ValueError: not enough values to unpack (expected 2, got 1)',
 "singles rpc='1B'": 'raise builtins.ValueError: not enough values to unpack (expected 2, got 1)',
 "singles rpc='39B'": 'raise builtins.ValueError: not enough values to unpack (expected 2, got 1)',
 "singles rpc='40B'": 'raise builtins.ValueError: not enough values to unpack (expected 2, got 1)',
 "singles rpc='60B'": 'raise builtins.ValueError: not enough values to unpack (expected 2, got 1)',
 "singles rpc='61B'": 'raise builtins.ValueError: not enough values to unpack (expected 2, got 1)',
 "singles rpc='80B'": 'raise builtins.ValueError: not enough values to unpack (expected 2, got 1)',
 "singles rpc='100 B'": 'raise builtins.ValueError: not enough values to unpack (expected 2, got 1)',
 "singles rpc='0.1kB'": 'raise builtins.ValueError: not enough values to unpack (expected 2, got 1)',
 "singles rpc='1kB'": 'raise builtins.ValueError: not enough values to unpack (expected 2, got 1)',
 "singles rpc='1KiB'": 'raise builtins.ValueError: not enough values to unpack (expected 2, got 1)',
 "singles rpc='1e2'": 'raise builtins.ValueError: not enough values to unpack (expected 2, got 1)',
 "singles rpc='120'": 'raise builtins.ValueError: not enough values to unpack (expected 2, got 1)',
 "singles rpc='2'": 'raise builtins.ValueError: not enough values to unpack (expected 2, got 1)',
 "singles rpc='0'": 'raise builtins.ValueError: not enough values to unpack (expected 2, got 1)',
 "singles rpc='-1'": 'raise builtins.ValueError: not enough values to unpack (expected 2, got 1)',
 "singles rpc='-80B'": 'raise builtins.ValueError: not enough values to unpack (expected 2, got 1)',
 "singles rpc='5GB'": 'raise builtins.ValueError: not enough values to unpack (expected 2, got 1)',
 "singles rpc='MB'": 'raise builtins.ValueError: not enough values to unpack (expected 2, got 1)',
 "singles rpc=''": 'raise builtins.ValueError: not enough values to unpack (expected 2, got 1)',
 "singles rpc='B'": 'raise builtins.ValueError: not enough values to unpack (expected 2, got 1)',
 "singles rpc='5 foos'": 'raise builtins.ValueError: not enough values to unpack (expected 2, got 1)',
 "singles rpc='abc'": 'raise builtins.ValueError: not enough values to unpack (expected 2, got 1)',
 "singles rpc='1.2.3B'": 'raise builtins.ValueError: not enough values to unpack (expected 2, got 1)',
 "singles rpc=Text('80B')": 'raise builtins.ValueError: not enough values to unpack (expected 2, got 1)',
 "singles rpc=b'auto'": 'raise builtins.ValueError: not enough values to unpack (expected 2, got 1)',
 "singles rpc=b'80B'": 'raise builtins.ValueError: not enough values to unpack (expected 2, got 1)',
 'singles rpc=[2]': 'raise builtins.ValueError: not enough values to unpack (expected 2, got 1)',
 'singles rpc=(2,)': 'raise builtins.ValueError: not enough values to unpack (expected 2, got 1)',
 'singles rpc={}': 'raise builtins.ValueError: not enough values to unpack (expected 2, got 1)',
 'singles rpc=2j': 'raise builtins.ValueError: not enough values to unpack (expected 2, got 1)',
 'singles rpc=object': 'raise builtins.ValueError: not enough values to unpack (expected 2, got 1)',
 'singles rpc not given': 'raise builtins.ValueError: not enough values to unpack (expected 2, got 1)',
 'scalars rpc=None': 'raise builtins.TypeError: cannot unpack non-iterable int object',
 'scalars rpc=1': 'raise builtins.TypeError: cannot unpack non-iterable int object',
 'scalars rpc=2': 'raise builtins.TypeError: cannot unpack non-iterable int object',
 'scalars rpc=3': 'raise builtins.TypeError: cannot unpack non-iterable int object',
 'scalars rpc=4': 'raise builtins.TypeError: cannot unpack non-iterable int object',
 'scalars rpc=5': 'raise builtins.TypeError: cannot unpack non-iterable int object',
 'scalars rpc=6': 'raise builtins.TypeError: cannot unpack non-iterable int object',
 'scalars rpc=1024': 'raise builtins.TypeError: cannot unpack non-iterable int object',
 'scalars rpc=-1': 'raise builtins.TypeError: cannot unpack non-iterable int object',
 'scalars rpc=True': 'raise builtins.TypeError: cannot unpack non-iterable int object',
 'scalars rpc=np.int64(2)': 'raise builtins.TypeError: cannot unpack non-iterable int object',
 'scalars rpc=np.int64(-1)': 'raise builtins.TypeError: cannot unpack non-iterable int object',
 'scalars rpc=np.uint8(9)': 'raise builtins.TypeError: cannot unpack non-iterable int object',
 'scalars rpc=IntLike(2)': 'raise builtins.TypeError: cannot unpack non-iterable int object',
 'scalars rpc=IntLike(-1)': 'raise builtins.TypeError: cannot unpack non-iterable int object',
 'scalars rpc=IntLike(99)': 'raise builtins.TypeError: cannot unpack non-iterable int object',
 'scalars rpc=Fraction(2)': 'raise builtins.TypeError: cannot unpack non-iterable int object',
 'scalars rpc=2.0': 'raise builtins.TypeError: cannot unpack non-iterable int object',
 'scalars rpc=nan': 'raise builtins.TypeError: cannot unpack non-iterable int object',
 'scalars rpc=inf': 'raise builtins.TypeError: cannot unpack non-iterable int object',
 "scalars rpc='auto'": 'raise builtins.TypeError: cannot unpack non-iterable int object',
 "scalars rpc=Text('auto')": 'raise builtins.TypeError: cannot unpack non-iterable int object',
 "scalars rpc='AUTO'": 'raise builtins.TypeError: cannot unpack non-iterable int object',
 "scalars rpc=' auto'": 'raise builtins.TypeError: cannot unpack non-iterable int object',
 "scalars rpc='1B'": 'raise builtins.TypeError: cannot unpack non-iterable int object',
 "scalars rpc='39B'": 'raise builtins.TypeError: cannot unpack non-iterable int object',
 "scalars rpc='40B'": 'raise builtins.TypeError: cannot unpack non-iterable int object',
 "scalars rpc='60B'": 'raise builtins.TypeError: cannot unpack non-iterable int object',
 "scalars rpc='61B'": 'raise builtins.TypeError: cannot unpack non-iterable int object',
 "scalars rpc='80B'": 'raise builtins.TypeError: cannot unpack non-iterable int object',
 "scalars rpc='100 B'": 'raise builtins.TypeError: cannot unpack non-iterable int object',
 "scalars rpc='0.1kB'": 'raise builtins.TypeError: cannot unpack non-iterable int object',
 "scalars rpc='1kB'": 'raise builtins.TypeError: cannot unpack non-iterable int object',
 "scalars rpc='1KiB'": 'raise builtins.TypeError: cannot unpack non-iterable int object',
 "scalars rpc='1e2'": 'raise builtins.TypeError: cannot unpack non-iterable int object',
 "scalars rpc='120'": 'raise builtins.TypeError: cannot unpack non-iterable int object',
 "scalars rpc='2'": 'raise builtins.TypeError: cannot unpack non-iterable int object',
 "scalars rpc='0'": 'raise builtins.TypeError: cannot unpack non-iterable int object',
 "scalars rpc='-1'": 'raise builtins.TypeError: cannot unpack non-iterable int object',
 "scalars rpc='-80B'": 'raise builtins.TypeError: cannot unpack non-iterable int object',
 "scalars rpc='5GB'": 'raise builtins.TypeError: cannot unpack non-iterable int object',
 "scalars rpc='MB'": 'raise builtins.TypeError: cannot unpack non-iterable int object',
 "scalars rpc=''": 'raise builtins.TypeError: cannot unpack non-iterable int object',
 "scalars rpc='B'": 'raise builtins.TypeError: cannot unpack non-iterable int object',
 "scalars rpc='5 foos'": 'raise builtins.TypeError: cannot unpack non-iterable int object',
 "scalars rpc='abc'": 'raise builtins.TypeError: cannot unpack non-iterable int object',
 "scalars rpc='1.2.3B'": 'raise builtins.TypeError: cannot unpack non-iterable int object',
 "scalars rpc=Text('80B')": 'raise builtins.TypeError: cannot unpack non-iterable int object',
 "scalars rpc=b'auto'": 'raise builtins.TypeError: cannot unpack non-iterable int object',
 "scalars rpc=b'80B'": 'raise builtins.TypeError: cannot unpack non-iterable int object',
 'scalars rpc=[2]': 'raise builtins.TypeError: cannot unpack non-iterable int object',
 'scalars rpc=(2,)': 'raise builtins.TypeError: cannot unpack non-iterable int object',
 'scalars rpc={}': 'raise builtins.TypeError: cannot unpack non-iterable int object',
 'scalars rpc=2j': 'raise builtins.TypeError: cannot unpack non-iterable int object',
 'scalars rpc=object': 'raise builtins.TypeError: cannot unpack non-iterable int object',
 'scalars rpc not given': 'raise builtins.TypeError: cannot unpack non-iterable int object',
 'strings rpc=None': "raise builtins.TypeError: unsupported operand type(s) for -: 'str' and 'str'",
 'strings rpc=1': "raise builtins.TypeError: unsupported operand type(s) for -: 'str' and 'str'",
 'strings rpc=2': "raise builtins.TypeError: unsupported operand type(s) for -: 'str' and 'str'",
 'strings rpc=3': "raise builtins.TypeError: unsupported operand type(s) for -: 'str' and 'str'",
 'strings rpc=4': "raise builtins.TypeError: unsupported operand type(s) for -: 'str' and 'str'",
 'strings rpc=5': "raise builtins.TypeError: unsupported operand type(s) for -: 'str' and 'str'",
 'strings rpc=6': "raise builtins.TypeError: unsupported operand type(s) for -: 'str' and 'str'",
 'strings rpc=1024': "raise builtins.TypeError: unsupported operand type(s) for -: 'str' and 'str'",
 'strings rpc=-1': "raise builtins.TypeError: unsupported operand type(s) for -: 'str' and 'str'",
 'strings rpc=True': "raise builtins.TypeError: unsupported operand type(s) for -: 'str' and 'str'",
 'strings rpc=np.int64(2)': "raise builtins.TypeError: unsupported operand type(s) for -: 'str' and 'str'",
 'strings rpc=np.int64(-1)': "raise builtins.TypeError: unsupported operand type(s) for -: 'str' and 'str'",
 'strings rpc=np.uint8(9)': "raise builtins.TypeError: unsupported operand type(s) for -: 'str' and 'str'",
 'strings rpc=IntLike(2)': "raise builtins.TypeError: unsupported operand type(s) for -: 'str' and 'str'",
 'strings rpc=IntLike(-1)': "raise builtins.TypeError: unsupported operand type(s) for -: 'str' and 'str'",
 'strings rpc=IntLike(99)': "raise builtins.TypeError: unsupported operand type(s) for -: 'str' and 'str'",
 'strings rpc=Fraction(2)': "raise builtins.TypeError: unsupported operand type(s) for -: 'str' and 'str'",
 'strings rpc=2.0': "raise builtins.TypeError: unsupported operand type(s) for -: 'str' and 'str'",
 'strings rpc=nan': "raise builtins.TypeError: unsupported operand type(s) for -: 'str' and 'str'",
 'strings rpc=inf': "raise builtins.TypeError: unsupported operand type(s) for -: 'str' and 'str'",
 "strings rpc='auto'": "raise builtins.TypeError: unsupported operand type(s) for -: 'str' and 'str'",
 "strings rpc=Text('auto')": "raise builtins.TypeError: unsupported operand type(s) for -: 'str' and 'str'",
 "strings rpc='AUTO'": "raise builtins.TypeError: unsupported operand type(s) for -: 'str' and 'str'",
 "strings rpc=' auto'": "raise builtins.TypeError: unsupported operand type(s) for -: 'str' and 'str'",
 "strings rpc='1B'": "raise builtins.TypeError: unsupported operand type(s) for -: 'str' and 'str'",
 "strings rpc='39B'": "raise builtins.TypeError: unsupported operand type(s) for -: 'str' and 'str'",
 "strings rpc='40B'": "raise builtins.TypeError: unsupported operand type(s) for -: 'str' and 'str'",
 "strings rpc='60B'": "raise builtins.TypeError: unsupported operand type(s) for -: 'str' and 'str'",
 "strings rpc='61B'": "raise builtins.TypeError: unsupported operand type(s) for -: 'str' and 'str'",
 "strings rpc='80B'": "raise builtins.TypeError: unsupported operand type(s) for -: 'str' and 'str'",
 "strings rpc='100 B'": "raise builtins.TypeError: unsupported operand type(s) for -: 'str' and 'str'",
 "strings rpc='0.1kB'": "raise builtins.TypeError: unsupported operand type(s) for -: 'str' and 'str'",
 "strings rpc='1kB'": "raise builtins.TypeError: unsupported operand type(s) for -: 'str' and 'str'",
 "strings rpc='1KiB'": "raise builtins.TypeError: unsupported operand type(s) for -: 'str' and 'str'",
 "strings rpc='1e2'": "raise builtins.TypeError: unsupported operand type(s) for -: 'str' and 'str'",
 "strings rpc='120'": "raise builtins.TypeError: unsupported operand type(s) for -: 'str' and 'str'",
 "strings rpc='2'": "raise builtins.TypeError: unsupported operand type(s) for -: 'str' and 'str'",
 "strings rpc='0'": "raise builtins.TypeError: unsupported operand type(s) for -: 'str' and 'str'",
 "strings rpc='-1'": "raise builtins.TypeError: unsupported operand type(s) for -: 'str' and 'str'",
 "strings rpc='-80B'": "raise builtins.TypeError: unsupported operand type(s) for -: 'str' and 'str'",
 "strings rpc='5GB'": "raise builtins.TypeError: unsupported operand type(s) for -: 'str' and 'str'",
 "strings rpc='MB'": "raise builtins.TypeError: unsupported operand type(s) for -: 'str' and 'str'",
 "strings rpc=''": "raise builtins.TypeError: unsupported operand type(s) for -: 'str' and 'str'",
 "strings rpc='B'": "raise builtins.TypeError: unsupported operand type(s) for -: 'str' and 'str'",
 "strings rpc='5 foos'": "raise builtins.TypeError: unsupported operand type(s) for -: 'str' and 'str'",
 "strings rpc='abc'": "raise builtins.TypeError: unsupported operand type(s) for -: 'str' and 'str'",
 "strings rpc='1.2.3B'": "raise builtins.TypeError: unsupported operand type(s) for -: 'str' and 'str'",
 "strings rpc=Text('80B')": "raise builtins.TypeError: unsupported operand type(s) for -: 'str' and 'str'",
 "strings rpc=b'auto'": "raise builtins.TypeError: unsupported operand type(s) for -: 'str' and 'str'",
 "strings rpc=b'80B'": "raise builtins.TypeError: unsupported operand type(s) for -: 'str' and 'str'",
 'strings rpc=[2]': "raise builtins.TypeError: unsupported operand type(s) for -: 'str' and 'str'",
 'strings rpc=(2,)': "raise builtins.TypeError: unsupported operand type(s) for -: 'str' and 'str'",
 'strings rpc={}': "raise builtins.TypeError: unsupported operand type(s) for -: 'str' and 'str'",
 'strings rpc=2j': "raise builtins.TypeError: unsupported operand type(s) for -: 'str' and 'str'",
 'strings rpc=object': "raise builtins.TypeError: unsupported operand type(s) for -: 'str' and 'str'",
 'strings rpc not given': "raise builtins.TypeError: unsupported operand type(s) for -: 'str' and 'str'",
 'not-iterable rpc=None': "raise builtins.TypeError: 'NoneType' object is not iterable",
 'not-iterable rpc=1': "raise builtins.TypeError: 'NoneType' object is not iterable",
 'not-iterable rpc=2': "raise builtins.TypeError: 'NoneType' object is not iterable",
 'not-iterable rpc=3': "raise builtins.TypeError: 'NoneType' object is not iterable",
 'not-iterable rpc=4': "raise builtins.TypeError: 'NoneType' object is not iterable",
 'not-iterable rpc=5': "raise builtins.TypeError: 'NoneType' object is not iterable",
 'not-iterable rpc=6': "raise builtins.TypeError: 'NoneType' object is not iterable",
 'not-iterable rpc=1024': "raise builtins.TypeError: 'NoneType' object is not iterable",
 'not-iterable rpc=-1': "raise builtins.TypeError: 'NoneType' object is not iterable",
 'not-iterable rpc=True': "raise builtins.TypeError: 'NoneType' object is not iterable",
 'not-iterable rpc=np.int64(2)': "raise builtins.TypeError: 'NoneType' object is not iterable",
 'not-iterable rpc=np.int64(-1)': "raise builtins.TypeError: 'NoneType' object is not iterable",
 'not-iterable rpc=np.uint8(9)': "raise builtins.TypeError: 'NoneType' object is not iterable",
 'not-iterable rpc=IntLike(2)': "raise builtins.TypeError: 'NoneType' object is not iterable",
 'not-iterable rpc=IntLike(-1)': "raise builtins.TypeError: 'NoneType' object is not iterable",
 'not-iterable rpc=IntLike(99)': "raise builtins.TypeError: 'NoneType' object is not iterable",
 'not-iterable rpc=Fraction(2)': "raise builtins.TypeError: 'NoneType' object is not iterable",
 'not-iterable rpc=2.0': "raise builtins.TypeError: 'NoneType' object is not iterable",
 'not-iterable rpc=nan': "raise builtins.TypeError: 'NoneType' object is not iterable",
 'not-iterable rpc=inf': "raise builtins.TypeError: 'NoneType' object is not iterable",
 "not-iterable rpc='auto'": "raise builtins.TypeError: 'NoneType' object is not iterable",
 "not-iterable rpc=Text('auto')": "raise builtins.TypeError: 'NoneType' object is not iterable",
 "not-iterable rpc='AUTO'": "raise builtins.TypeError: 'NoneType' object is not iterable",
 "not-iterable rpc=' auto'": "raise builtins.TypeError: 'NoneType' object is not iterable",
 "not-iterable rpc='1B'": "raise builtins.TypeError: 'NoneType' object is not iterable",
 "not-iterable rpc='39B'": "raise builtins.TypeError: 'NoneType' object is not iterable",
 "not-iterable rpc='40B'": "raise builtins.TypeError: 'NoneType' object is not iterable",
 "not-iterable rpc='60B'": "raise builtins.TypeError: 'NoneType' object is not iterable",
 "not-iterable rpc='61B'": "raise builtins.TypeError: 'NoneType' object is not iterable",
 "not-iterable rpc='80B'": "raise builtins.TypeError: 'NoneType' object is not iterable",
 "not-iterable rpc='100 B'": "raise builtins.TypeError: 'NoneType' object is not iterable",
 "not-iterable rpc='0.1kB'": "raise builtins.TypeError: 'NoneType' object is not iterable",
 "not-iterable rpc='1kB'": "raise builtins.TypeError: 'NoneType' object is not iterable",
 "not-iterable rpc='1KiB'": "raise builtins.TypeError: 'NoneType' object is not iterable",
 "not-iterable rpc='1e2'": "raise builtins.TypeError: 'NoneType' object is not iterable",
 "not-iterable rpc='120'": "raise builtins.TypeError: 'NoneType' object is not iterable",
 "not-iterable rpc='2'": "raise builtins.TypeError: 'NoneType' object is not iterable",
 "not-iterable rpc='0'": "raise builtins.TypeError: 'NoneType' object is not iterable",
 "not-iterable rpc='-1'": "raise builtins.TypeError: 'NoneType' object is not iterable",
 "not-iterable rpc='-80B'": "raise builtins.TypeError: 'NoneType' object is not iterable",
 "not-iterable rpc='5GB'": "raise builtins.TypeError: 'NoneType' object is not iterable",
 "not-iterable rpc='MB'": "raise builtins.TypeError: 'NoneType' object is not iterable",
 "not-iterable rpc=''": "raise builtins.TypeError: 'NoneType' object is not iterable",
 "not-iterable rpc='B'": "raise builtins.TypeError: 'NoneType' object is not iterable",
 "not-iterable rpc='5 foos'": "raise builtins.TypeError: 'NoneType' object is not iterable",
 "not-iterable rpc='abc'": "raise builtins.TypeError: 'NoneType' object is not iterable",
 "not-iterable rpc='1.2.3B'": "raise builtins.TypeError: 'NoneType' object is not iterable",
 "not-iterable rpc=Text('80B')": "raise builtins.TypeError: 'NoneType' object is not iterable",
 "not-iterable rpc=b'auto'": "raise builtins.TypeError: 'NoneType' object is not iterable",
 "not-iterable rpc=b'80B'": "raise builtins.TypeError: 'NoneType' object is not iterable",
 'not-iterable rpc=[2]': "raise builtins.TypeError: 'NoneType' object is not iterable",
 'not-iterable rpc=(2,)': "raise builtins.TypeError: 'NoneType' object is not iterable",
 'not-iterable rpc={}': "raise builtins.TypeError: 'NoneType' object is not iterable",
 'not-iterable rpc=2j': "raise builtins.TypeError: 'NoneType' object is not iterable",
 'not-iterable rpc=object': "raise builtins.TypeError: 'NoneType' object is not iterable",
 'not-iterable rpc not given': "raise builtins.TypeError: 'NoneType' object is not iterable",
 'mapping rpc=None': 'raise builtins.TypeError: cannot unpack non-iterable int object',
 'mapping rpc=1': 'raise builtins.TypeError: cannot unpack non-iterable int object',
 'mapping rpc=2': 'raise builtins.TypeError: cannot unpack non-iterable int object',
 'mapping rpc=3': 'raise builtins.TypeError: cannot unpack non-iterable int object',
 'mapping rpc=4': 'raise builtins.TypeError: cannot unpack non-iterable int object',
 'mapping rpc=5': 'raise builtins.TypeError: cannot unpack non-iterable int object',
 'mapping rpc=6': 'raise builtins.TypeError: cannot unpack non-iterable int object',
 'mapping rpc=1024': 'raise builtins.TypeError: cannot unpack non-iterable int object',
 'mapping rpc=-1': 'raise builtins.TypeError: cannot unpack non-iterable int object',
 'mapping rpc=True': 'raise builtins.TypeError: cannot unpack non-iterable int object',
 'mapping rpc=np.int64(2)': 'raise builtins.TypeError: cannot unpack non-iterable int object',
 'mapping rpc=np.int64(-1)': 'raise builtins.TypeError: cannot unpack non-iterable int object',
 'mapping rpc=np.uint8(9)': 'raise builtins.TypeError: cannot unpack non-iterable int object',
 'mapping rpc=IntLike(2)': 'raise builtins.TypeError: cannot unpack non-iterable int object',
 'mapping rpc=IntLike(-1)': 'raise builtins.TypeError: cannot unpack non-iterable int object',
 'mapping rpc=IntLike(99)': 'raise builtins.TypeError: cannot unpack non-iterable int object',
 'mapping rpc=Fraction(2)': 'raise builtins.TypeError: cannot unpack non-iterable int object',
 'mapping rpc=2.0': 'raise builtins.TypeError: cannot unpack non-iterable int object',
 'mapping rpc=nan': 'raise builtins.TypeError: cannot unpack non-iterable int object',
 'mapping rpc=inf': 'raise builtins.TypeError: cannot unpack non-iterable int object',
 "mapping rpc='auto'": 'raise builtins.TypeError: cannot unpack non-iterable int object',
 "mapping rpc=Text('auto')": 'raise builtins.TypeError: cannot unpack non-iterable int object',
 "mapping rpc='AUTO'": 'raise builtins.TypeError: cannot unpack non-iterable int object',
 "mapping rpc=' auto'": 'raise builtins.TypeError: cannot unpack non-iterable int object',
 "mapping rpc='1B'": 'raise builtins.TypeError: cannot unpack non-iterable int object',
 "mapping rpc='39B'": 'raise builtins.TypeError: cannot unpack non-iterable int object',
 "mapping rpc='40B'": 'raise builtins.TypeError: cannot unpack non-iterable int object',
 "mapping rpc='60B'": 'raise builtins.TypeError: cannot unpack non-iterable int object',
 "mapping rpc='61B'": 'raise builtins.TypeError: cannot unpack non-iterable int object',
 "mapping rpc='80B'": 'raise builtins.TypeError: cannot unpack non-iterable int object',
 "mapping rpc='100 B'": 'raise builtins.TypeError: cannot unpack non-iterable int object',
 "mapping rpc='0.1kB'": 'raise builtins.TypeError: cannot unpack non-iterable int object',
 "mapping rpc='1kB'": 'raise builtins.TypeError: cannot unpack non-iterable int object',
 "mapping rpc='1KiB'": 'raise builtins.TypeError: cannot unpack non-iterable int object',
 "mapping rpc='1e2'": 'raise builtins.TypeError: cannot unpack non-iterable int object',
 "mapping rpc='120'": 'raise builtins.TypeError: cannot unpack non-iterable int object',
 "mapping rpc='2'": 'raise builtins.TypeError: cannot unpack non-iterable int object',
 "mapping rpc='0'": 'raise builtins.TypeError: cannot unpack non-iterable int object',
 "mapping rpc='-1'": 'raise builtins.TypeError: cannot unpack non-iterable int object',
 "mapping rpc='-80B'": 'raise builtins.TypeError: cannot unpack non-iterable int object',
 "mapping rpc='5GB'": 'raise builtins.TypeError: cannot unpack non-iterable int object',
 "mapping rpc='MB'": 'raise builtins.TypeError: cannot unpack non-iterable int object',
 "mapping rpc=''": 'raise builtins.TypeError: cannot unpack non-iterable int object',
 "mapping rpc='B'": 'raise builtins.TypeError: cannot unpack non-iterable int object',
 "mapping rpc='5 foos'": 'raise builtins.TypeError: cannot unpack non-iterable int object',
 "mapping rpc='abc'": 'raise builtins.TypeError: cannot unpack non-iterable int object',
 "mapping rpc='1.2.3B'": 'raise builtins.TypeError: cannot unpack non-iterable int object',
 "mapping rpc=Text('80B')": 'raise builtins.TypeError: cannot unpack non-iterable int object',
 "mapping rpc=b'auto'": 'raise builtins.TypeError: cannot unpack non-iterable int object',
 "mapping rpc=b'80B'": 'raise builtins.TypeError: cannot unpack non-iterable int object',
 'mapping rpc=[2]': 'raise builtins.TypeError: cannot unpack non-iterable int object',
 'mapping rpc=(2,)': 'raise builtins.TypeError: cannot unpack non-iterable int object',
 'mapping rpc={}': 'raise builtins.TypeError: cannot unpack non-iterable int object',
 'mapping rpc=2j': 'raise builtins.TypeError: cannot unpack non-iterable int object',
 'mapping rpc=object': 'raise builtins.TypeError: cannot unpack non-iterable int object',
 'mapping rpc not given': 'raise builtins.TypeError: cannot unpack non-iterable int object',
 'shape rows-match regular4 rpc=None': "{'records_per_chunk': 'int:1024', 'chunk_offsets': "
                                       '"dict{int:0: dict{str:\'offset\': int:20, str:\'size\': int:220}}", '
                                       "'chunks': 'tuple(int:1024, int:20)', 'ndim': 'int:2', 'repr': "
                                       '"Array(url=\'image-file\', shape=(4, 20), dtype=\'uint16\', '
                                       'records_per_chunk=1024)", \'fields\': "list(str:\'fs\', str:\'url\', '
                                       "str:'byte_ranges', str:'shape', str:'dtype', str:'type_code', "
                                       'str:\'records_per_chunk\', str:\'chunk_offsets\')", \'byte_ranges '
                                       "is': True}",
 'shape rows-match regular4 rpc=2': '{\'records_per_chunk\': \'int:2\', \'chunk_offsets\': "dict{int:0: '
                                    "dict{str:'offset': int:20, str:'size': int:100}, int:1: "
                                    'dict{str:\'offset\': int:140, str:\'size\': int:100}}", \'chunks\': '
                                    "'tuple(int:2, int:20)', 'ndim': 'int:2', 'repr': "
                                    '"Array(url=\'image-file\', shape=(4, 20), dtype=\'uint16\', '
                                    'records_per_chunk=2)", \'fields\': "list(str:\'fs\', str:\'url\', '
                                    "str:'byte_ranges', str:'shape', str:'dtype', str:'type_code', "
                                    'str:\'records_per_chunk\', str:\'chunk_offsets\')", \'byte_ranges is\': '
                                    'True}',
 'shape rows-match regular4 rpc=-1': '{\'records_per_chunk\': \'int:4\', \'chunk_offsets\': "dict{int:0: '
                                     'dict{str:\'offset\': int:20, str:\'size\': int:220}}", \'chunks\': '
                                     "'tuple(int:4, int:20)', 'ndim': 'int:2', 'repr': "
                                     '"Array(url=\'image-file\', shape=(4, 20), dtype=\'uint16\', '
                                     'records_per_chunk=4)", \'fields\': "list(str:\'fs\', str:\'url\', '
                                     "str:'byte_ranges', str:'shape', str:'dtype', str:'type_code', "
                                     'str:\'records_per_chunk\', str:\'chunk_offsets\')", \'byte_ranges '
                                     "is': True}",
 'shape rows-match regular4 rpc=1024': '{\'records_per_chunk\': \'int:4\', \'chunk_offsets\': "dict{int:0: '
                                       'dict{str:\'offset\': int:20, str:\'size\': int:220}}", \'chunks\': '
                                       "'tuple(int:4, int:20)', 'ndim': 'int:2', 'repr': "
                                       '"Array(url=\'image-file\', shape=(4, 20), dtype=\'uint16\', '
                                       'records_per_chunk=4)", \'fields\': "list(str:\'fs\', str:\'url\', '
                                       "str:'byte_ranges', str:'shape', str:'dtype', str:'type_code', "
                                       'str:\'records_per_chunk\', str:\'chunk_offsets\')", \'byte_ranges '
                                       "is': True}",
 'shape rows-match regular4 rpc=np.int64(2)': "{'records_per_chunk': 'int64(2)', 'chunk_offsets': "
                                              '"dict{int:0: dict{str:\'offset\': int:20, str:\'size\': '
                                              "int:100}, int:1: dict{str:'offset': int:140, str:'size': "
                                              'int:100}}", \'chunks\': \'tuple(int64(2), int:20)\', '
                                              '\'ndim\': \'int:2\', \'repr\': "Array(url=\'image-file\', '
                                              "shape=(4, 20), dtype='uint16', "
                                              'records_per_chunk=np.int64(2))", \'fields\': '
                                              '"list(str:\'fs\', str:\'url\', str:\'byte_ranges\', '
                                              "str:'shape', str:'dtype', str:'type_code', "
                                              'str:\'records_per_chunk\', str:\'chunk_offsets\')", '
                                              "'byte_ranges is': True}",
 "shape rows-match regular4 rpc='auto'": "{'records_per_chunk': 'int64(4)', 'chunk_offsets': "
                                         '"dict{int:0: dict{str:\'offset\': int:20, str:\'size\': '
                                         'int:220}}", \'chunks\': \'tuple(int64(4), int:20)\', \'ndim\': '
                                         '\'int:2\', \'repr\': "Array(url=\'image-file\', shape=(4, 20), '
                                         'dtype=\'uint16\', records_per_chunk=np.int64(4))", \'fields\': '
                                         '"list(str:\'fs\', str:\'url\', str:\'byte_ranges\', str:\'shape\', '
                                         "str:'dtype', str:'type_code', str:'records_per_chunk', "
                                         'str:\'chunk_offsets\')", \'byte_ranges is\': True}',
 "shape rows-match regular4 rpc='80B'": "{'records_per_chunk': 'int64(2)', 'chunk_offsets': "
                                        '"dict{int:0: dict{str:\'offset\': int:20, str:\'size\': int:100}, '
                                        'int:1: dict{str:\'offset\': int:140, str:\'size\': int:100}}", '
                                        "'chunks': 'tuple(int64(2), int:20)', 'ndim': 'int:2', 'repr': "
                                        '"Array(url=\'image-file\', shape=(4, 20), dtype=\'uint16\', '
                                        'records_per_chunk=np.int64(2))", \'fields\': "list(str:\'fs\', '
                                        "str:'url', str:'byte_ranges', str:'shape', str:'dtype', "
                                        "str:'type_code', str:'records_per_chunk', "
                                        'str:\'chunk_offsets\')", \'byte_ranges is\': True}',
 "shape rows-match regular4 rpc='abc'": "raise builtins.ValueError: Could not interpret 'abc' as a byte unit",
 'shape rows-match regular4 rpc=[2]': "raise builtins.TypeError: '>' not supported between instances of "
                                      "'list' and 'int'",
 'shape rows-match ragged5 rpc=None': '{\'records_per_chunk\': \'int:1024\', \'chunk_offsets\': "dict{int:0: '
                                      'dict{str:\'offset\': int:20, str:\'size\': int:280}}", \'chunks\': '
                                      "'tuple(int:1024, int:20)', 'ndim': 'int:2', 'repr': "
                                      '"Array(url=\'image-file\', shape=(5, 20), dtype=\'uint16\', '
                                      'records_per_chunk=1024)", \'fields\': "list(str:\'fs\', str:\'url\', '
                                      "str:'byte_ranges', str:'shape', str:'dtype', str:'type_code', "
                                      'str:\'records_per_chunk\', str:\'chunk_offsets\')", \'byte_ranges '
                                      "is': True}",
 'shape rows-match ragged5 rpc=2': '{\'records_per_chunk\': \'int:2\', \'chunk_offsets\': "dict{int:0: '
                                   "dict{str:'offset': int:20, str:'size': int:100}, int:1: "
                                   "dict{str:'offset': int:140, str:'size': int:100}, int:2: "
                                   'dict{str:\'offset\': int:260, str:\'size\': int:40}}", \'chunks\': '
                                   "'tuple(int:2, int:20)', 'ndim': 'int:2', 'repr': "
                                   '"Array(url=\'image-file\', shape=(5, 20), dtype=\'uint16\', '
                                   'records_per_chunk=2)", \'fields\': "list(str:\'fs\', str:\'url\', '
                                   "str:'byte_ranges', str:'shape', str:'dtype', str:'type_code', "
                                   'str:\'records_per_chunk\', str:\'chunk_offsets\')", \'byte_ranges is\': '
                                   'True}',
 'shape rows-match ragged5 rpc=-1': '{\'records_per_chunk\': \'int:5\', \'chunk_offsets\': "dict{int:0: '
                                    'dict{str:\'offset\': int:20, str:\'size\': int:280}}", \'chunks\': '
                                    "'tuple(int:5, int:20)', 'ndim': 'int:2', 'repr': "
                                    '"Array(url=\'image-file\', shape=(5, 20), dtype=\'uint16\', '
                                    'records_per_chunk=5)", \'fields\': "list(str:\'fs\', str:\'url\', '
                                    "str:'byte_ranges', str:'shape', str:'dtype', str:'type_code', "
                                    'str:\'records_per_chunk\', str:\'chunk_offsets\')", \'byte_ranges is\': '
                                    'True}',
 'shape rows-match ragged5 rpc=1024': '{\'records_per_chunk\': \'int:5\', \'chunk_offsets\': "dict{int:0: '
                                      'dict{str:\'offset\': int:20, str:\'size\': int:280}}", \'chunks\': '
                                      "'tuple(int:5, int:20)', 'ndim': 'int:2', 'repr': "
                                      '"Array(url=\'image-file\', shape=(5, 20), dtype=\'uint16\', '
                                      'records_per_chunk=5)", \'fields\': "list(str:\'fs\', str:\'url\', '
                                      "str:'byte_ranges', str:'shape', str:'dtype', str:'type_code', "
                                      'str:\'records_per_chunk\', str:\'chunk_offsets\')", \'byte_ranges '
                                      "is': True}",
 'shape rows-match ragged5 rpc=np.int64(2)': "{'records_per_chunk': 'int64(2)', 'chunk_offsets': "
                                             '"dict{int:0: dict{str:\'offset\': int:20, str:\'size\': '
                                             "int:100}, int:1: dict{str:'offset': int:140, str:'size': "
                                             "int:100}, int:2: dict{str:'offset': int:260, str:'size': "
                                             'int:40}}", \'chunks\': \'tuple(int64(2), int:20)\', \'ndim\': '
                                             '\'int:2\', \'repr\': "Array(url=\'image-file\', shape=(5, 20), '
                                             'dtype=\'uint16\', records_per_chunk=np.int64(2))", \'fields\': '
                                             '"list(str:\'fs\', str:\'url\', str:\'byte_ranges\', '
                                             "str:'shape', str:'dtype', str:'type_code', "
                                             'str:\'records_per_chunk\', str:\'chunk_offsets\')", '
                                             "'byte_ranges is': True}",
 "shape rows-match ragged5 rpc='auto'": "{'records_per_chunk': 'int64(5)', 'chunk_offsets': "
                                        '"dict{int:0: dict{str:\'offset\': int:20, str:\'size\': int:280}}", '
                                        "'chunks': 'tuple(int64(5), int:20)', 'ndim': 'int:2', 'repr': "
                                        '"Array(url=\'image-file\', shape=(5, 20), dtype=\'uint16\', '
                                        'records_per_chunk=np.int64(5))", \'fields\': "list(str:\'fs\', '
                                        "str:'url', str:'byte_ranges', str:'shape', str:'dtype', "
                                        "str:'type_code', str:'records_per_chunk', "
                                        'str:\'chunk_offsets\')", \'byte_ranges is\': True}',
 "shape rows-match ragged5 rpc='80B'": "{'records_per_chunk': 'int64(2)', 'chunk_offsets': "
                                       '"dict{int:0: dict{str:\'offset\': int:20, str:\'size\': int:100}, '
                                       "int:1: dict{str:'offset': int:140, str:'size': int:100}, int:2: "
                                       'dict{str:\'offset\': int:260, str:\'size\': int:40}}", \'chunks\': '
                                       "'tuple(int64(2), int:20)', 'ndim': 'int:2', 'repr': "
                                       '"Array(url=\'image-file\', shape=(5, 20), dtype=\'uint16\', '
                                       'records_per_chunk=np.int64(2))", \'fields\': "list(str:\'fs\', '
                                       "str:'url', str:'byte_ranges', str:'shape', str:'dtype', "
                                       "str:'type_code', str:'records_per_chunk', "
                                       'str:\'chunk_offsets\')", \'byte_ranges is\': True}',
 "shape rows-match ragged5 rpc='abc'": "raise builtins.ValueError: Could not interpret 'abc' as a byte unit",
 'shape rows-match ragged5 rpc=[2]': "raise builtins.TypeError: '>' not supported between instances of "
                                     "'list' and 'int'",
 'shape rows-match none rpc=None': "{'records_per_chunk': 'int:1024', 'chunk_offsets': 'dict{}', 'chunks': "
                                   "'tuple(int:1024, int:20)', 'ndim': 'int:2', 'repr': "
                                   '"Array(url=\'image-file\', shape=(0, 20), dtype=\'uint16\', '
                                   'records_per_chunk=1024)", \'fields\': "list(str:\'fs\', str:\'url\', '
                                   "str:'byte_ranges', str:'shape', str:'dtype', str:'type_code', "
                                   'str:\'records_per_chunk\', str:\'chunk_offsets\')", \'byte_ranges is\': '
                                   'True}',
 'shape rows-match none rpc=2': "{'records_per_chunk': 'int:0', 'chunk_offsets': 'dict{}', 'chunks': "
                                "'tuple(int:0, int:20)', 'ndim': 'int:2', 'repr': "
                                '"Array(url=\'image-file\', shape=(0, 20), dtype=\'uint16\', '
                                'records_per_chunk=0)", \'fields\': "list(str:\'fs\', str:\'url\', '
                                "str:'byte_ranges', str:'shape', str:'dtype', str:'type_code', "
                                'str:\'records_per_chunk\', str:\'chunk_offsets\')", \'byte_ranges is\': '
                                'True}',
 'shape rows-match none rpc=-1': "{'records_per_chunk': 'int:0', 'chunk_offsets': 'dict{}', 'chunks': "
                                 "'tuple(int:0, int:20)', 'ndim': 'int:2', 'repr': "
                                 '"Array(url=\'image-file\', shape=(0, 20), dtype=\'uint16\', '
                                 'records_per_chunk=0)", \'fields\': "list(str:\'fs\', str:\'url\', '
                                 "str:'byte_ranges', str:'shape', str:'dtype', str:'type_code', "
                                 'str:\'records_per_chunk\', str:\'chunk_offsets\')", \'byte_ranges is\': '
                                 'True}',
 'shape rows-match none rpc=1024': "{'records_per_chunk': 'int:0', 'chunk_offsets': 'dict{}', 'chunks': "
                                   "'tuple(int:0, int:20)', 'ndim': 'int:2', 'repr': "
                                   '"Array(url=\'image-file\', shape=(0, 20), dtype=\'uint16\', '
                                   'records_per_chunk=0)", \'fields\': "list(str:\'fs\', str:\'url\', '
                                   "str:'byte_ranges', str:'shape', str:'dtype', str:'type_code', "
                                   'str:\'records_per_chunk\', str:\'chunk_offsets\')", \'byte_ranges is\': '
                                   'True}',
 'shape rows-match none rpc=np.int64(2)': "{'records_per_chunk': 'int:0', 'chunk_offsets': 'dict{}', "
                                          "'chunks': 'tuple(int:0, int:20)', 'ndim': 'int:2', 'repr': "
                                          '"Array(url=\'image-file\', shape=(0, 20), dtype=\'uint16\', '
                                          'records_per_chunk=0)", \'fields\': "list(str:\'fs\', str:\'url\', '
                                          "str:'byte_ranges', str:'shape', str:'dtype', str:'type_code', "
                                          'str:\'records_per_chunk\', str:\'chunk_offsets\')", \'byte_ranges '
                                          "is': True}",
 "shape rows-match none rpc='auto'": 'raise builtins.ValueError: attempt to get argmin of an empty sequence',
 "shape rows-match none rpc='80B'": 'raise builtins.ValueError: attempt to get argmin of an empty sequence',
 "shape rows-match none rpc='abc'": "raise builtins.ValueError: Could not interpret 'abc' as a byte unit",
 'shape rows-match none rpc=[2]': "raise builtins.TypeError: '>' not supported between instances of 'list' "
                                  "and 'int'",
 'shape rows-more regular4 rpc=None': '{\'records_per_chunk\': \'int:1024\', \'chunk_offsets\': "dict{int:0: '
                                      'dict{str:\'offset\': int:20, str:\'size\': int:220}}", \'chunks\': '
                                      "'tuple(int:1024, int:20)', 'ndim': 'int:2', 'repr': "
                                      '"Array(url=\'image-file\', shape=(7, 20), dtype=\'uint16\', '
                                      'records_per_chunk=1024)", \'fields\': "list(str:\'fs\', str:\'url\', '
                                      "str:'byte_ranges', str:'shape', str:'dtype', str:'type_code', "
                                      'str:\'records_per_chunk\', str:\'chunk_offsets\')", \'byte_ranges '
                                      "is': True}",
 'shape rows-more regular4 rpc=2': '{\'records_per_chunk\': \'int:2\', \'chunk_offsets\': "dict{int:0: '
                                   "dict{str:'offset': int:20, str:'size': int:100}, int:1: "
                                   'dict{str:\'offset\': int:140, str:\'size\': int:100}}", \'chunks\': '
                                   "'tuple(int:2, int:20)', 'ndim': 'int:2', 'repr': "
                                   '"Array(url=\'image-file\', shape=(7, 20), dtype=\'uint16\', '
                                   'records_per_chunk=2)", \'fields\': "list(str:\'fs\', str:\'url\', '
                                   "str:'byte_ranges', str:'shape', str:'dtype', str:'type_code', "
                                   'str:\'records_per_chunk\', str:\'chunk_offsets\')", \'byte_ranges is\': '
                                   'True}',
 'shape rows-more regular4 rpc=-1': '{\'records_per_chunk\': \'int:7\', \'chunk_offsets\': "dict{int:0: '
                                    'dict{str:\'offset\': int:20, str:\'size\': int:220}}", \'chunks\': '
                                    "'tuple(int:7, int:20)', 'ndim': 'int:2', 'repr': "
                                    '"Array(url=\'image-file\', shape=(7, 20), dtype=\'uint16\', '
                                    'records_per_chunk=7)", \'fields\': "list(str:\'fs\', str:\'url\', '
                                    "str:'byte_ranges', str:'shape', str:'dtype', str:'type_code', "
                                    'str:\'records_per_chunk\', str:\'chunk_offsets\')", \'byte_ranges is\': '
                                    'True}',
 'shape rows-more regular4 rpc=1024': '{\'records_per_chunk\': \'int:7\', \'chunk_offsets\': "dict{int:0: '
                                      'dict{str:\'offset\': int:20, str:\'size\': int:220}}", \'chunks\': '
                                      "'tuple(int:7, int:20)', 'ndim': 'int:2', 'repr': "
                                      '"Array(url=\'image-file\', shape=(7, 20), dtype=\'uint16\', '
                                      'records_per_chunk=7)", \'fields\': "list(str:\'fs\', str:\'url\', '
                                      "str:'byte_ranges', str:'shape', str:'dtype', str:'type_code', "
                                      'str:\'records_per_chunk\', str:\'chunk_offsets\')", \'byte_ranges '
                                      "is': True}",
 'shape rows-more regular4 rpc=np.int64(2)': "{'records_per_chunk': 'int64(2)', 'chunk_offsets': "
                                             '"dict{int:0: dict{str:\'offset\': int:20, str:\'size\': '
                                             "int:100}, int:1: dict{str:'offset': int:140, str:'size': "
                                             'int:100}}", \'chunks\': \'tuple(int64(2), int:20)\', \'ndim\': '
                                             '\'int:2\', \'repr\': "Array(url=\'image-file\', shape=(7, 20), '
                                             'dtype=\'uint16\', records_per_chunk=np.int64(2))", \'fields\': '
                                             '"list(str:\'fs\', str:\'url\', str:\'byte_ranges\', '
                                             "str:'shape', str:'dtype', str:'type_code', "
                                             'str:\'records_per_chunk\', str:\'chunk_offsets\')", '
                                             "'byte_ranges is': True}",
 "shape rows-more regular4 rpc='auto'": "{'records_per_chunk': 'int64(4)', 'chunk_offsets': "
                                        '"dict{int:0: dict{str:\'offset\': int:20, str:\'size\': int:220}}", '
                                        "'chunks': 'tuple(int64(4), int:20)', 'ndim': 'int:2', 'repr': "
                                        '"Array(url=\'image-file\', shape=(7, 20), dtype=\'uint16\', '
                                        'records_per_chunk=np.int64(4))", \'fields\': "list(str:\'fs\', '
                                        "str:'url', str:'byte_ranges', str:'shape', str:'dtype', "
                                        "str:'type_code', str:'records_per_chunk', "
                                        'str:\'chunk_offsets\')", \'byte_ranges is\': True}',
 "shape rows-more regular4 rpc='80B'": "{'records_per_chunk': 'int64(2)', 'chunk_offsets': "
                                       '"dict{int:0: dict{str:\'offset\': int:20, str:\'size\': int:100}, '
                                       'int:1: dict{str:\'offset\': int:140, str:\'size\': int:100}}", '
                                       "'chunks': 'tuple(int64(2), int:20)', 'ndim': 'int:2', 'repr': "
                                       '"Array(url=\'image-file\', shape=(7, 20), dtype=\'uint16\', '
                                       'records_per_chunk=np.int64(2))", \'fields\': "list(str:\'fs\', '
                                       "str:'url', str:'byte_ranges', str:'shape', str:'dtype', "
                                       "str:'type_code', str:'records_per_chunk', "
                                       'str:\'chunk_offsets\')", \'byte_ranges is\': True}',
 "shape rows-more regular4 rpc='abc'": "raise builtins.ValueError: Could not interpret 'abc' as a byte unit",
 'shape rows-more regular4 rpc=[2]': "raise builtins.TypeError: '>' not supported between instances of "
                                     "'list' and 'int'",
 'shape rows-more ragged5 rpc=None': '{\'records_per_chunk\': \'int:1024\', \'chunk_offsets\': "dict{int:0: '
                                     'dict{str:\'offset\': int:20, str:\'size\': int:280}}", \'chunks\': '
                                     "'tuple(int:1024, int:20)', 'ndim': 'int:2', 'repr': "
                                     '"Array(url=\'image-file\', shape=(8, 20), dtype=\'uint16\', '
                                     'records_per_chunk=1024)", \'fields\': "list(str:\'fs\', str:\'url\', '
                                     "str:'byte_ranges', str:'shape', str:'dtype', str:'type_code', "
                                     'str:\'records_per_chunk\', str:\'chunk_offsets\')", \'byte_ranges '
                                     "is': True}",
 'shape rows-more ragged5 rpc=2': '{\'records_per_chunk\': \'int:2\', \'chunk_offsets\': "dict{int:0: '
                                  "dict{str:'offset': int:20, str:'size': int:100}, int:1: "
                                  "dict{str:'offset': int:140, str:'size': int:100}, int:2: "
                                  'dict{str:\'offset\': int:260, str:\'size\': int:40}}", \'chunks\': '
                                  "'tuple(int:2, int:20)', 'ndim': 'int:2', 'repr': "
                                  '"Array(url=\'image-file\', shape=(8, 20), dtype=\'uint16\', '
                                  'records_per_chunk=2)", \'fields\': "list(str:\'fs\', str:\'url\', '
                                  "str:'byte_ranges', str:'shape', str:'dtype', str:'type_code', "
                                  'str:\'records_per_chunk\', str:\'chunk_offsets\')", \'byte_ranges is\': '
                                  'True}',
 'shape rows-more ragged5 rpc=-1': '{\'records_per_chunk\': \'int:8\', \'chunk_offsets\': "dict{int:0: '
                                   'dict{str:\'offset\': int:20, str:\'size\': int:280}}", \'chunks\': '
                                   "'tuple(int:8, int:20)', 'ndim': 'int:2', 'repr': "
                                   '"Array(url=\'image-file\', shape=(8, 20), dtype=\'uint16\', '
                                   'records_per_chunk=8)", \'fields\': "list(str:\'fs\', str:\'url\', '
                                   "str:'byte_ranges', str:'shape', str:'dtype', str:'type_code', "
                                   'str:\'records_per_chunk\', str:\'chunk_offsets\')", \'byte_ranges is\': '
                                   'True}',
 'shape rows-more ragged5 rpc=1024': '{\'records_per_chunk\': \'int:8\', \'chunk_offsets\': "dict{int:0: '
                                     'dict{str:\'offset\': int:20, str:\'size\': int:280}}", \'chunks\': '
                                     "'tuple(int:8, int:20)', 'ndim': 'int:2', 'repr': "
                                     '"Array(url=\'image-file\', shape=(8, 20), dtype=\'uint16\', '
                                     'records_per_chunk=8)", \'fields\': "list(str:\'fs\', str:\'url\', '
                                     "str:'byte_ranges', str:'shape', str:'dtype', str:'type_code', "
                                     'str:\'records_per_chunk\', str:\'chunk_offsets\')", \'byte_ranges '
                                     "is': True}",
 'shape rows-more ragged5 rpc=np.int64(2)': "{'records_per_chunk': 'int64(2)', 'chunk_offsets': "
                                            '"dict{int:0: dict{str:\'offset\': int:20, str:\'size\': '
                                            "int:100}, int:1: dict{str:'offset': int:140, str:'size': "
                                            "int:100}, int:2: dict{str:'offset': int:260, str:'size': "
                                            'int:40}}", \'chunks\': \'tuple(int64(2), int:20)\', \'ndim\': '
                                            '\'int:2\', \'repr\': "Array(url=\'image-file\', shape=(8, 20), '
                                            'dtype=\'uint16\', records_per_chunk=np.int64(2))", \'fields\': '
                                            '"list(str:\'fs\', str:\'url\', str:\'byte_ranges\', '
                                            "str:'shape', str:'dtype', str:'type_code', "
                                            'str:\'records_per_chunk\', str:\'chunk_offsets\')", '
                                            "'byte_ranges is': True}",
 "shape rows-more ragged5 rpc='auto'": "{'records_per_chunk': 'int64(5)', 'chunk_offsets': "
                                       '"dict{int:0: dict{str:\'offset\': int:20, str:\'size\': int:280}}", '
                                       "'chunks': 'tuple(int64(5), int:20)', 'ndim': 'int:2', 'repr': "
                                       '"Array(url=\'image-file\', shape=(8, 20), dtype=\'uint16\', '
                                       'records_per_chunk=np.int64(5))", \'fields\': "list(str:\'fs\', '
                                       "str:'url', str:'byte_ranges', str:'shape', str:'dtype', "
                                       "str:'type_code', str:'records_per_chunk', "
                                       'str:\'chunk_offsets\')", \'byte_ranges is\': True}',
 "shape rows-more ragged5 rpc='80B'": '{\'records_per_chunk\': \'int64(2)\', \'chunk_offsets\': "dict{int:0: '
                                      "dict{str:'offset': int:20, str:'size': int:100}, int:1: "
                                      "dict{str:'offset': int:140, str:'size': int:100}, int:2: "
                                      'dict{str:\'offset\': int:260, str:\'size\': int:40}}", \'chunks\': '
                                      "'tuple(int64(2), int:20)', 'ndim': 'int:2', 'repr': "
                                      '"Array(url=\'image-file\', shape=(8, 20), dtype=\'uint16\', '
                                      'records_per_chunk=np.int64(2))", \'fields\': "list(str:\'fs\', '
                                      "str:'url', str:'byte_ranges', str:'shape', str:'dtype', "
                                      "str:'type_code', str:'records_per_chunk', "
                                      'str:\'chunk_offsets\')", \'byte_ranges is\': True}',
 "shape rows-more ragged5 rpc='abc'": "raise builtins.ValueError: Could not interpret 'abc' as a byte unit",
 'shape rows-more ragged5 rpc=[2]': "raise builtins.TypeError: '>' not supported between instances of 'list' "
                                    "and 'int'",
 'shape rows-more none rpc=None': "{'records_per_chunk': 'int:1024', 'chunk_offsets': 'dict{}', 'chunks': "
                                  "'tuple(int:1024, int:20)', 'ndim': 'int:2', 'repr': "
                                  '"Array(url=\'image-file\', shape=(3, 20), dtype=\'uint16\', '
                                  'records_per_chunk=1024)", \'fields\': "list(str:\'fs\', str:\'url\', '
                                  "str:'byte_ranges', str:'shape', str:'dtype', str:'type_code', "
                                  'str:\'records_per_chunk\', str:\'chunk_offsets\')", \'byte_ranges is\': '
                                  'True}',
 'shape rows-more none rpc=2': "{'records_per_chunk': 'int:2', 'chunk_offsets': 'dict{}', 'chunks': "
                               "'tuple(int:2, int:20)', 'ndim': 'int:2', 'repr': "
                               '"Array(url=\'image-file\', shape=(3, 20), dtype=\'uint16\', '
                               'records_per_chunk=2)", \'fields\': "list(str:\'fs\', str:\'url\', '
                               "str:'byte_ranges', str:'shape', str:'dtype', str:'type_code', "
                               'str:\'records_per_chunk\', str:\'chunk_offsets\')", \'byte_ranges is\': '
                               'True}',
 'shape rows-more none rpc=-1': "{'records_per_chunk': 'int:3', 'chunk_offsets': 'dict{}', 'chunks': "
                                "'tuple(int:3, int:20)', 'ndim': 'int:2', 'repr': "
                                '"Array(url=\'image-file\', shape=(3, 20), dtype=\'uint16\', '
                                'records_per_chunk=3)", \'fields\': "list(str:\'fs\', str:\'url\', '
                                "str:'byte_ranges', str:'shape', str:'dtype', str:'type_code', "
                                'str:\'records_per_chunk\', str:\'chunk_offsets\')", \'byte_ranges is\': '
                                'True}',
 'shape rows-more none rpc=1024': "{'records_per_chunk': 'int:3', 'chunk_offsets': 'dict{}', 'chunks': "
                                  "'tuple(int:3, int:20)', 'ndim': 'int:2', 'repr': "
                                  '"Array(url=\'image-file\', shape=(3, 20), dtype=\'uint16\', '
                                  'records_per_chunk=3)", \'fields\': "list(str:\'fs\', str:\'url\', '
                                  "str:'byte_ranges', str:'shape', str:'dtype', str:'type_code', "
                                  'str:\'records_per_chunk\', str:\'chunk_offsets\')", \'byte_ranges is\': '
                                  'True}',
 'shape rows-more none rpc=np.int64(2)': "{'records_per_chunk': 'int64(2)', 'chunk_offsets': 'dict{}', "
                                         "'chunks': 'tuple(int64(2), int:20)', 'ndim': 'int:2', 'repr': "
                                         '"Array(url=\'image-file\', shape=(3, 20), dtype=\'uint16\', '
                                         'records_per_chunk=np.int64(2))", \'fields\': "list(str:\'fs\', '
                                         "str:'url', str:'byte_ranges', str:'shape', str:'dtype', "
                                         "str:'type_code', str:'records_per_chunk', "
                                         'str:\'chunk_offsets\')", \'byte_ranges is\': True}',
 "shape rows-more none rpc='auto'": 'raise builtins.ValueError: attempt to get argmin of an empty sequence',
 "shape rows-more none rpc='80B'": 'raise builtins.ValueError: attempt to get argmin of an empty sequence',
 "shape rows-more none rpc='abc'": "raise builtins.ValueError: Could not interpret 'abc' as a byte unit",
 'shape rows-more none rpc=[2]': "raise builtins.TypeError: '>' not supported between instances of 'list' "
                                 "and 'int'",
 'shape rows-fewer regular4 rpc=None': "{'records_per_chunk': 'int:1024', 'chunk_offsets': "
                                       '"dict{int:0: dict{str:\'offset\': int:20, str:\'size\': int:220}}", '
                                       "'chunks': 'tuple(int:1024, int:20)', 'ndim': 'int:2', 'repr': "
                                       '"Array(url=\'image-file\', shape=(3, 20), dtype=\'uint16\', '
                                       'records_per_chunk=1024)", \'fields\': "list(str:\'fs\', str:\'url\', '
                                       "str:'byte_ranges', str:'shape', str:'dtype', str:'type_code', "
                                       'str:\'records_per_chunk\', str:\'chunk_offsets\')", \'byte_ranges '
                                       "is': True}",
 'shape rows-fewer regular4 rpc=2': '{\'records_per_chunk\': \'int:2\', \'chunk_offsets\': "dict{int:0: '
                                    "dict{str:'offset': int:20, str:'size': int:100}, int:1: "
                                    'dict{str:\'offset\': int:140, str:\'size\': int:100}}", \'chunks\': '
                                    "'tuple(int:2, int:20)', 'ndim': 'int:2', 'repr': "
                                    '"Array(url=\'image-file\', shape=(3, 20), dtype=\'uint16\', '
                                    'records_per_chunk=2)", \'fields\': "list(str:\'fs\', str:\'url\', '
                                    "str:'byte_ranges', str:'shape', str:'dtype', str:'type_code', "
                                    'str:\'records_per_chunk\', str:\'chunk_offsets\')", \'byte_ranges is\': '
                                    'True}',
 'shape rows-fewer regular4 rpc=-1': '{\'records_per_chunk\': \'int:3\', \'chunk_offsets\': "dict{int:0: '
                                     "dict{str:'offset': int:20, str:'size': int:160}, int:1: "
                                     'dict{str:\'offset\': int:200, str:\'size\': int:40}}", \'chunks\': '
                                     "'tuple(int:3, int:20)', 'ndim': 'int:2', 'repr': "
                                     '"Array(url=\'image-file\', shape=(3, 20), dtype=\'uint16\', '
                                     'records_per_chunk=3)", \'fields\': "list(str:\'fs\', str:\'url\', '
                                     "str:'byte_ranges', str:'shape', str:'dtype', str:'type_code', "
                                     'str:\'records_per_chunk\', str:\'chunk_offsets\')", \'byte_ranges '
                                     "is': True}",
 'shape rows-fewer regular4 rpc=1024': '{\'records_per_chunk\': \'int:3\', \'chunk_offsets\': "dict{int:0: '
                                       "dict{str:'offset': int:20, str:'size': int:160}, int:1: "
                                       'dict{str:\'offset\': int:200, str:\'size\': int:40}}", \'chunks\': '
                                       "'tuple(int:3, int:20)', 'ndim': 'int:2', 'repr': "
                                       '"Array(url=\'image-file\', shape=(3, 20), dtype=\'uint16\', '
                                       'records_per_chunk=3)", \'fields\': "list(str:\'fs\', str:\'url\', '
                                       "str:'byte_ranges', str:'shape', str:'dtype', str:'type_code', "
                                       'str:\'records_per_chunk\', str:\'chunk_offsets\')", \'byte_ranges '
                                       "is': True}",
 'shape rows-fewer regular4 rpc=np.int64(2)': "{'records_per_chunk': 'int64(2)', 'chunk_offsets': "
                                              '"dict{int:0: dict{str:\'offset\': int:20, str:\'size\': '
                                              "int:100}, int:1: dict{str:'offset': int:140, str:'size': "
                                              'int:100}}", \'chunks\': \'tuple(int64(2), int:20)\', '
                                              '\'ndim\': \'int:2\', \'repr\': "Array(url=\'image-file\', '
                                              "shape=(3, 20), dtype='uint16', "
                                              'records_per_chunk=np.int64(2))", \'fields\': '
                                              '"list(str:\'fs\', str:\'url\', str:\'byte_ranges\', '
                                              "str:'shape', str:'dtype', str:'type_code', "
                                              'str:\'records_per_chunk\', str:\'chunk_offsets\')", '
                                              "'byte_ranges is': True}",
 "shape rows-fewer regular4 rpc='auto'": "{'records_per_chunk': 'int64(4)', 'chunk_offsets': "
                                         '"dict{int:0: dict{str:\'offset\': int:20, str:\'size\': '
                                         'int:220}}", \'chunks\': \'tuple(int64(4), int:20)\', \'ndim\': '
                                         '\'int:2\', \'repr\': "Array(url=\'image-file\', shape=(3, 20), '
                                         'dtype=\'uint16\', records_per_chunk=np.int64(4))", \'fields\': '
                                         '"list(str:\'fs\', str:\'url\', str:\'byte_ranges\', str:\'shape\', '
                                         "str:'dtype', str:'type_code', str:'records_per_chunk', "
                                         'str:\'chunk_offsets\')", \'byte_ranges is\': True}',
 "shape rows-fewer regular4 rpc='80B'": "{'records_per_chunk': 'int64(2)', 'chunk_offsets': "
                                        '"dict{int:0: dict{str:\'offset\': int:20, str:\'size\': int:100}, '
                                        'int:1: dict{str:\'offset\': int:140, str:\'size\': int:100}}", '
                                        "'chunks': 'tuple(int64(2), int:20)', 'ndim': 'int:2', 'repr': "
                                        '"Array(url=\'image-file\', shape=(3, 20), dtype=\'uint16\', '
                                        'records_per_chunk=np.int64(2))", \'fields\': "list(str:\'fs\', '
                                        "str:'url', str:'byte_ranges', str:'shape', str:'dtype', "
                                        "str:'type_code', str:'records_per_chunk', "
                                        'str:\'chunk_offsets\')", \'byte_ranges is\': True}',
 "shape rows-fewer regular4 rpc='abc'": "raise builtins.ValueError: Could not interpret 'abc' as a byte unit",
 'shape rows-fewer regular4 rpc=[2]': "raise builtins.TypeError: '>' not supported between instances of "
                                      "'list' and 'int'",
 'shape rows-fewer ragged5 rpc=None': '{\'records_per_chunk\': \'int:1024\', \'chunk_offsets\': "dict{int:0: '
                                      'dict{str:\'offset\': int:20, str:\'size\': int:280}}", \'chunks\': '
                                      "'tuple(int:1024, int:20)', 'ndim': 'int:2', 'repr': "
                                      '"Array(url=\'image-file\', shape=(4, 20), dtype=\'uint16\', '
                                      'records_per_chunk=1024)", \'fields\': "list(str:\'fs\', str:\'url\', '
                                      "str:'byte_ranges', str:'shape', str:'dtype', str:'type_code', "
                                      'str:\'records_per_chunk\', str:\'chunk_offsets\')", \'byte_ranges '
                                      "is': True}",
 'shape rows-fewer ragged5 rpc=2': '{\'records_per_chunk\': \'int:2\', \'chunk_offsets\': "dict{int:0: '
                                   "dict{str:'offset': int:20, str:'size': int:100}, int:1: "
                                   "dict{str:'offset': int:140, str:'size': int:100}, int:2: "
                                   'dict{str:\'offset\': int:260, str:\'size\': int:40}}", \'chunks\': '
                                   "'tuple(int:2, int:20)', 'ndim': 'int:2', 'repr': "
                                   '"Array(url=\'image-file\', shape=(4, 20), dtype=\'uint16\', '
                                   'records_per_chunk=2)", \'fields\': "list(str:\'fs\', str:\'url\', '
                                   "str:'byte_ranges', str:'shape', str:'dtype', str:'type_code', "
                                   'str:\'records_per_chunk\', str:\'chunk_offsets\')", \'byte_ranges is\': '
                                   'True}',
 'shape rows-fewer ragged5 rpc=-1': '{\'records_per_chunk\': \'int:4\', \'chunk_offsets\': "dict{int:0: '
                                    "dict{str:'offset': int:20, str:'size': int:220}, int:1: "
                                    'dict{str:\'offset\': int:260, str:\'size\': int:40}}", \'chunks\': '
                                    "'tuple(int:4, int:20)', 'ndim': 'int:2', 'repr': "
                                    '"Array(url=\'image-file\', shape=(4, 20), dtype=\'uint16\', '
                                    'records_per_chunk=4)", \'fields\': "list(str:\'fs\', str:\'url\', '
                                    "str:'byte_ranges', str:'shape', str:'dtype', str:'type_code', "
                                    'str:\'records_per_chunk\', str:\'chunk_offsets\')", \'byte_ranges is\': '
                                    'True}',
 'shape rows-fewer ragged5 rpc=1024': '{\'records_per_chunk\': \'int:4\', \'chunk_offsets\': "dict{int:0: '
                                      "dict{str:'offset': int:20, str:'size': int:220}, int:1: "
                                      'dict{str:\'offset\': int:260, str:\'size\': int:40}}", \'chunks\': '
                                      "'tuple(int:4, int:20)', 'ndim': 'int:2', 'repr': "
                                      '"Array(url=\'image-file\', shape=(4, 20), dtype=\'uint16\', '
                                      'records_per_chunk=4)", \'fields\': "list(str:\'fs\', str:\'url\', '
                                      "str:'byte_ranges', str:'shape', str:'dtype', str:'type_code', "
                                      'str:\'records_per_chunk\', str:\'chunk_offsets\')", \'byte_ranges '
                                      "is': True}",
 'shape rows-fewer ragged5 rpc=np.int64(2)': "{'records_per_chunk': 'int64(2)', 'chunk_offsets': "
                                             '"dict{int:0: dict{str:\'offset\': int:20, str:\'size\': '
                                             "int:100}, int:1: dict{str:'offset': int:140, str:'size': "
                                             "int:100}, int:2: dict{str:'offset': int:260, str:'size': "
                                             'int:40}}", \'chunks\': \'tuple(int64(2), int:20)\', \'ndim\': '
                                             '\'int:2\', \'repr\': "Array(url=\'image-file\', shape=(4, 20), '
                                             'dtype=\'uint16\', records_per_chunk=np.int64(2))", \'fields\': '
                                             '"list(str:\'fs\', str:\'url\', str:\'byte_ranges\', '
                                             "str:'shape', str:'dtype', str:'type_code', "
                                             'str:\'records_per_chunk\', str:\'chunk_offsets\')", '
                                             "'byte_ranges is': True}",
 "shape rows-fewer ragged5 rpc='auto'": "{'records_per_chunk': 'int64(5)', 'chunk_offsets': "
                                        '"dict{int:0: dict{str:\'offset\': int:20, str:\'size\': int:280}}", '
                                        "'chunks': 'tuple(int64(5), int:20)', 'ndim': 'int:2', 'repr': "
                                        '"Array(url=\'image-file\', shape=(4, 20), dtype=\'uint16\', '
                                        'records_per_chunk=np.int64(5))", \'fields\': "list(str:\'fs\', '
                                        "str:'url', str:'byte_ranges', str:'shape', str:'dtype', "
                                        "str:'type_code', str:'records_per_chunk', "
                                        'str:\'chunk_offsets\')", \'byte_ranges is\': True}',
 "shape rows-fewer ragged5 rpc='80B'": "{'records_per_chunk': 'int64(2)', 'chunk_offsets': "
                                       '"dict{int:0: dict{str:\'offset\': int:20, str:\'size\': int:100}, '
                                       "int:1: dict{str:'offset': int:140, str:'size': int:100}, int:2: "
                                       'dict{str:\'offset\': int:260, str:\'size\': int:40}}", \'chunks\': '
                                       "'tuple(int64(2), int:20)', 'ndim': 'int:2', 'repr': "
                                       '"Array(url=\'image-file\', shape=(4, 20), dtype=\'uint16\', '
                                       'records_per_chunk=np.int64(2))", \'fields\': "list(str:\'fs\', '
                                       "str:'url', str:'byte_ranges', str:'shape', str:'dtype', "
                                       "str:'type_code', str:'records_per_chunk', "
                                       'str:\'chunk_offsets\')", \'byte_ranges is\': True}',
 "shape rows-fewer ragged5 rpc='abc'": "raise builtins.ValueError: Could not interpret 'abc' as a byte unit",
 'shape rows-fewer ragged5 rpc=[2]': "raise builtins.TypeError: '>' not supported between instances of "
                                     "'list' and 'int'",
 'shape rows-fewer none rpc=None': "{'records_per_chunk': 'int:1024', 'chunk_offsets': 'dict{}', 'chunks': "
                                   "'tuple(int:1024, int:20)', 'ndim': 'int:2', 'repr': "
                                   '"Array(url=\'image-file\', shape=(0, 20), dtype=\'uint16\', '
                                   'records_per_chunk=1024)", \'fields\': "list(str:\'fs\', str:\'url\', '
                                   "str:'byte_ranges', str:'shape', str:'dtype', str:'type_code', "
                                   'str:\'records_per_chunk\', str:\'chunk_offsets\')", \'byte_ranges is\': '
                                   'True}',
 'shape rows-fewer none rpc=2': "{'records_per_chunk': 'int:0', 'chunk_offsets': 'dict{}', 'chunks': "
                                "'tuple(int:0, int:20)', 'ndim': 'int:2', 'repr': "
                                '"Array(url=\'image-file\', shape=(0, 20), dtype=\'uint16\', '
                                'records_per_chunk=0)", \'fields\': "list(str:\'fs\', str:\'url\', '
                                "str:'byte_ranges', str:'shape', str:'dtype', str:'type_code', "
                                'str:\'records_per_chunk\', str:\'chunk_offsets\')", \'byte_ranges is\': '
                                'True}',
 'shape rows-fewer none rpc=-1': "{'records_per_chunk': 'int:0', 'chunk_offsets': 'dict{}', 'chunks': "
                                 "'tuple(int:0, int:20)', 'ndim': 'int:2', 'repr': "
                                 '"Array(url=\'image-file\', shape=(0, 20), dtype=\'uint16\', '
                                 'records_per_chunk=0)", \'fields\': "list(str:\'fs\', str:\'url\', '
                                 "str:'byte_ranges', str:'shape', str:'dtype', str:'type_code', "
                                 'str:\'records_per_chunk\', str:\'chunk_offsets\')", \'byte_ranges is\': '
                                 'True}',
 'shape rows-fewer none rpc=1024': "{'records_per_chunk': 'int:0', 'chunk_offsets': 'dict{}', 'chunks': "
                                   "'tuple(int:0, int:20)', 'ndim': 'int:2', 'repr': "
                                   '"Array(url=\'image-file\', shape=(0, 20), dtype=\'uint16\', '
                                   'records_per_chunk=0)", \'fields\': "list(str:\'fs\', str:\'url\', '
                                   "str:'byte_ranges', str:'shape', str:'dtype', str:'type_code', "
                                   'str:\'records_per_chunk\', str:\'chunk_offsets\')", \'byte_ranges is\': '
                                   'True}',
 'shape rows-fewer none rpc=np.int64(2)': "{'records_per_chunk': 'int:0', 'chunk_offsets': 'dict{}', "
                                          "'chunks': 'tuple(int:0, int:20)', 'ndim': 'int:2', 'repr': "
                                          '"Array(url=\'image-file\', shape=(0, 20), dtype=\'uint16\', '
                                          'records_per_chunk=0)", \'fields\': "list(str:\'fs\', str:\'url\', '
                                          "str:'byte_ranges', str:'shape', str:'dtype', str:'type_code', "
                                          'str:\'records_per_chunk\', str:\'chunk_offsets\')", \'byte_ranges '
                                          "is': True}",
 "shape rows-fewer none rpc='auto'": 'raise builtins.ValueError: attempt to get argmin of an empty sequence',
 "shape rows-fewer none rpc='80B'": 'raise builtins.ValueError: attempt to get argmin of an empty sequence',
 "shape rows-fewer none rpc='abc'": "raise builtins.ValueError: Could not interpret 'abc' as a byte unit",
 'shape rows-fewer none rpc=[2]': "raise builtins.TypeError: '>' not supported between instances of 'list' "
                                  "and 'int'",
 'shape 3d regular4 rpc=None': '{\'records_per_chunk\': \'int:1024\', \'chunk_offsets\': "dict{int:0: '
                               'dict{str:\'offset\': int:20, str:\'size\': int:220}}", \'chunks\': '
                               "'tuple(int:1024, int:5, int:4)', 'ndim': 'int:3', 'repr': "
                               '"Array(url=\'image-file\', shape=(4, 5, 4), dtype=\'uint16\', '
                               'records_per_chunk=1024)", \'fields\': "list(str:\'fs\', str:\'url\', '
                               "str:'byte_ranges', str:'shape', str:'dtype', str:'type_code', "
                               'str:\'records_per_chunk\', str:\'chunk_offsets\')", \'byte_ranges is\': '
                               'True}',
 'shape 3d regular4 rpc=2': '{\'records_per_chunk\': \'int:2\', \'chunk_offsets\': "dict{int:0: '
                            "dict{str:'offset': int:20, str:'size': int:100}, int:1: dict{str:'offset': "
                            'int:140, str:\'size\': int:100}}", \'chunks\': \'tuple(int:2, int:5, int:4)\', '
                            '\'ndim\': \'int:3\', \'repr\': "Array(url=\'image-file\', shape=(4, 5, 4), '
                            'dtype=\'uint16\', records_per_chunk=2)", \'fields\': "list(str:\'fs\', '
                            "str:'url', str:'byte_ranges', str:'shape', str:'dtype', str:'type_code', "
                            'str:\'records_per_chunk\', str:\'chunk_offsets\')", \'byte_ranges is\': True}',
 'shape 3d regular4 rpc=-1': '{\'records_per_chunk\': \'int:4\', \'chunk_offsets\': "dict{int:0: '
                             'dict{str:\'offset\': int:20, str:\'size\': int:220}}", \'chunks\': '
                             "'tuple(int:4, int:5, int:4)', 'ndim': 'int:3', 'repr': "
                             '"Array(url=\'image-file\', shape=(4, 5, 4), dtype=\'uint16\', '
                             'records_per_chunk=4)", \'fields\': "list(str:\'fs\', str:\'url\', '
                             "str:'byte_ranges', str:'shape', str:'dtype', str:'type_code', "
                             'str:\'records_per_chunk\', str:\'chunk_offsets\')", \'byte_ranges is\': True}',
 'shape 3d regular4 rpc=1024': '{\'records_per_chunk\': \'int:4\', \'chunk_offsets\': "dict{int:0: '
                               'dict{str:\'offset\': int:20, str:\'size\': int:220}}", \'chunks\': '
                               "'tuple(int:4, int:5, int:4)', 'ndim': 'int:3', 'repr': "
                               '"Array(url=\'image-file\', shape=(4, 5, 4), dtype=\'uint16\', '
                               'records_per_chunk=4)", \'fields\': "list(str:\'fs\', str:\'url\', '
                               "str:'byte_ranges', str:'shape', str:'dtype', str:'type_code', "
                               'str:\'records_per_chunk\', str:\'chunk_offsets\')", \'byte_ranges is\': '
                               'True}',
 'shape 3d regular4 rpc=np.int64(2)': '{\'records_per_chunk\': \'int64(2)\', \'chunk_offsets\': "dict{int:0: '
                                      "dict{str:'offset': int:20, str:'size': int:100}, int:1: "
                                      'dict{str:\'offset\': int:140, str:\'size\': int:100}}", \'chunks\': '
                                      "'tuple(int64(2), int:5, int:4)', 'ndim': 'int:3', 'repr': "
                                      '"Array(url=\'image-file\', shape=(4, 5, 4), dtype=\'uint16\', '
                                      'records_per_chunk=np.int64(2))", \'fields\': "list(str:\'fs\', '
                                      "str:'url', str:'byte_ranges', str:'shape', str:'dtype', "
                                      "str:'type_code', str:'records_per_chunk', "
                                      'str:\'chunk_offsets\')", \'byte_ranges is\': True}',
 "shape 3d regular4 rpc='auto'": '{\'records_per_chunk\': \'int64(4)\', \'chunk_offsets\': "dict{int:0: '
                                 'dict{str:\'offset\': int:20, str:\'size\': int:220}}", \'chunks\': '
                                 "'tuple(int64(4), int:5, int:4)', 'ndim': 'int:3', 'repr': "
                                 '"Array(url=\'image-file\', shape=(4, 5, 4), dtype=\'uint16\', '
                                 'records_per_chunk=np.int64(4))", \'fields\': "list(str:\'fs\', '
                                 "str:'url', str:'byte_ranges', str:'shape', str:'dtype', str:'type_code', "
                                 'str:\'records_per_chunk\', str:\'chunk_offsets\')", \'byte_ranges is\': '
                                 'True}',
 "shape 3d regular4 rpc='80B'": '{\'records_per_chunk\': \'int64(2)\', \'chunk_offsets\': "dict{int:0: '
                                "dict{str:'offset': int:20, str:'size': int:100}, int:1: dict{str:'offset': "
                                'int:140, str:\'size\': int:100}}", \'chunks\': \'tuple(int64(2), int:5, '
                                'int:4)\', \'ndim\': \'int:3\', \'repr\': "Array(url=\'image-file\', '
                                'shape=(4, 5, 4), dtype=\'uint16\', records_per_chunk=np.int64(2))", '
                                '\'fields\': "list(str:\'fs\', str:\'url\', str:\'byte_ranges\', '
                                "str:'shape', str:'dtype', str:'type_code', str:'records_per_chunk', "
                                'str:\'chunk_offsets\')", \'byte_ranges is\': True}',
 "shape 3d regular4 rpc='abc'": "raise builtins.ValueError: Could not interpret 'abc' as a byte unit",
 'shape 3d regular4 rpc=[2]': "raise builtins.TypeError: '>' not supported between instances of 'list' and "
                              "'int'",
 'shape 3d ragged5 rpc=None': '{\'records_per_chunk\': \'int:1024\', \'chunk_offsets\': "dict{int:0: '
                              'dict{str:\'offset\': int:20, str:\'size\': int:280}}", \'chunks\': '
                              "'tuple(int:1024, int:5, int:4)', 'ndim': 'int:3', 'repr': "
                              '"Array(url=\'image-file\', shape=(5, 5, 4), dtype=\'uint16\', '
                              'records_per_chunk=1024)", \'fields\': "list(str:\'fs\', str:\'url\', '
                              "str:'byte_ranges', str:'shape', str:'dtype', str:'type_code', "
                              'str:\'records_per_chunk\', str:\'chunk_offsets\')", \'byte_ranges is\': True}',
 'shape 3d ragged5 rpc=2': '{\'records_per_chunk\': \'int:2\', \'chunk_offsets\': "dict{int:0: '
                           "dict{str:'offset': int:20, str:'size': int:100}, int:1: dict{str:'offset': "
                           "int:140, str:'size': int:100}, int:2: dict{str:'offset': int:260, str:'size': "
                           'int:40}}", \'chunks\': \'tuple(int:2, int:5, int:4)\', \'ndim\': \'int:3\', '
                           '\'repr\': "Array(url=\'image-file\', shape=(5, 5, 4), dtype=\'uint16\', '
                           'records_per_chunk=2)", \'fields\': "list(str:\'fs\', str:\'url\', '
                           "str:'byte_ranges', str:'shape', str:'dtype', str:'type_code', "
                           'str:\'records_per_chunk\', str:\'chunk_offsets\')", \'byte_ranges is\': True}',
 'shape 3d ragged5 rpc=-1': '{\'records_per_chunk\': \'int:5\', \'chunk_offsets\': "dict{int:0: '
                            'dict{str:\'offset\': int:20, str:\'size\': int:280}}", \'chunks\': '
                            "'tuple(int:5, int:5, int:4)', 'ndim': 'int:3', 'repr': "
                            '"Array(url=\'image-file\', shape=(5, 5, 4), dtype=\'uint16\', '
                            'records_per_chunk=5)", \'fields\': "list(str:\'fs\', str:\'url\', '
                            "str:'byte_ranges', str:'shape', str:'dtype', str:'type_code', "
                            'str:\'records_per_chunk\', str:\'chunk_offsets\')", \'byte_ranges is\': True}',
 'shape 3d ragged5 rpc=1024': '{\'records_per_chunk\': \'int:5\', \'chunk_offsets\': "dict{int:0: '
                              'dict{str:\'offset\': int:20, str:\'size\': int:280}}", \'chunks\': '
                              "'tuple(int:5, int:5, int:4)', 'ndim': 'int:3', 'repr': "
                              '"Array(url=\'image-file\', shape=(5, 5, 4), dtype=\'uint16\', '
                              'records_per_chunk=5)", \'fields\': "list(str:\'fs\', str:\'url\', '
                              "str:'byte_ranges', str:'shape', str:'dtype', str:'type_code', "
                              'str:\'records_per_chunk\', str:\'chunk_offsets\')", \'byte_ranges is\': True}',
 'shape 3d ragged5 rpc=np.int64(2)': '{\'records_per_chunk\': \'int64(2)\', \'chunk_offsets\': "dict{int:0: '
                                     "dict{str:'offset': int:20, str:'size': int:100}, int:1: "
                                     "dict{str:'offset': int:140, str:'size': int:100}, int:2: "
                                     'dict{str:\'offset\': int:260, str:\'size\': int:40}}", \'chunks\': '
                                     "'tuple(int64(2), int:5, int:4)', 'ndim': 'int:3', 'repr': "
                                     '"Array(url=\'image-file\', shape=(5, 5, 4), dtype=\'uint16\', '
                                     'records_per_chunk=np.int64(2))", \'fields\': "list(str:\'fs\', '
                                     "str:'url', str:'byte_ranges', str:'shape', str:'dtype', "
                                     'str:\'type_code\', str:\'records_per_chunk\', str:\'chunk_offsets\')", '
                                     "'byte_ranges is': True}",
 "shape 3d ragged5 rpc='auto'": '{\'records_per_chunk\': \'int64(5)\', \'chunk_offsets\': "dict{int:0: '
                                'dict{str:\'offset\': int:20, str:\'size\': int:280}}", \'chunks\': '
                                "'tuple(int64(5), int:5, int:4)', 'ndim': 'int:3', 'repr': "
                                '"Array(url=\'image-file\', shape=(5, 5, 4), dtype=\'uint16\', '
                                'records_per_chunk=np.int64(5))", \'fields\': "list(str:\'fs\', str:\'url\', '
                                "str:'byte_ranges', str:'shape', str:'dtype', str:'type_code', "
                                'str:\'records_per_chunk\', str:\'chunk_offsets\')", \'byte_ranges is\': '
                                'True}',
 "shape 3d ragged5 rpc='80B'": '{\'records_per_chunk\': \'int64(2)\', \'chunk_offsets\': "dict{int:0: '
                               "dict{str:'offset': int:20, str:'size': int:100}, int:1: dict{str:'offset': "
                               "int:140, str:'size': int:100}, int:2: dict{str:'offset': int:260, "
                               'str:\'size\': int:40}}", \'chunks\': \'tuple(int64(2), int:5, int:4)\', '
                               '\'ndim\': \'int:3\', \'repr\': "Array(url=\'image-file\', shape=(5, 5, 4), '
                               'dtype=\'uint16\', records_per_chunk=np.int64(2))", \'fields\': '
                               '"list(str:\'fs\', str:\'url\', str:\'byte_ranges\', str:\'shape\', '
                               "str:'dtype', str:'type_code', str:'records_per_chunk', "
                               'str:\'chunk_offsets\')", \'byte_ranges is\': True}',
 "shape 3d ragged5 rpc='abc'": "raise builtins.ValueError: Could not interpret 'abc' as a byte unit",
 'shape 3d ragged5 rpc=[2]': "raise builtins.TypeError: '>' not supported between instances of 'list' and "
                             "'int'",
 'shape 3d none rpc=None': "{'records_per_chunk': 'int:1024', 'chunk_offsets': 'dict{}', 'chunks': "
                           "'tuple(int:1024, int:5, int:4)', 'ndim': 'int:3', 'repr': "
                           '"Array(url=\'image-file\', shape=(0, 5, 4), dtype=\'uint16\', '
                           'records_per_chunk=1024)", \'fields\': "list(str:\'fs\', str:\'url\', '
                           "str:'byte_ranges', str:'shape', str:'dtype', str:'type_code', "
                           'str:\'records_per_chunk\', str:\'chunk_offsets\')", \'byte_ranges is\': True}',
 'shape 3d none rpc=2': "{'records_per_chunk': 'int:0', 'chunk_offsets': 'dict{}', 'chunks': 'tuple(int:0, "
                        'int:5, int:4)\', \'ndim\': \'int:3\', \'repr\': "Array(url=\'image-file\', '
                        'shape=(0, 5, 4), dtype=\'uint16\', records_per_chunk=0)", \'fields\': '
                        '"list(str:\'fs\', str:\'url\', str:\'byte_ranges\', str:\'shape\', str:\'dtype\', '
                        'str:\'type_code\', str:\'records_per_chunk\', str:\'chunk_offsets\')", '
                        "'byte_ranges is': True}",
 'shape 3d none rpc=-1': "{'records_per_chunk': 'int:0', 'chunk_offsets': 'dict{}', 'chunks': 'tuple(int:0, "
                         'int:5, int:4)\', \'ndim\': \'int:3\', \'repr\': "Array(url=\'image-file\', '
                         'shape=(0, 5, 4), dtype=\'uint16\', records_per_chunk=0)", \'fields\': '
                         '"list(str:\'fs\', str:\'url\', str:\'byte_ranges\', str:\'shape\', str:\'dtype\', '
                         'str:\'type_code\', str:\'records_per_chunk\', str:\'chunk_offsets\')", '
                         "'byte_ranges is': True}",
 'shape 3d none rpc=1024': "{'records_per_chunk': 'int:0', 'chunk_offsets': 'dict{}', 'chunks': "
                           "'tuple(int:0, int:5, int:4)', 'ndim': 'int:3', 'repr': "
                           '"Array(url=\'image-file\', shape=(0, 5, 4), dtype=\'uint16\', '
                           'records_per_chunk=0)", \'fields\': "list(str:\'fs\', str:\'url\', '
                           "str:'byte_ranges', str:'shape', str:'dtype', str:'type_code', "
                           'str:\'records_per_chunk\', str:\'chunk_offsets\')", \'byte_ranges is\': True}',
 'shape 3d none rpc=np.int64(2)': "{'records_per_chunk': 'int:0', 'chunk_offsets': 'dict{}', 'chunks': "
                                  "'tuple(int:0, int:5, int:4)', 'ndim': 'int:3', 'repr': "
                                  '"Array(url=\'image-file\', shape=(0, 5, 4), dtype=\'uint16\', '
                                  'records_per_chunk=0)", \'fields\': "list(str:\'fs\', str:\'url\', '
                                  "str:'byte_ranges', str:'shape', str:'dtype', str:'type_code', "
                                  'str:\'records_per_chunk\', str:\'chunk_offsets\')", \'byte_ranges is\': '
                                  'True}',
 "shape 3d none rpc='auto'": 'raise builtins.ValueError: attempt to get argmin of an empty sequence',
 "shape 3d none rpc='80B'": 'raise builtins.ValueError: attempt to get argmin of an empty sequence',
 "shape 3d none rpc='abc'": "raise builtins.ValueError: Could not interpret 'abc' as a byte unit",
 'shape 3d none rpc=[2]': "raise builtins.TypeError: '>' not supported between instances of 'list' and 'int'",
 'shape 1d regular4 rpc=None': '{\'records_per_chunk\': \'int:1024\', \'chunk_offsets\': "dict{int:0: '
                               'dict{str:\'offset\': int:20, str:\'size\': int:220}}", \'chunks\': '
                               "'tuple(int:1024)', 'ndim': 'int:1', 'repr': "
                               '"Array(url=\'image-file\', shape=(4,), dtype=\'uint16\', '
                               'records_per_chunk=1024)", \'fields\': "list(str:\'fs\', str:\'url\', '
                               "str:'byte_ranges', str:'shape', str:'dtype', str:'type_code', "
                               'str:\'records_per_chunk\', str:\'chunk_offsets\')", \'byte_ranges is\': '
                               'True}',
 'shape 1d regular4 rpc=2': '{\'records_per_chunk\': \'int:2\', \'chunk_offsets\': "dict{int:0: '
                            "dict{str:'offset': int:20, str:'size': int:100}, int:1: dict{str:'offset': "
                            'int:140, str:\'size\': int:100}}", \'chunks\': \'tuple(int:2)\', \'ndim\': '
                            '\'int:1\', \'repr\': "Array(url=\'image-file\', shape=(4,), dtype=\'uint16\', '
                            'records_per_chunk=2)", \'fields\': "list(str:\'fs\', str:\'url\', '
                            "str:'byte_ranges', str:'shape', str:'dtype', str:'type_code', "
                            'str:\'records_per_chunk\', str:\'chunk_offsets\')", \'byte_ranges is\': True}',
 'shape 1d regular4 rpc=-1': '{\'records_per_chunk\': \'int:4\', \'chunk_offsets\': "dict{int:0: '
                             'dict{str:\'offset\': int:20, str:\'size\': int:220}}", \'chunks\': '
                             '\'tuple(int:4)\', \'ndim\': \'int:1\', \'repr\': "Array(url=\'image-file\', '
                             'shape=(4,), dtype=\'uint16\', records_per_chunk=4)", \'fields\': '
                             '"list(str:\'fs\', str:\'url\', str:\'byte_ranges\', str:\'shape\', '
                             "str:'dtype', str:'type_code', str:'records_per_chunk', "
                             'str:\'chunk_offsets\')", \'byte_ranges is\': True}',
 'shape 1d regular4 rpc=1024': '{\'records_per_chunk\': \'int:4\', \'chunk_offsets\': "dict{int:0: '
                               'dict{str:\'offset\': int:20, str:\'size\': int:220}}", \'chunks\': '
                               '\'tuple(int:4)\', \'ndim\': \'int:1\', \'repr\': "Array(url=\'image-file\', '
                               'shape=(4,), dtype=\'uint16\', records_per_chunk=4)", \'fields\': '
                               '"list(str:\'fs\', str:\'url\', str:\'byte_ranges\', str:\'shape\', '
                               "str:'dtype', str:'type_code', str:'records_per_chunk', "
                               'str:\'chunk_offsets\')", \'byte_ranges is\': True}',
 'shape 1d regular4 rpc=np.int64(2)': '{\'records_per_chunk\': \'int64(2)\', \'chunk_offsets\': "dict{int:0: '
                                      "dict{str:'offset': int:20, str:'size': int:100}, int:1: "
                                      'dict{str:\'offset\': int:140, str:\'size\': int:100}}", \'chunks\': '
                                      "'tuple(int64(2))', 'ndim': 'int:1', 'repr': "
                                      '"Array(url=\'image-file\', shape=(4,), dtype=\'uint16\', '
                                      'records_per_chunk=np.int64(2))", \'fields\': "list(str:\'fs\', '
                                      "str:'url', str:'byte_ranges', str:'shape', str:'dtype', "
                                      "str:'type_code', str:'records_per_chunk', "
                                      'str:\'chunk_offsets\')", \'byte_ranges is\': True}',
 "shape 1d regular4 rpc='auto'": '{\'records_per_chunk\': \'int64(4)\', \'chunk_offsets\': "dict{int:0: '
                                 'dict{str:\'offset\': int:20, str:\'size\': int:220}}", \'chunks\': '
                                 "'tuple(int64(4))', 'ndim': 'int:1', 'repr': "
                                 '"Array(url=\'image-file\', shape=(4,), dtype=\'uint16\', '
                                 'records_per_chunk=np.int64(4))", \'fields\': "list(str:\'fs\', '
                                 "str:'url', str:'byte_ranges', str:'shape', str:'dtype', str:'type_code', "
                                 'str:\'records_per_chunk\', str:\'chunk_offsets\')", \'byte_ranges is\': '
                                 'True}',
 "shape 1d regular4 rpc='80B'": '{\'records_per_chunk\': \'int64(2)\', \'chunk_offsets\': "dict{int:0: '
                                "dict{str:'offset': int:20, str:'size': int:100}, int:1: dict{str:'offset': "
                                'int:140, str:\'size\': int:100}}", \'chunks\': \'tuple(int64(2))\', '
                                '\'ndim\': \'int:1\', \'repr\': "Array(url=\'image-file\', shape=(4,), '
                                'dtype=\'uint16\', records_per_chunk=np.int64(2))", \'fields\': '
                                '"list(str:\'fs\', str:\'url\', str:\'byte_ranges\', str:\'shape\', '
                                "str:'dtype', str:'type_code', str:'records_per_chunk', "
                                'str:\'chunk_offsets\')", \'byte_ranges is\': True}',
 "shape 1d regular4 rpc='abc'": "raise builtins.ValueError: Could not interpret 'abc' as a byte unit",
 'shape 1d regular4 rpc=[2]': "raise builtins.TypeError: '>' not supported between instances of 'list' and "
                              "'int'",
 'shape 1d ragged5 rpc=None': '{\'records_per_chunk\': \'int:1024\', \'chunk_offsets\': "dict{int:0: '
                              'dict{str:\'offset\': int:20, str:\'size\': int:280}}", \'chunks\': '
                              "'tuple(int:1024)', 'ndim': 'int:1', 'repr': "
                              '"Array(url=\'image-file\', shape=(5,), dtype=\'uint16\', '
                              'records_per_chunk=1024)", \'fields\': "list(str:\'fs\', str:\'url\', '
                              "str:'byte_ranges', str:'shape', str:'dtype', str:'type_code', "
                              'str:\'records_per_chunk\', str:\'chunk_offsets\')", \'byte_ranges is\': True}',
 'shape 1d ragged5 rpc=2': '{\'records_per_chunk\': \'int:2\', \'chunk_offsets\': "dict{int:0: '
                           "dict{str:'offset': int:20, str:'size': int:100}, int:1: dict{str:'offset': "
                           "int:140, str:'size': int:100}, int:2: dict{str:'offset': int:260, str:'size': "
                           'int:40}}", \'chunks\': \'tuple(int:2)\', \'ndim\': \'int:1\', \'repr\': '
                           '"Array(url=\'image-file\', shape=(5,), dtype=\'uint16\', records_per_chunk=2)", '
                           '\'fields\': "list(str:\'fs\', str:\'url\', str:\'byte_ranges\', str:\'shape\', '
                           "str:'dtype', str:'type_code', str:'records_per_chunk', "
                           'str:\'chunk_offsets\')", \'byte_ranges is\': True}',
 'shape 1d ragged5 rpc=-1': '{\'records_per_chunk\': \'int:5\', \'chunk_offsets\': "dict{int:0: '
                            'dict{str:\'offset\': int:20, str:\'size\': int:280}}", \'chunks\': '
                            '\'tuple(int:5)\', \'ndim\': \'int:1\', \'repr\': "Array(url=\'image-file\', '
                            'shape=(5,), dtype=\'uint16\', records_per_chunk=5)", \'fields\': '
                            '"list(str:\'fs\', str:\'url\', str:\'byte_ranges\', str:\'shape\', '
                            "str:'dtype', str:'type_code', str:'records_per_chunk', "
                            'str:\'chunk_offsets\')", \'byte_ranges is\': True}',
 'shape 1d ragged5 rpc=1024': '{\'records_per_chunk\': \'int:5\', \'chunk_offsets\': "dict{int:0: '
                              'dict{str:\'offset\': int:20, str:\'size\': int:280}}", \'chunks\': '
                              '\'tuple(int:5)\', \'ndim\': \'int:1\', \'repr\': "Array(url=\'image-file\', '
                              'shape=(5,), dtype=\'uint16\', records_per_chunk=5)", \'fields\': '
                              '"list(str:\'fs\', str:\'url\', str:\'byte_ranges\', str:\'shape\', '
                              "str:'dtype', str:'type_code', str:'records_per_chunk', "
                              'str:\'chunk_offsets\')", \'byte_ranges is\': True}',
 'shape 1d ragged5 rpc=np.int64(2)': '{\'records_per_chunk\': \'int64(2)\', \'chunk_offsets\': "dict{int:0: '
                                     "dict{str:'offset': int:20, str:'size': int:100}, int:1: "
                                     "dict{str:'offset': int:140, str:'size': int:100}, int:2: "
                                     'dict{str:\'offset\': int:260, str:\'size\': int:40}}", \'chunks\': '
                                     "'tuple(int64(2))', 'ndim': 'int:1', 'repr': "
                                     '"Array(url=\'image-file\', shape=(5,), dtype=\'uint16\', '
                                     'records_per_chunk=np.int64(2))", \'fields\': "list(str:\'fs\', '
                                     "str:'url', str:'byte_ranges', str:'shape', str:'dtype', "
                                     'str:\'type_code\', str:\'records_per_chunk\', str:\'chunk_offsets\')", '
                                     "'byte_ranges is': True}",
 "shape 1d ragged5 rpc='auto'": '{\'records_per_chunk\': \'int64(5)\', \'chunk_offsets\': "dict{int:0: '
                                'dict{str:\'offset\': int:20, str:\'size\': int:280}}", \'chunks\': '
                                "'tuple(int64(5))', 'ndim': 'int:1', 'repr': "
                                '"Array(url=\'image-file\', shape=(5,), dtype=\'uint16\', '
                                'records_per_chunk=np.int64(5))", \'fields\': "list(str:\'fs\', str:\'url\', '
                                "str:'byte_ranges', str:'shape', str:'dtype', str:'type_code', "
                                'str:\'records_per_chunk\', str:\'chunk_offsets\')", \'byte_ranges is\': '
                                'True}',
 "shape 1d ragged5 rpc='80B'": '{\'records_per_chunk\': \'int64(2)\', \'chunk_offsets\': "dict{int:0: '
                               "dict{str:'offset': int:20, str:'size': int:100}, int:1: dict{str:'offset': "
                               "int:140, str:'size': int:100}, int:2: dict{str:'offset': int:260, "
                               'str:\'size\': int:40}}", \'chunks\': \'tuple(int64(2))\', \'ndim\': '
                               '\'int:1\', \'repr\': "Array(url=\'image-file\', shape=(5,), '
                               'dtype=\'uint16\', records_per_chunk=np.int64(2))", \'fields\': '
                               '"list(str:\'fs\', str:\'url\', str:\'byte_ranges\', str:\'shape\', '
                               "str:'dtype', str:'type_code', str:'records_per_chunk', "
                               'str:\'chunk_offsets\')", \'byte_ranges is\': True}',
 "shape 1d ragged5 rpc='abc'": "raise builtins.ValueError: Could not interpret 'abc' as a byte unit",
 'shape 1d ragged5 rpc=[2]': "raise builtins.TypeError: '>' not supported between instances of 'list' and "
                             "'int'",
 'shape 1d none rpc=None': "{'records_per_chunk': 'int:1024', 'chunk_offsets': 'dict{}', 'chunks': "
                           '\'tuple(int:1024)\', \'ndim\': \'int:1\', \'repr\': "Array(url=\'image-file\', '
                           'shape=(0,), dtype=\'uint16\', records_per_chunk=1024)", \'fields\': '
                           '"list(str:\'fs\', str:\'url\', str:\'byte_ranges\', str:\'shape\', '
                           "str:'dtype', str:'type_code', str:'records_per_chunk', "
                           'str:\'chunk_offsets\')", \'byte_ranges is\': True}',
 'shape 1d none rpc=2': "{'records_per_chunk': 'int:0', 'chunk_offsets': 'dict{}', 'chunks': 'tuple(int:0)', "
                        '\'ndim\': \'int:1\', \'repr\': "Array(url=\'image-file\', shape=(0,), '
                        'dtype=\'uint16\', records_per_chunk=0)", \'fields\': "list(str:\'fs\', str:\'url\', '
                        "str:'byte_ranges', str:'shape', str:'dtype', str:'type_code', "
                        'str:\'records_per_chunk\', str:\'chunk_offsets\')", \'byte_ranges is\': True}',
 'shape 1d none rpc=-1': "{'records_per_chunk': 'int:0', 'chunk_offsets': 'dict{}', 'chunks': "
                         '\'tuple(int:0)\', \'ndim\': \'int:1\', \'repr\': "Array(url=\'image-file\', '
                         'shape=(0,), dtype=\'uint16\', records_per_chunk=0)", \'fields\': "list(str:\'fs\', '
                         "str:'url', str:'byte_ranges', str:'shape', str:'dtype', str:'type_code', "
                         'str:\'records_per_chunk\', str:\'chunk_offsets\')", \'byte_ranges is\': True}',
 'shape 1d none rpc=1024': "{'records_per_chunk': 'int:0', 'chunk_offsets': 'dict{}', 'chunks': "
                           '\'tuple(int:0)\', \'ndim\': \'int:1\', \'repr\': "Array(url=\'image-file\', '
                           'shape=(0,), dtype=\'uint16\', records_per_chunk=0)", \'fields\': '
                           '"list(str:\'fs\', str:\'url\', str:\'byte_ranges\', str:\'shape\', '
                           "str:'dtype', str:'type_code', str:'records_per_chunk', "
                           'str:\'chunk_offsets\')", \'byte_ranges is\': True}',
 'shape 1d none rpc=np.int64(2)': "{'records_per_chunk': 'int:0', 'chunk_offsets': 'dict{}', 'chunks': "
                                  "'tuple(int:0)', 'ndim': 'int:1', 'repr': "
                                  '"Array(url=\'image-file\', shape=(0,), dtype=\'uint16\', '
                                  'records_per_chunk=0)", \'fields\': "list(str:\'fs\', str:\'url\', '
                                  "str:'byte_ranges', str:'shape', str:'dtype', str:'type_code', "
                                  'str:\'records_per_chunk\', str:\'chunk_offsets\')", \'byte_ranges is\': '
                                  'True}',
 "shape 1d none rpc='auto'": 'raise builtins.ValueError: attempt to get argmin of an empty sequence',
 "shape 1d none rpc='80B'": 'raise builtins.ValueError: attempt to get argmin of an empty sequence',
 "shape 1d none rpc='abc'": "raise builtins.ValueError: Could not interpret 'abc' as a byte unit",
 'shape 1d none rpc=[2]': "raise builtins.TypeError: '>' not supported between instances of 'list' and 'int'",
 'shape list regular4 rpc=None': '{\'records_per_chunk\': \'int:1024\', \'chunk_offsets\': "dict{int:0: '
                                 'dict{str:\'offset\': int:20, str:\'size\': int:220}}", \'chunks\': '
                                 "'tuple(int:1024, int:20)', 'ndim': 'int:2', 'repr': "
                                 '"Array(url=\'image-file\', shape=[4, 20], dtype=\'uint16\', '
                                 'records_per_chunk=1024)", \'fields\': "list(str:\'fs\', str:\'url\', '
                                 "str:'byte_ranges', str:'shape', str:'dtype', str:'type_code', "
                                 'str:\'records_per_chunk\', str:\'chunk_offsets\')", \'byte_ranges is\': '
                                 'True}',
 'shape list regular4 rpc=2': '{\'records_per_chunk\': \'int:2\', \'chunk_offsets\': "dict{int:0: '
                              "dict{str:'offset': int:20, str:'size': int:100}, int:1: dict{str:'offset': "
                              'int:140, str:\'size\': int:100}}", \'chunks\': \'tuple(int:2, int:20)\', '
                              '\'ndim\': \'int:2\', \'repr\': "Array(url=\'image-file\', shape=[4, 20], '
                              'dtype=\'uint16\', records_per_chunk=2)", \'fields\': "list(str:\'fs\', '
                              "str:'url', str:'byte_ranges', str:'shape', str:'dtype', str:'type_code', "
                              'str:\'records_per_chunk\', str:\'chunk_offsets\')", \'byte_ranges is\': True}',
 'shape list regular4 rpc=-1': '{\'records_per_chunk\': \'int:4\', \'chunk_offsets\': "dict{int:0: '
                               'dict{str:\'offset\': int:20, str:\'size\': int:220}}", \'chunks\': '
                               "'tuple(int:4, int:20)', 'ndim': 'int:2', 'repr': "
                               '"Array(url=\'image-file\', shape=[4, 20], dtype=\'uint16\', '
                               'records_per_chunk=4)", \'fields\': "list(str:\'fs\', str:\'url\', '
                               "str:'byte_ranges', str:'shape', str:'dtype', str:'type_code', "
                               'str:\'records_per_chunk\', str:\'chunk_offsets\')", \'byte_ranges is\': '
                               'True}',
 'shape list regular4 rpc=1024': '{\'records_per_chunk\': \'int:4\', \'chunk_offsets\': "dict{int:0: '
                                 'dict{str:\'offset\': int:20, str:\'size\': int:220}}", \'chunks\': '
                                 "'tuple(int:4, int:20)', 'ndim': 'int:2', 'repr': "
                                 '"Array(url=\'image-file\', shape=[4, 20], dtype=\'uint16\', '
                                 'records_per_chunk=4)", \'fields\': "list(str:\'fs\', str:\'url\', '
                                 "str:'byte_ranges', str:'shape', str:'dtype', str:'type_code', "
                                 'str:\'records_per_chunk\', str:\'chunk_offsets\')", \'byte_ranges is\': '
                                 'True}',
 'shape list regular4 rpc=np.int64(2)': "{'records_per_chunk': 'int64(2)', 'chunk_offsets': "
                                        '"dict{int:0: dict{str:\'offset\': int:20, str:\'size\': int:100}, '
                                        'int:1: dict{str:\'offset\': int:140, str:\'size\': int:100}}", '
                                        "'chunks': 'tuple(int64(2), int:20)', 'ndim': 'int:2', 'repr': "
                                        '"Array(url=\'image-file\', shape=[4, 20], dtype=\'uint16\', '
                                        'records_per_chunk=np.int64(2))", \'fields\': "list(str:\'fs\', '
                                        "str:'url', str:'byte_ranges', str:'shape', str:'dtype', "
                                        "str:'type_code', str:'records_per_chunk', "
                                        'str:\'chunk_offsets\')", \'byte_ranges is\': True}',
 "shape list regular4 rpc='auto'": '{\'records_per_chunk\': \'int64(4)\', \'chunk_offsets\': "dict{int:0: '
                                   'dict{str:\'offset\': int:20, str:\'size\': int:220}}", \'chunks\': '
                                   "'tuple(int64(4), int:20)', 'ndim': 'int:2', 'repr': "
                                   '"Array(url=\'image-file\', shape=[4, 20], dtype=\'uint16\', '
                                   'records_per_chunk=np.int64(4))", \'fields\': "list(str:\'fs\', '
                                   "str:'url', str:'byte_ranges', str:'shape', str:'dtype', str:'type_code', "
                                   'str:\'records_per_chunk\', str:\'chunk_offsets\')", \'byte_ranges is\': '
                                   'True}',
 "shape list regular4 rpc='80B'": '{\'records_per_chunk\': \'int64(2)\', \'chunk_offsets\': "dict{int:0: '
                                  "dict{str:'offset': int:20, str:'size': int:100}, int:1: "
                                  'dict{str:\'offset\': int:140, str:\'size\': int:100}}", \'chunks\': '
                                  "'tuple(int64(2), int:20)', 'ndim': 'int:2', 'repr': "
                                  '"Array(url=\'image-file\', shape=[4, 20], dtype=\'uint16\', '
                                  'records_per_chunk=np.int64(2))", \'fields\': "list(str:\'fs\', '
                                  "str:'url', str:'byte_ranges', str:'shape', str:'dtype', str:'type_code', "
                                  'str:\'records_per_chunk\', str:\'chunk_offsets\')", \'byte_ranges is\': '
                                  'True}',
 "shape list regular4 rpc='abc'": "raise builtins.ValueError: Could not interpret 'abc' as a byte unit",
 'shape list regular4 rpc=[2]': "raise builtins.TypeError: '>' not supported between instances of 'list' and "
                                "'int'",
 'shape list ragged5 rpc=None': '{\'records_per_chunk\': \'int:1024\', \'chunk_offsets\': "dict{int:0: '
                                'dict{str:\'offset\': int:20, str:\'size\': int:280}}", \'chunks\': '
                                "'tuple(int:1024, int:20)', 'ndim': 'int:2', 'repr': "
                                '"Array(url=\'image-file\', shape=[5, 20], dtype=\'uint16\', '
                                'records_per_chunk=1024)", \'fields\': "list(str:\'fs\', str:\'url\', '
                                "str:'byte_ranges', str:'shape', str:'dtype', str:'type_code', "
                                'str:\'records_per_chunk\', str:\'chunk_offsets\')", \'byte_ranges is\': '
                                'True}',
 'shape list ragged5 rpc=2': '{\'records_per_chunk\': \'int:2\', \'chunk_offsets\': "dict{int:0: '
                             "dict{str:'offset': int:20, str:'size': int:100}, int:1: dict{str:'offset': "
                             "int:140, str:'size': int:100}, int:2: dict{str:'offset': int:260, str:'size': "
                             'int:40}}", \'chunks\': \'tuple(int:2, int:20)\', \'ndim\': \'int:2\', '
                             '\'repr\': "Array(url=\'image-file\', shape=[5, 20], dtype=\'uint16\', '
                             'records_per_chunk=2)", \'fields\': "list(str:\'fs\', str:\'url\', '
                             "str:'byte_ranges', str:'shape', str:'dtype', str:'type_code', "
                             'str:\'records_per_chunk\', str:\'chunk_offsets\')", \'byte_ranges is\': True}',
 'shape list ragged5 rpc=-1': '{\'records_per_chunk\': \'int:5\', \'chunk_offsets\': "dict{int:0: '
                              'dict{str:\'offset\': int:20, str:\'size\': int:280}}", \'chunks\': '
                              "'tuple(int:5, int:20)', 'ndim': 'int:2', 'repr': "
                              '"Array(url=\'image-file\', shape=[5, 20], dtype=\'uint16\', '
                              'records_per_chunk=5)", \'fields\': "list(str:\'fs\', str:\'url\', '
                              "str:'byte_ranges', str:'shape', str:'dtype', str:'type_code', "
                              'str:\'records_per_chunk\', str:\'chunk_offsets\')", \'byte_ranges is\': True}',
 'shape list ragged5 rpc=1024': '{\'records_per_chunk\': \'int:5\', \'chunk_offsets\': "dict{int:0: '
                                'dict{str:\'offset\': int:20, str:\'size\': int:280}}", \'chunks\': '
                                "'tuple(int:5, int:20)', 'ndim': 'int:2', 'repr': "
                                '"Array(url=\'image-file\', shape=[5, 20], dtype=\'uint16\', '
                                'records_per_chunk=5)", \'fields\': "list(str:\'fs\', str:\'url\', '
                                "str:'byte_ranges', str:'shape', str:'dtype', str:'type_code', "
                                'str:\'records_per_chunk\', str:\'chunk_offsets\')", \'byte_ranges is\': '
                                'True}',
 'shape list ragged5 rpc=np.int64(2)': "{'records_per_chunk': 'int64(2)', 'chunk_offsets': "
                                       '"dict{int:0: dict{str:\'offset\': int:20, str:\'size\': int:100}, '
                                       "int:1: dict{str:'offset': int:140, str:'size': int:100}, int:2: "
                                       'dict{str:\'offset\': int:260, str:\'size\': int:40}}", \'chunks\': '
                                       "'tuple(int64(2), int:20)', 'ndim': 'int:2', 'repr': "
                                       '"Array(url=\'image-file\', shape=[5, 20], dtype=\'uint16\', '
                                       'records_per_chunk=np.int64(2))", \'fields\': "list(str:\'fs\', '
                                       "str:'url', str:'byte_ranges', str:'shape', str:'dtype', "
                                       "str:'type_code', str:'records_per_chunk', "
                                       'str:\'chunk_offsets\')", \'byte_ranges is\': True}',
 "shape list ragged5 rpc='auto'": '{\'records_per_chunk\': \'int64(5)\', \'chunk_offsets\': "dict{int:0: '
                                  'dict{str:\'offset\': int:20, str:\'size\': int:280}}", \'chunks\': '
                                  "'tuple(int64(5), int:20)', 'ndim': 'int:2', 'repr': "
                                  '"Array(url=\'image-file\', shape=[5, 20], dtype=\'uint16\', '
                                  'records_per_chunk=np.int64(5))", \'fields\': "list(str:\'fs\', '
                                  "str:'url', str:'byte_ranges', str:'shape', str:'dtype', str:'type_code', "
                                  'str:\'records_per_chunk\', str:\'chunk_offsets\')", \'byte_ranges is\': '
                                  'True}',
 "shape list ragged5 rpc='80B'": '{\'records_per_chunk\': \'int64(2)\', \'chunk_offsets\': "dict{int:0: '
                                 "dict{str:'offset': int:20, str:'size': int:100}, int:1: dict{str:'offset': "
                                 "int:140, str:'size': int:100}, int:2: dict{str:'offset': int:260, "
                                 'str:\'size\': int:40}}", \'chunks\': \'tuple(int64(2), int:20)\', '
                                 '\'ndim\': \'int:2\', \'repr\': "Array(url=\'image-file\', shape=[5, 20], '
                                 'dtype=\'uint16\', records_per_chunk=np.int64(2))", \'fields\': '
                                 '"list(str:\'fs\', str:\'url\', str:\'byte_ranges\', str:\'shape\', '
                                 "str:'dtype', str:'type_code', str:'records_per_chunk', "
                                 'str:\'chunk_offsets\')", \'byte_ranges is\': True}',
 "shape list ragged5 rpc='abc'": "raise builtins.ValueError: Could not interpret 'abc' as a byte unit",
 'shape list ragged5 rpc=[2]': "raise builtins.TypeError: '>' not supported between instances of 'list' and "
                               "'int'",
 'shape list none rpc=None': "{'records_per_chunk': 'int:1024', 'chunk_offsets': 'dict{}', 'chunks': "
                             "'tuple(int:1024, int:20)', 'ndim': 'int:2', 'repr': "
                             '"Array(url=\'image-file\', shape=[0, 20], dtype=\'uint16\', '
                             'records_per_chunk=1024)", \'fields\': "list(str:\'fs\', str:\'url\', '
                             "str:'byte_ranges', str:'shape', str:'dtype', str:'type_code', "
                             'str:\'records_per_chunk\', str:\'chunk_offsets\')", \'byte_ranges is\': True}',
 'shape list none rpc=2': "{'records_per_chunk': 'int:0', 'chunk_offsets': 'dict{}', 'chunks': 'tuple(int:0, "
                          'int:20)\', \'ndim\': \'int:2\', \'repr\': "Array(url=\'image-file\', shape=[0, '
                          '20], dtype=\'uint16\', records_per_chunk=0)", \'fields\': "list(str:\'fs\', '
                          "str:'url', str:'byte_ranges', str:'shape', str:'dtype', str:'type_code', "
                          'str:\'records_per_chunk\', str:\'chunk_offsets\')", \'byte_ranges is\': True}',
 'shape list none rpc=-1': "{'records_per_chunk': 'int:0', 'chunk_offsets': 'dict{}', 'chunks': "
                           "'tuple(int:0, int:20)', 'ndim': 'int:2', 'repr': "
                           '"Array(url=\'image-file\', shape=[0, 20], dtype=\'uint16\', '
                           'records_per_chunk=0)", \'fields\': "list(str:\'fs\', str:\'url\', '
                           "str:'byte_ranges', str:'shape', str:'dtype', str:'type_code', "
                           'str:\'records_per_chunk\', str:\'chunk_offsets\')", \'byte_ranges is\': True}',
 'shape list none rpc=1024': "{'records_per_chunk': 'int:0', 'chunk_offsets': 'dict{}', 'chunks': "
                             "'tuple(int:0, int:20)', 'ndim': 'int:2', 'repr': "
                             '"Array(url=\'image-file\', shape=[0, 20], dtype=\'uint16\', '
                             'records_per_chunk=0)", \'fields\': "list(str:\'fs\', str:\'url\', '
                             "str:'byte_ranges', str:'shape', str:'dtype', str:'type_code', "
                             'str:\'records_per_chunk\', str:\'chunk_offsets\')", \'byte_ranges is\': True}',
 'shape list none rpc=np.int64(2)': "{'records_per_chunk': 'int:0', 'chunk_offsets': 'dict{}', 'chunks': "
                                    "'tuple(int:0, int:20)', 'ndim': 'int:2', 'repr': "
                                    '"Array(url=\'image-file\', shape=[0, 20], dtype=\'uint16\', '
                                    'records_per_chunk=0)", \'fields\': "list(str:\'fs\', str:\'url\', '
                                    "str:'byte_ranges', str:'shape', str:'dtype', str:'type_code', "
                                    'str:\'records_per_chunk\', str:\'chunk_offsets\')", \'byte_ranges is\': '
                                    'True}',
 "shape list none rpc='auto'": 'raise builtins.ValueError: attempt to get argmin of an empty sequence',
 "shape list none rpc='80B'": 'raise builtins.ValueError: attempt to get argmin of an empty sequence',
 "shape list none rpc='abc'": "raise builtins.ValueError: Could not interpret 'abc' as a byte unit",
 'shape list none rpc=[2]': "raise builtins.TypeError: '>' not supported between instances of 'list' and "
                            "'int'",
 'shape empty regular4 rpc=None': '{\'records_per_chunk\': \'int:1024\', \'chunk_offsets\': "dict{int:0: '
                                  'dict{str:\'offset\': int:20, str:\'size\': int:220}}", \'chunks\': '
                                  "'tuple(int:1024)', 'ndim': 'int:0', 'repr': "
                                  '"Array(url=\'image-file\', shape=(), dtype=\'uint16\', '
                                  'records_per_chunk=1024)", \'fields\': "list(str:\'fs\', str:\'url\', '
                                  "str:'byte_ranges', str:'shape', str:'dtype', str:'type_code', "
                                  'str:\'records_per_chunk\', str:\'chunk_offsets\')", \'byte_ranges is\': '
                                  'True}',
 'shape empty regular4 rpc=2': 'raise builtins.IndexError: tuple index out of range',
 'shape empty regular4 rpc=-1': 'raise builtins.IndexError: tuple index out of range',
 'shape empty regular4 rpc=1024': 'raise builtins.IndexError: tuple index out of range',
 'shape empty regular4 rpc=np.int64(2)': 'raise builtins.IndexError: tuple index out of range',
 "shape empty regular4 rpc='auto'": '{\'records_per_chunk\': \'int64(4)\', \'chunk_offsets\': "dict{int:0: '
                                    'dict{str:\'offset\': int:20, str:\'size\': int:220}}", \'chunks\': '
                                    "'tuple(int64(4))', 'ndim': 'int:0', 'repr': "
                                    '"Array(url=\'image-file\', shape=(), dtype=\'uint16\', '
                                    'records_per_chunk=np.int64(4))", \'fields\': "list(str:\'fs\', '
                                    "str:'url', str:'byte_ranges', str:'shape', str:'dtype', "
                                    'str:\'type_code\', str:\'records_per_chunk\', str:\'chunk_offsets\')", '
                                    "'byte_ranges is': True}",
 "shape empty regular4 rpc='80B'": '{\'records_per_chunk\': \'int64(2)\', \'chunk_offsets\': "dict{int:0: '
                                   "dict{str:'offset': int:20, str:'size': int:100}, int:1: "
                                   'dict{str:\'offset\': int:140, str:\'size\': int:100}}", \'chunks\': '
                                   "'tuple(int64(2))', 'ndim': 'int:0', 'repr': "
                                   '"Array(url=\'image-file\', shape=(), dtype=\'uint16\', '
                                   'records_per_chunk=np.int64(2))", \'fields\': "list(str:\'fs\', '
                                   "str:'url', str:'byte_ranges', str:'shape', str:'dtype', str:'type_code', "
                                   'str:\'records_per_chunk\', str:\'chunk_offsets\')", \'byte_ranges is\': '
                                   'True}',
 "shape empty regular4 rpc='abc'": "raise builtins.ValueError: Could not interpret 'abc' as a byte unit",
 'shape empty regular4 rpc=[2]': 'raise builtins.IndexError: tuple index out of range',
 'shape empty ragged5 rpc=None': '{\'records_per_chunk\': \'int:1024\', \'chunk_offsets\': "dict{int:0: '
                                 'dict{str:\'offset\': int:20, str:\'size\': int:280}}", \'chunks\': '
                                 "'tuple(int:1024)', 'ndim': 'int:0', 'repr': "
                                 '"Array(url=\'image-file\', shape=(), dtype=\'uint16\', '
                                 'records_per_chunk=1024)", \'fields\': "list(str:\'fs\', str:\'url\', '
                                 "str:'byte_ranges', str:'shape', str:'dtype', str:'type_code', "
                                 'str:\'records_per_chunk\', str:\'chunk_offsets\')", \'byte_ranges is\': '
                                 'True}',
 'shape empty ragged5 rpc=2': 'raise builtins.IndexError: tuple index out of range',
 'shape empty ragged5 rpc=-1': 'raise builtins.IndexError: tuple index out of range',
 'shape empty ragged5 rpc=1024': 'raise builtins.IndexError: tuple index out of range',
 'shape empty ragged5 rpc=np.int64(2)': 'raise builtins.IndexError: tuple index out of range',
 "shape empty ragged5 rpc='auto'": '{\'records_per_chunk\': \'int64(5)\', \'chunk_offsets\': "dict{int:0: '
                                   'dict{str:\'offset\': int:20, str:\'size\': int:280}}", \'chunks\': '
                                   "'tuple(int64(5))', 'ndim': 'int:0', 'repr': "
                                   '"Array(url=\'image-file\', shape=(), dtype=\'uint16\', '
                                   'records_per_chunk=np.int64(5))", \'fields\': "list(str:\'fs\', '
                                   "str:'url', str:'byte_ranges', str:'shape', str:'dtype', str:'type_code', "
                                   'str:\'records_per_chunk\', str:\'chunk_offsets\')", \'byte_ranges is\': '
                                   'True}',
 "shape empty ragged5 rpc='80B'": '{\'records_per_chunk\': \'int64(2)\', \'chunk_offsets\': "dict{int:0: '
                                  "dict{str:'offset': int:20, str:'size': int:100}, int:1: "
                                  "dict{str:'offset': int:140, str:'size': int:100}, int:2: "
                                  'dict{str:\'offset\': int:260, str:\'size\': int:40}}", \'chunks\': '
                                  "'tuple(int64(2))', 'ndim': 'int:0', 'repr': "
                                  '"Array(url=\'image-file\', shape=(), dtype=\'uint16\', '
                                  'records_per_chunk=np.int64(2))", \'fields\': "list(str:\'fs\', '
                                  "str:'url', str:'byte_ranges', str:'shape', str:'dtype', str:'type_code', "
                                  'str:\'records_per_chunk\', str:\'chunk_offsets\')", \'byte_ranges is\': '
                                  'True}',
 "shape empty ragged5 rpc='abc'": "raise builtins.ValueError: Could not interpret 'abc' as a byte unit",
 'shape empty ragged5 rpc=[2]': 'raise builtins.IndexError: tuple index out of range',
 'shape empty none rpc=None': "{'records_per_chunk': 'int:1024', 'chunk_offsets': 'dict{}', 'chunks': "
                              "'tuple(int:1024)', 'ndim': 'int:0', 'repr': "
                              '"Array(url=\'image-file\', shape=(), dtype=\'uint16\', '
                              'records_per_chunk=1024)", \'fields\': "list(str:\'fs\', str:\'url\', '
                              "str:'byte_ranges', str:'shape', str:'dtype', str:'type_code', "
                              'str:\'records_per_chunk\', str:\'chunk_offsets\')", \'byte_ranges is\': True}',
 'shape empty none rpc=2': 'raise builtins.IndexError: tuple index out of range',
 'shape empty none rpc=-1': 'raise builtins.IndexError: tuple index out of range',
 'shape empty none rpc=1024': 'raise builtins.IndexError: tuple index out of range',
 'shape empty none rpc=np.int64(2)': 'raise builtins.IndexError: tuple index out of range',
 "shape empty none rpc='auto'": 'raise builtins.ValueError: attempt to get argmin of an empty sequence',
 "shape empty none rpc='80B'": 'raise builtins.ValueError: attempt to get argmin of an empty sequence',
 "shape empty none rpc='abc'": "raise builtins.ValueError: Could not interpret 'abc' as a byte unit",
 'shape empty none rpc=[2]': 'raise builtins.IndexError: tuple index out of range',
 'shape None regular4 rpc=None': '{\'records_per_chunk\': \'int:1024\', \'chunk_offsets\': "dict{int:0: '
                                 'dict{str:\'offset\': int:20, str:\'size\': int:220}}", \'chunks\': "raise '
                                 'builtins.TypeError: \'NoneType\' object is not subscriptable", \'ndim\': '
                                 '"raise builtins.TypeError: object of type \'NoneType\' has no len()", '
                                 '\'repr\': "Array(url=\'image-file\', shape=None, dtype=\'uint16\', '
                                 'records_per_chunk=1024)", \'fields\': "list(str:\'fs\', str:\'url\', '
                                 "str:'byte_ranges', str:'shape', str:'dtype', str:'type_code', "
                                 'str:\'records_per_chunk\', str:\'chunk_offsets\')", \'byte_ranges is\': '
                                 'True}',
 'shape None regular4 rpc=2': "raise builtins.TypeError: 'NoneType' object is not subscriptable",
 'shape None regular4 rpc=-1': "raise builtins.TypeError: 'NoneType' object is not subscriptable",
 'shape None regular4 rpc=1024': "raise builtins.TypeError: 'NoneType' object is not subscriptable",
 'shape None regular4 rpc=np.int64(2)': "raise builtins.TypeError: 'NoneType' object is not subscriptable",
 "shape None regular4 rpc='auto'": '{\'records_per_chunk\': \'int64(4)\', \'chunk_offsets\': "dict{int:0: '
                                   'dict{str:\'offset\': int:20, str:\'size\': int:220}}", \'chunks\': '
                                   '"raise builtins.TypeError: \'NoneType\' object is not subscriptable", '
                                   '\'ndim\': "raise builtins.TypeError: object of type \'NoneType\' has no '
                                   'len()", \'repr\': "Array(url=\'image-file\', shape=None, '
                                   'dtype=\'uint16\', records_per_chunk=np.int64(4))", \'fields\': '
                                   '"list(str:\'fs\', str:\'url\', str:\'byte_ranges\', str:\'shape\', '
                                   "str:'dtype', str:'type_code', str:'records_per_chunk', "
                                   'str:\'chunk_offsets\')", \'byte_ranges is\': True}',
 "shape None regular4 rpc='80B'": '{\'records_per_chunk\': \'int64(2)\', \'chunk_offsets\': "dict{int:0: '
                                  "dict{str:'offset': int:20, str:'size': int:100}, int:1: "
                                  'dict{str:\'offset\': int:140, str:\'size\': int:100}}", \'chunks\': '
                                  '"raise builtins.TypeError: \'NoneType\' object is not subscriptable", '
                                  '\'ndim\': "raise builtins.TypeError: object of type \'NoneType\' has no '
                                  'len()", \'repr\': "Array(url=\'image-file\', shape=None, '
                                  'dtype=\'uint16\', records_per_chunk=np.int64(2))", \'fields\': '
                                  '"list(str:\'fs\', str:\'url\', str:\'byte_ranges\', str:\'shape\', '
                                  "str:'dtype', str:'type_code', str:'records_per_chunk', "
                                  'str:\'chunk_offsets\')", \'byte_ranges is\': True}',
 "shape None regular4 rpc='abc'": "raise builtins.ValueError: Could not interpret 'abc' as a byte unit",
 'shape None regular4 rpc=[2]': "raise builtins.TypeError: 'NoneType' object is not subscriptable",
 'shape None ragged5 rpc=None': '{\'records_per_chunk\': \'int:1024\', \'chunk_offsets\': "dict{int:0: '
                                'dict{str:\'offset\': int:20, str:\'size\': int:280}}", \'chunks\': "raise '
                                'builtins.TypeError: \'NoneType\' object is not subscriptable", \'ndim\': '
                                '"raise builtins.TypeError: object of type \'NoneType\' has no len()", '
                                '\'repr\': "Array(url=\'image-file\', shape=None, dtype=\'uint16\', '
                                'records_per_chunk=1024)", \'fields\': "list(str:\'fs\', str:\'url\', '
                                "str:'byte_ranges', str:'shape', str:'dtype', str:'type_code', "
                                'str:\'records_per_chunk\', str:\'chunk_offsets\')", \'byte_ranges is\': '
                                'True}',
 'shape None ragged5 rpc=2': "raise builtins.TypeError: 'NoneType' object is not subscriptable",
 'shape None ragged5 rpc=-1': "raise builtins.TypeError: 'NoneType' object is not subscriptable",
 'shape None ragged5 rpc=1024': "raise builtins.TypeError: 'NoneType' object is not subscriptable",
 'shape None ragged5 rpc=np.int64(2)': "raise builtins.TypeError: 'NoneType' object is not subscriptable",
 "shape None ragged5 rpc='auto'": '{\'records_per_chunk\': \'int64(5)\', \'chunk_offsets\': "dict{int:0: '
                                  'dict{str:\'offset\': int:20, str:\'size\': int:280}}", \'chunks\': "raise '
                                  'builtins.TypeError: \'NoneType\' object is not subscriptable", \'ndim\': '
                                  '"raise builtins.TypeError: object of type \'NoneType\' has no len()", '
                                  '\'repr\': "Array(url=\'image-file\', shape=None, dtype=\'uint16\', '
                                  'records_per_chunk=np.int64(5))", \'fields\': "list(str:\'fs\', '
                                  "str:'url', str:'byte_ranges', str:'shape', str:'dtype', str:'type_code', "
                                  'str:\'records_per_chunk\', str:\'chunk_offsets\')", \'byte_ranges is\': '
                                  'True}',
 "shape None ragged5 rpc='80B'": '{\'records_per_chunk\': \'int64(2)\', \'chunk_offsets\': "dict{int:0: '
                                 "dict{str:'offset': int:20, str:'size': int:100}, int:1: dict{str:'offset': "
                                 "int:140, str:'size': int:100}, int:2: dict{str:'offset': int:260, "
                                 'str:\'size\': int:40}}", \'chunks\': "raise builtins.TypeError: '
                                 '\'NoneType\' object is not subscriptable", \'ndim\': "raise '
                                 'builtins.TypeError: object of type \'NoneType\' has no len()", \'repr\': '
                                 '"Array(url=\'image-file\', shape=None, dtype=\'uint16\', '
                                 'records_per_chunk=np.int64(2))", \'fields\': "list(str:\'fs\', '
                                 "str:'url', str:'byte_ranges', str:'shape', str:'dtype', str:'type_code', "
                                 'str:\'records_per_chunk\', str:\'chunk_offsets\')", \'byte_ranges is\': '
                                 'True}',
 "shape None ragged5 rpc='abc'": "raise builtins.ValueError: Could not interpret 'abc' as a byte unit",
 'shape None ragged5 rpc=[2]': "raise builtins.TypeError: 'NoneType' object is not subscriptable",
 'shape None none rpc=None': "{'records_per_chunk': 'int:1024', 'chunk_offsets': 'dict{}', 'chunks': "
                             '"raise builtins.TypeError: \'NoneType\' object is not subscriptable", '
                             '\'ndim\': "raise builtins.TypeError: object of type \'NoneType\' has no '
                             'len()", \'repr\': "Array(url=\'image-file\', shape=None, dtype=\'uint16\', '
                             'records_per_chunk=1024)", \'fields\': "list(str:\'fs\', str:\'url\', '
                             "str:'byte_ranges', str:'shape', str:'dtype', str:'type_code', "
                             'str:\'records_per_chunk\', str:\'chunk_offsets\')", \'byte_ranges is\': True}',
 'shape None none rpc=2': "raise builtins.TypeError: 'NoneType' object is not subscriptable",
 'shape None none rpc=-1': "raise builtins.TypeError: 'NoneType' object is not subscriptable",
 'shape None none rpc=1024': "raise builtins.TypeError: 'NoneType' object is not subscriptable",
 'shape None none rpc=np.int64(2)': "raise builtins.TypeError: 'NoneType' object is not subscriptable",
 "shape None none rpc='auto'": 'raise builtins.ValueError: attempt to get argmin of an empty sequence',
 "shape None none rpc='80B'": 'raise builtins.ValueError: attempt to get argmin of an empty sequence',
 "shape None none rpc='abc'": "raise builtins.ValueError: Could not interpret 'abc' as a byte unit",
 'shape None none rpc=[2]': "raise builtins.TypeError: 'NoneType' object is not subscriptable",
 'shape int regular4 rpc=None': '{\'records_per_chunk\': \'int:1024\', \'chunk_offsets\': "dict{int:0: '
                                'dict{str:\'offset\': int:20, str:\'size\': int:220}}", \'chunks\': "raise '
                                'builtins.TypeError: \'int\' object is not subscriptable", \'ndim\': "raise '
                                'builtins.TypeError: object of type \'int\' has no len()", \'repr\': '
                                '"Array(url=\'image-file\', shape=4, dtype=\'uint16\', '
                                'records_per_chunk=1024)", \'fields\': "list(str:\'fs\', str:\'url\', '
                                "str:'byte_ranges', str:'shape', str:'dtype', str:'type_code', "
                                'str:\'records_per_chunk\', str:\'chunk_offsets\')", \'byte_ranges is\': '
                                'True}',
 'shape int regular4 rpc=2': "raise builtins.TypeError: 'int' object is not subscriptable",
 'shape int regular4 rpc=-1': "raise builtins.TypeError: 'int' object is not subscriptable",
 'shape int regular4 rpc=1024': "raise builtins.TypeError: 'int' object is not subscriptable",
 'shape int regular4 rpc=np.int64(2)': "raise builtins.TypeError: 'int' object is not subscriptable",
 "shape int regular4 rpc='auto'": '{\'records_per_chunk\': \'int64(4)\', \'chunk_offsets\': "dict{int:0: '
                                  'dict{str:\'offset\': int:20, str:\'size\': int:220}}", \'chunks\': "raise '
                                  'builtins.TypeError: \'int\' object is not subscriptable", \'ndim\': '
                                  '"raise builtins.TypeError: object of type \'int\' has no len()", '
                                  '\'repr\': "Array(url=\'image-file\', shape=4, dtype=\'uint16\', '
                                  'records_per_chunk=np.int64(4))", \'fields\': "list(str:\'fs\', '
                                  "str:'url', str:'byte_ranges', str:'shape', str:'dtype', str:'type_code', "
                                  'str:\'records_per_chunk\', str:\'chunk_offsets\')", \'byte_ranges is\': '
                                  'True}',
 "shape int regular4 rpc='80B'": '{\'records_per_chunk\': \'int64(2)\', \'chunk_offsets\': "dict{int:0: '
                                 "dict{str:'offset': int:20, str:'size': int:100}, int:1: dict{str:'offset': "
                                 'int:140, str:\'size\': int:100}}", \'chunks\': "raise builtins.TypeError: '
                                 '\'int\' object is not subscriptable", \'ndim\': "raise builtins.TypeError: '
                                 'object of type \'int\' has no len()", \'repr\': "Array(url=\'image-file\', '
                                 'shape=4, dtype=\'uint16\', records_per_chunk=np.int64(2))", \'fields\': '
                                 '"list(str:\'fs\', str:\'url\', str:\'byte_ranges\', str:\'shape\', '
                                 "str:'dtype', str:'type_code', str:'records_per_chunk', "
                                 'str:\'chunk_offsets\')", \'byte_ranges is\': True}',
 "shape int regular4 rpc='abc'": "raise builtins.ValueError: Could not interpret 'abc' as a byte unit",
 'shape int regular4 rpc=[2]': "raise builtins.TypeError: 'int' object is not subscriptable",
 'shape int ragged5 rpc=None': '{\'records_per_chunk\': \'int:1024\', \'chunk_offsets\': "dict{int:0: '
                               'dict{str:\'offset\': int:20, str:\'size\': int:280}}", \'chunks\': "raise '
                               'builtins.TypeError: \'int\' object is not subscriptable", \'ndim\': "raise '
                               'builtins.TypeError: object of type \'int\' has no len()", \'repr\': '
                               '"Array(url=\'image-file\', shape=5, dtype=\'uint16\', '
                               'records_per_chunk=1024)", \'fields\': "list(str:\'fs\', str:\'url\', '
                               "str:'byte_ranges', str:'shape', str:'dtype', str:'type_code', "
                               'str:\'records_per_chunk\', str:\'chunk_offsets\')", \'byte_ranges is\': '
                               'True}',
 'shape int ragged5 rpc=2': "raise builtins.TypeError: 'int' object is not subscriptable",
 'shape int ragged5 rpc=-1': "raise builtins.TypeError: 'int' object is not subscriptable",
 'shape int ragged5 rpc=1024': "raise builtins.TypeError: 'int' object is not subscriptable",
 'shape int ragged5 rpc=np.int64(2)': "raise builtins.TypeError: 'int' object is not subscriptable",
 "shape int ragged5 rpc='auto'": '{\'records_per_chunk\': \'int64(5)\', \'chunk_offsets\': "dict{int:0: '
                                 'dict{str:\'offset\': int:20, str:\'size\': int:280}}", \'chunks\': "raise '
                                 'builtins.TypeError: \'int\' object is not subscriptable", \'ndim\': "raise '
                                 'builtins.TypeError: object of type \'int\' has no len()", \'repr\': '
                                 '"Array(url=\'image-file\', shape=5, dtype=\'uint16\', '
                                 'records_per_chunk=np.int64(5))", \'fields\': "list(str:\'fs\', '
                                 "str:'url', str:'byte_ranges', str:'shape', str:'dtype', str:'type_code', "
                                 'str:\'records_per_chunk\', str:\'chunk_offsets\')", \'byte_ranges is\': '
                                 'True}',
 "shape int ragged5 rpc='80B'": '{\'records_per_chunk\': \'int64(2)\', \'chunk_offsets\': "dict{int:0: '
                                "dict{str:'offset': int:20, str:'size': int:100}, int:1: dict{str:'offset': "
                                "int:140, str:'size': int:100}, int:2: dict{str:'offset': int:260, "
                                'str:\'size\': int:40}}", \'chunks\': "raise builtins.TypeError: \'int\' '
                                'object is not subscriptable", \'ndim\': "raise builtins.TypeError: object '
                                'of type \'int\' has no len()", \'repr\': "Array(url=\'image-file\', '
                                'shape=5, dtype=\'uint16\', records_per_chunk=np.int64(2))", \'fields\': '
                                '"list(str:\'fs\', str:\'url\', str:\'byte_ranges\', str:\'shape\', '
                                "str:'dtype', str:'type_code', str:'records_per_chunk', "
                                'str:\'chunk_offsets\')", \'byte_ranges is\': True}',
 "shape int ragged5 rpc='abc'": "raise builtins.ValueError: Could not interpret 'abc' as a byte unit",
 'shape int ragged5 rpc=[2]': "raise builtins.TypeError: 'int' object is not subscriptable",
 'shape int none rpc=None': "{'records_per_chunk': 'int:1024', 'chunk_offsets': 'dict{}', 'chunks': "
                            '"raise builtins.TypeError: \'int\' object is not subscriptable", \'ndim\': '
                            '"raise builtins.TypeError: object of type \'int\' has no len()", \'repr\': '
                            '"Array(url=\'image-file\', shape=0, dtype=\'uint16\', records_per_chunk=1024)", '
                            '\'fields\': "list(str:\'fs\', str:\'url\', str:\'byte_ranges\', str:\'shape\', '
                            "str:'dtype', str:'type_code', str:'records_per_chunk', "
                            'str:\'chunk_offsets\')", \'byte_ranges is\': True}',
 'shape int none rpc=2': "raise builtins.TypeError: 'int' object is not subscriptable",
 'shape int none rpc=-1': "raise builtins.TypeError: 'int' object is not subscriptable",
 'shape int none rpc=1024': "raise builtins.TypeError: 'int' object is not subscriptable",
 'shape int none rpc=np.int64(2)': "raise builtins.TypeError: 'int' object is not subscriptable",
 "shape int none rpc='auto'": 'raise builtins.ValueError: attempt to get argmin of an empty sequence',
 "shape int none rpc='80B'": 'raise builtins.ValueError: attempt to get argmin of an empty sequence',
 "shape int none rpc='abc'": "raise builtins.ValueError: Could not interpret 'abc' as a byte unit",
 'shape int none rpc=[2]': "raise builtins.TypeError: 'int' object is not subscriptable",
 'shape float-rows regular4 rpc=None': "{'records_per_chunk': 'int:1024', 'chunk_offsets': "
                                       '"dict{int:0: dict{str:\'offset\': int:20, str:\'size\': int:220}}", '
                                       "'chunks': 'tuple(int:1024, int:20)', 'ndim': 'int:2', 'repr': "
                                       '"Array(url=\'image-file\', shape=(4.0, 20), dtype=\'uint16\', '
                                       'records_per_chunk=1024)", \'fields\': "list(str:\'fs\', str:\'url\', '
                                       "str:'byte_ranges', str:'shape', str:'dtype', str:'type_code', "
                                       'str:\'records_per_chunk\', str:\'chunk_offsets\')", \'byte_ranges '
                                       "is': True}",
 'shape float-rows regular4 rpc=2': '{\'records_per_chunk\': \'int:2\', \'chunk_offsets\': "dict{int:0: '
                                    "dict{str:'offset': int:20, str:'size': int:100}, int:1: "
                                    'dict{str:\'offset\': int:140, str:\'size\': int:100}}", \'chunks\': '
                                    "'tuple(int:2, int:20)', 'ndim': 'int:2', 'repr': "
                                    '"Array(url=\'image-file\', shape=(4.0, 20), dtype=\'uint16\', '
                                    'records_per_chunk=2)", \'fields\': "list(str:\'fs\', str:\'url\', '
                                    "str:'byte_ranges', str:'shape', str:'dtype', str:'type_code', "
                                    'str:\'records_per_chunk\', str:\'chunk_offsets\')", \'byte_ranges is\': '
                                    'True}',
 'shape float-rows regular4 rpc=-1': "raise builtins.TypeError: can't multiply sequence by non-int of type "
                                     "'float'",
 'shape float-rows regular4 rpc=1024': "raise builtins.TypeError: can't multiply sequence by non-int of type "
                                       "'float'",
 'shape float-rows regular4 rpc=np.int64(2)': "{'records_per_chunk': 'int64(2)', 'chunk_offsets': "
                                              '"dict{int:0: dict{str:\'offset\': int:20, str:\'size\': '
                                              "int:100}, int:1: dict{str:'offset': int:140, str:'size': "
                                              'int:100}}", \'chunks\': \'tuple(int64(2), int:20)\', '
                                              '\'ndim\': \'int:2\', \'repr\': "Array(url=\'image-file\', '
                                              "shape=(4.0, 20), dtype='uint16', "
                                              'records_per_chunk=np.int64(2))", \'fields\': '
                                              '"list(str:\'fs\', str:\'url\', str:\'byte_ranges\', '
                                              "str:'shape', str:'dtype', str:'type_code', "
                                              'str:\'records_per_chunk\', str:\'chunk_offsets\')", '
                                              "'byte_ranges is': True}",
 "shape float-rows regular4 rpc='auto'": "{'records_per_chunk': 'int64(4)', 'chunk_offsets': "
                                         '"dict{int:0: dict{str:\'offset\': int:20, str:\'size\': '
                                         'int:220}}", \'chunks\': \'tuple(int64(4), int:20)\', \'ndim\': '
                                         '\'int:2\', \'repr\': "Array(url=\'image-file\', shape=(4.0, 20), '
                                         'dtype=\'uint16\', records_per_chunk=np.int64(4))", \'fields\': '
                                         '"list(str:\'fs\', str:\'url\', str:\'byte_ranges\', str:\'shape\', '
                                         "str:'dtype', str:'type_code', str:'records_per_chunk', "
                                         'str:\'chunk_offsets\')", \'byte_ranges is\': True}',
 "shape float-rows regular4 rpc='80B'": "{'records_per_chunk': 'int64(2)', 'chunk_offsets': "
                                        '"dict{int:0: dict{str:\'offset\': int:20, str:\'size\': int:100}, '
                                        'int:1: dict{str:\'offset\': int:140, str:\'size\': int:100}}", '
                                        "'chunks': 'tuple(int64(2), int:20)', 'ndim': 'int:2', 'repr': "
                                        '"Array(url=\'image-file\', shape=(4.0, 20), dtype=\'uint16\', '
                                        'records_per_chunk=np.int64(2))", \'fields\': "list(str:\'fs\', '
                                        "str:'url', str:'byte_ranges', str:'shape', str:'dtype', "
                                        "str:'type_code', str:'records_per_chunk', "
                                        'str:\'chunk_offsets\')", \'byte_ranges is\': True}',
 "shape float-rows regular4 rpc='abc'": "raise builtins.ValueError: Could not interpret 'abc' as a byte unit",
 'shape float-rows regular4 rpc=[2]': "raise builtins.TypeError: '>' not supported between instances of "
                                      "'list' and 'float'",
 'shape float-rows ragged5 rpc=None': '{\'records_per_chunk\': \'int:1024\', \'chunk_offsets\': "dict{int:0: '
                                      'dict{str:\'offset\': int:20, str:\'size\': int:280}}", \'chunks\': '
                                      "'tuple(int:1024, int:20)', 'ndim': 'int:2', 'repr': "
                                      '"Array(url=\'image-file\', shape=(5.0, 20), dtype=\'uint16\', '
                                      'records_per_chunk=1024)", \'fields\': "list(str:\'fs\', str:\'url\', '
                                      "str:'byte_ranges', str:'shape', str:'dtype', str:'type_code', "
                                      'str:\'records_per_chunk\', str:\'chunk_offsets\')", \'byte_ranges '
                                      "is': True}",
 'shape float-rows ragged5 rpc=2': '{\'records_per_chunk\': \'int:2\', \'chunk_offsets\': "dict{int:0: '
                                   "dict{str:'offset': int:20, str:'size': int:100}, int:1: "
                                   "dict{str:'offset': int:140, str:'size': int:100}, int:2: "
                                   'dict{str:\'offset\': int:260, str:\'size\': int:40}}", \'chunks\': '
                                   "'tuple(int:2, int:20)', 'ndim': 'int:2', 'repr': "
                                   '"Array(url=\'image-file\', shape=(5.0, 20), dtype=\'uint16\', '
                                   'records_per_chunk=2)", \'fields\': "list(str:\'fs\', str:\'url\', '
                                   "str:'byte_ranges', str:'shape', str:'dtype', str:'type_code', "
                                   'str:\'records_per_chunk\', str:\'chunk_offsets\')", \'byte_ranges is\': '
                                   'True}',
 'shape float-rows ragged5 rpc=-1': "raise builtins.TypeError: can't multiply sequence by non-int of type "
                                    "'float'",
 'shape float-rows ragged5 rpc=1024': "raise builtins.TypeError: can't multiply sequence by non-int of type "
                                      "'float'",
 'shape float-rows ragged5 rpc=np.int64(2)': "{'records_per_chunk': 'int64(2)', 'chunk_offsets': "
                                             '"dict{int:0: dict{str:\'offset\': int:20, str:\'size\': '
                                             "int:100}, int:1: dict{str:'offset': int:140, str:'size': "
                                             "int:100}, int:2: dict{str:'offset': int:260, str:'size': "
                                             'int:40}}", \'chunks\': \'tuple(int64(2), int:20)\', \'ndim\': '
                                             '\'int:2\', \'repr\': "Array(url=\'image-file\', shape=(5.0, '
                                             '20), dtype=\'uint16\', records_per_chunk=np.int64(2))", '
                                             '\'fields\': "list(str:\'fs\', str:\'url\', '
                                             "str:'byte_ranges', str:'shape', str:'dtype', str:'type_code', "
                                             'str:\'records_per_chunk\', str:\'chunk_offsets\')", '
                                             "'byte_ranges is': True}",
 "shape float-rows ragged5 rpc='auto'": "{'records_per_chunk': 'int64(5)', 'chunk_offsets': "
                                        '"dict{int:0: dict{str:\'offset\': int:20, str:\'size\': int:280}}", '
                                        "'chunks': 'tuple(int64(5), int:20)', 'ndim': 'int:2', 'repr': "
                                        '"Array(url=\'image-file\', shape=(5.0, 20), dtype=\'uint16\', '
                                        'records_per_chunk=np.int64(5))", \'fields\': "list(str:\'fs\', '
                                        "str:'url', str:'byte_ranges', str:'shape', str:'dtype', "
                                        "str:'type_code', str:'records_per_chunk', "
                                        'str:\'chunk_offsets\')", \'byte_ranges is\': True}',
 "shape float-rows ragged5 rpc='80B'": "{'records_per_chunk': 'int64(2)', 'chunk_offsets': "
                                       '"dict{int:0: dict{str:\'offset\': int:20, str:\'size\': int:100}, '
                                       "int:1: dict{str:'offset': int:140, str:'size': int:100}, int:2: "
                                       'dict{str:\'offset\': int:260, str:\'size\': int:40}}", \'chunks\': '
                                       "'tuple(int64(2), int:20)', 'ndim': 'int:2', 'repr': "
                                       '"Array(url=\'image-file\', shape=(5.0, 20), dtype=\'uint16\', '
                                       'records_per_chunk=np.int64(2))", \'fields\': "list(str:\'fs\', '
                                       "str:'url', str:'byte_ranges', str:'shape', str:'dtype', "
                                       "str:'type_code', str:'records_per_chunk', "
                                       'str:\'chunk_offsets\')", \'byte_ranges is\': True}',
 "shape float-rows ragged5 rpc='abc'": "raise builtins.ValueError: Could not interpret 'abc' as a byte unit",
 'shape float-rows ragged5 rpc=[2]': "raise builtins.TypeError: '>' not supported between instances of "
                                     "'list' and 'float'",
 'shape float-rows none rpc=None': "{'records_per_chunk': 'int:1024', 'chunk_offsets': 'dict{}', 'chunks': "
                                   "'tuple(int:1024, int:20)', 'ndim': 'int:2', 'repr': "
                                   '"Array(url=\'image-file\', shape=(0.0, 20), dtype=\'uint16\', '
                                   'records_per_chunk=1024)", \'fields\': "list(str:\'fs\', str:\'url\', '
                                   "str:'byte_ranges', str:'shape', str:'dtype', str:'type_code', "
                                   'str:\'records_per_chunk\', str:\'chunk_offsets\')", \'byte_ranges is\': '
                                   'True}',
 'shape float-rows none rpc=2': "raise builtins.TypeError: can't multiply sequence by non-int of type "
                                "'float'",
 'shape float-rows none rpc=-1': "raise builtins.TypeError: can't multiply sequence by non-int of type "
                                 "'float'",
 'shape float-rows none rpc=1024': "raise builtins.TypeError: can't multiply sequence by non-int of type "
                                   "'float'",
 'shape float-rows none rpc=np.int64(2)': "raise builtins.TypeError: can't multiply sequence by non-int of "
                                          "type 'float'",
 "shape float-rows none rpc='auto'": 'raise builtins.ValueError: attempt to get argmin of an empty sequence',
 "shape float-rows none rpc='80B'": 'raise builtins.ValueError: attempt to get argmin of an empty sequence',
 "shape float-rows none rpc='abc'": "raise builtins.ValueError: Could not interpret 'abc' as a byte unit",
 'shape float-rows none rpc=[2]': "raise builtins.TypeError: '>' not supported between instances of 'list' "
                                  "and 'float'",
 'shape str-rows regular4 rpc=None': '{\'records_per_chunk\': \'int:1024\', \'chunk_offsets\': "dict{int:0: '
                                     'dict{str:\'offset\': int:20, str:\'size\': int:220}}", \'chunks\': '
                                     "'tuple(int:1024, int:20)', 'ndim': 'int:2', 'repr': "
                                     '"Array(url=\'image-file\', shape=(\'x\', 20), dtype=\'uint16\', '
                                     'records_per_chunk=1024)", \'fields\': "list(str:\'fs\', str:\'url\', '
                                     "str:'byte_ranges', str:'shape', str:'dtype', str:'type_code', "
                                     'str:\'records_per_chunk\', str:\'chunk_offsets\')", \'byte_ranges '
                                     "is': True}",
 'shape str-rows regular4 rpc=2': "raise builtins.TypeError: '>' not supported between instances of 'int' "
                                  "and 'str'",
 'shape str-rows regular4 rpc=-1': "raise builtins.TypeError: can't multiply sequence by non-int of type "
                                   "'str'",
 'shape str-rows regular4 rpc=1024': "raise builtins.TypeError: '>' not supported between instances of 'int' "
                                     "and 'str'",
 'shape str-rows regular4 rpc=np.int64(2)': 'raise numpy._core._exceptions._UFuncNoLoopError: ufunc '
                                            "'greater' did not contain a loop with signature matching types "
                                            "(<class 'numpy.dtypes.Int64DType'>, <class "
                                            "'numpy.dtypes.StrDType'>) -> None",
 "shape str-rows regular4 rpc='auto'": "{'records_per_chunk': 'int64(4)', 'chunk_offsets': "
                                       '"dict{int:0: dict{str:\'offset\': int:20, str:\'size\': int:220}}", '
                                       "'chunks': 'tuple(int64(4), int:20)', 'ndim': 'int:2', 'repr': "
                                       '"Array(url=\'image-file\', shape=(\'x\', 20), dtype=\'uint16\', '
                                       'records_per_chunk=np.int64(4))", \'fields\': "list(str:\'fs\', '
                                       "str:'url', str:'byte_ranges', str:'shape', str:'dtype', "
                                       "str:'type_code', str:'records_per_chunk', "
                                       'str:\'chunk_offsets\')", \'byte_ranges is\': True}',
 "shape str-rows regular4 rpc='80B'": '{\'records_per_chunk\': \'int64(2)\', \'chunk_offsets\': "dict{int:0: '
                                      "dict{str:'offset': int:20, str:'size': int:100}, int:1: "
                                      'dict{str:\'offset\': int:140, str:\'size\': int:100}}", \'chunks\': '
                                      "'tuple(int64(2), int:20)', 'ndim': 'int:2', 'repr': "
                                      '"Array(url=\'image-file\', shape=(\'x\', 20), dtype=\'uint16\', '
                                      'records_per_chunk=np.int64(2))", \'fields\': "list(str:\'fs\', '
                                      "str:'url', str:'byte_ranges', str:'shape', str:'dtype', "
                                      "str:'type_code', str:'records_per_chunk', "
                                      'str:\'chunk_offsets\')", \'byte_ranges is\': True}',
 "shape str-rows regular4 rpc='abc'": "raise builtins.ValueError: Could not interpret 'abc' as a byte unit",
 'shape str-rows regular4 rpc=[2]': "raise builtins.TypeError: '>' not supported between instances of 'list' "
                                    "and 'str'",
 'shape str-rows ragged5 rpc=None': '{\'records_per_chunk\': \'int:1024\', \'chunk_offsets\': "dict{int:0: '
                                    'dict{str:\'offset\': int:20, str:\'size\': int:280}}", \'chunks\': '
                                    "'tuple(int:1024, int:20)', 'ndim': 'int:2', 'repr': "
                                    '"Array(url=\'image-file\', shape=(\'x\', 20), dtype=\'uint16\', '
                                    'records_per_chunk=1024)", \'fields\': "list(str:\'fs\', str:\'url\', '
                                    "str:'byte_ranges', str:'shape', str:'dtype', str:'type_code', "
                                    'str:\'records_per_chunk\', str:\'chunk_offsets\')", \'byte_ranges is\': '
                                    'True}',
 'shape str-rows ragged5 rpc=2': "raise builtins.TypeError: '>' not supported between instances of 'int' and "
                                 "'str'",
 'shape str-rows ragged5 rpc=-1': "raise builtins.TypeError: can't multiply sequence by non-int of type "
                                  "'str'",
 'shape str-rows ragged5 rpc=1024': "raise builtins.TypeError: '>' not supported between instances of 'int' "
                                    "and 'str'",
 'shape str-rows ragged5 rpc=np.int64(2)': "raise numpy._core._exceptions._UFuncNoLoopError: ufunc 'greater' "
                                           'did not contain a loop with signature matching types (<class '
                                           "'numpy.dtypes.Int64DType'>, <class 'numpy.dtypes.StrDType'>) -> "
                                           'None',
 "shape str-rows ragged5 rpc='auto'": '{\'records_per_chunk\': \'int64(5)\', \'chunk_offsets\': "dict{int:0: '
                                      'dict{str:\'offset\': int:20, str:\'size\': int:280}}", \'chunks\': '
                                      "'tuple(int64(5), int:20)', 'ndim': 'int:2', 'repr': "
                                      '"Array(url=\'image-file\', shape=(\'x\', 20), dtype=\'uint16\', '
                                      'records_per_chunk=np.int64(5))", \'fields\': "list(str:\'fs\', '
                                      "str:'url', str:'byte_ranges', str:'shape', str:'dtype', "
                                      "str:'type_code', str:'records_per_chunk', "
                                      'str:\'chunk_offsets\')", \'byte_ranges is\': True}',
 "shape str-rows ragged5 rpc='80B'": '{\'records_per_chunk\': \'int64(2)\', \'chunk_offsets\': "dict{int:0: '
                                     "dict{str:'offset': int:20, str:'size': int:100}, int:1: "
                                     "dict{str:'offset': int:140, str:'size': int:100}, int:2: "
                                     'dict{str:\'offset\': int:260, str:\'size\': int:40}}", \'chunks\': '
                                     "'tuple(int64(2), int:20)', 'ndim': 'int:2', 'repr': "
                                     '"Array(url=\'image-file\', shape=(\'x\', 20), dtype=\'uint16\', '
                                     'records_per_chunk=np.int64(2))", \'fields\': "list(str:\'fs\', '
                                     "str:'url', str:'byte_ranges', str:'shape', str:'dtype', "
                                     'str:\'type_code\', str:\'records_per_chunk\', str:\'chunk_offsets\')", '
                                     "'byte_ranges is': True}",
 "shape str-rows ragged5 rpc='abc'": "raise builtins.ValueError: Could not interpret 'abc' as a byte unit",
 'shape str-rows ragged5 rpc=[2]': "raise builtins.TypeError: '>' not supported between instances of 'list' "
                                   "and 'str'",
 'shape str-rows none rpc=None': "{'records_per_chunk': 'int:1024', 'chunk_offsets': 'dict{}', 'chunks': "
                                 "'tuple(int:1024, int:20)', 'ndim': 'int:2', 'repr': "
                                 '"Array(url=\'image-file\', shape=(\'x\', 20), dtype=\'uint16\', '
                                 'records_per_chunk=1024)", \'fields\': "list(str:\'fs\', str:\'url\', '
                                 "str:'byte_ranges', str:'shape', str:'dtype', str:'type_code', "
                                 'str:\'records_per_chunk\', str:\'chunk_offsets\')", \'byte_ranges is\': '
                                 'True}',
 'shape str-rows none rpc=2': "raise builtins.TypeError: '>' not supported between instances of 'int' and "
                              "'str'",
 'shape str-rows none rpc=-1': "raise builtins.TypeError: can't multiply sequence by non-int of type 'str'",
 'shape str-rows none rpc=1024': "raise builtins.TypeError: '>' not supported between instances of 'int' and "
                                 "'str'",
 'shape str-rows none rpc=np.int64(2)': "raise numpy._core._exceptions._UFuncNoLoopError: ufunc 'greater' "
                                        'did not contain a loop with signature matching types (<class '
                                        "'numpy.dtypes.Int64DType'>, <class 'numpy.dtypes.StrDType'>) -> "
                                        'None',
 "shape str-rows none rpc='auto'": 'raise builtins.ValueError: attempt to get argmin of an empty sequence',
 "shape str-rows none rpc='80B'": 'raise builtins.ValueError: attempt to get argmin of an empty sequence',
 "shape str-rows none rpc='abc'": "raise builtins.ValueError: Could not interpret 'abc' as a byte unit",
 'shape str-rows none rpc=[2]': "raise builtins.TypeError: '>' not supported between instances of 'list' and "
                                "'str'",
 'shape array regular4 rpc=None': '{\'records_per_chunk\': \'int:1024\', \'chunk_offsets\': "dict{int:0: '
                                  'dict{str:\'offset\': int:20, str:\'size\': int:220}}", \'chunks\': '
                                  "'tuple(int:1024, int64(20))', 'ndim': 'int:2', 'repr': "
                                  '"Array(url=\'image-file\', shape=array([ 4, 20]), dtype=\'uint16\', '
                                  'records_per_chunk=1024)", \'fields\': "list(str:\'fs\', str:\'url\', '
                                  "str:'byte_ranges', str:'shape', str:'dtype', str:'type_code', "
                                  'str:\'records_per_chunk\', str:\'chunk_offsets\')", \'byte_ranges is\': '
                                  'True}',
 'shape array regular4 rpc=2': '{\'records_per_chunk\': \'int:2\', \'chunk_offsets\': "dict{int:0: '
                               "dict{str:'offset': int:20, str:'size': int:100}, int:1: dict{str:'offset': "
                               'int:140, str:\'size\': int:100}}", \'chunks\': \'tuple(int:2, int64(20))\', '
                               '\'ndim\': \'int:2\', \'repr\': "Array(url=\'image-file\', shape=array([ 4, '
                               '20]), dtype=\'uint16\', records_per_chunk=2)", \'fields\': "list(str:\'fs\', '
                               "str:'url', str:'byte_ranges', str:'shape', str:'dtype', str:'type_code', "
                               'str:\'records_per_chunk\', str:\'chunk_offsets\')", \'byte_ranges is\': '
                               'True}',
 'shape array regular4 rpc=-1': '{\'records_per_chunk\': \'int64(4)\', \'chunk_offsets\': "dict{int:0: '
                                'dict{str:\'offset\': int:20, str:\'size\': int:220}}", \'chunks\': '
                                "'tuple(int64(4), int64(20))', 'ndim': 'int:2', 'repr': "
                                '"Array(url=\'image-file\', shape=array([ 4, 20]), dtype=\'uint16\', '
                                'records_per_chunk=np.int64(4))", \'fields\': "list(str:\'fs\', str:\'url\', '
                                "str:'byte_ranges', str:'shape', str:'dtype', str:'type_code', "
                                'str:\'records_per_chunk\', str:\'chunk_offsets\')", \'byte_ranges is\': '
                                'True}',
 'shape array regular4 rpc=1024': '{\'records_per_chunk\': \'int64(4)\', \'chunk_offsets\': "dict{int:0: '
                                  'dict{str:\'offset\': int:20, str:\'size\': int:220}}", \'chunks\': '
                                  "'tuple(int64(4), int64(20))', 'ndim': 'int:2', 'repr': "
                                  '"Array(url=\'image-file\', shape=array([ 4, 20]), dtype=\'uint16\', '
                                  'records_per_chunk=np.int64(4))", \'fields\': "list(str:\'fs\', '
                                  "str:'url', str:'byte_ranges', str:'shape', str:'dtype', str:'type_code', "
                                  'str:\'records_per_chunk\', str:\'chunk_offsets\')", \'byte_ranges is\': '
                                  'True}',
 'shape array regular4 rpc=np.int64(2)': "{'records_per_chunk': 'int64(2)', 'chunk_offsets': "
                                         '"dict{int:0: dict{str:\'offset\': int:20, str:\'size\': int:100}, '
                                         'int:1: dict{str:\'offset\': int:140, str:\'size\': int:100}}", '
                                         "'chunks': 'tuple(int64(2), int64(20))', 'ndim': 'int:2', 'repr': "
                                         '"Array(url=\'image-file\', shape=array([ 4, 20]), '
                                         'dtype=\'uint16\', records_per_chunk=np.int64(2))", \'fields\': '
                                         '"list(str:\'fs\', str:\'url\', str:\'byte_ranges\', str:\'shape\', '
                                         "str:'dtype', str:'type_code', str:'records_per_chunk', "
                                         'str:\'chunk_offsets\')", \'byte_ranges is\': True}',
 "shape array regular4 rpc='auto'": '{\'records_per_chunk\': \'int64(4)\', \'chunk_offsets\': "dict{int:0: '
                                    'dict{str:\'offset\': int:20, str:\'size\': int:220}}", \'chunks\': '
                                    "'tuple(int64(4), int64(20))', 'ndim': 'int:2', 'repr': "
                                    '"Array(url=\'image-file\', shape=array([ 4, 20]), dtype=\'uint16\', '
                                    'records_per_chunk=np.int64(4))", \'fields\': "list(str:\'fs\', '
                                    "str:'url', str:'byte_ranges', str:'shape', str:'dtype', "
                                    'str:\'type_code\', str:\'records_per_chunk\', str:\'chunk_offsets\')", '
                                    "'byte_ranges is': True}",
 "shape array regular4 rpc='80B'": '{\'records_per_chunk\': \'int64(2)\', \'chunk_offsets\': "dict{int:0: '
                                   "dict{str:'offset': int:20, str:'size': int:100}, int:1: "
                                   'dict{str:\'offset\': int:140, str:\'size\': int:100}}", \'chunks\': '
                                   "'tuple(int64(2), int64(20))', 'ndim': 'int:2', 'repr': "
                                   '"Array(url=\'image-file\', shape=array([ 4, 20]), dtype=\'uint16\', '
                                   'records_per_chunk=np.int64(2))", \'fields\': "list(str:\'fs\', '
                                   "str:'url', str:'byte_ranges', str:'shape', str:'dtype', str:'type_code', "
                                   'str:\'records_per_chunk\', str:\'chunk_offsets\')", \'byte_ranges is\': '
                                   'True}',
 "shape array regular4 rpc='abc'": "raise builtins.ValueError: Could not interpret 'abc' as a byte unit",
 'shape array regular4 rpc=[2]': "raise builtins.TypeError: can't multiply sequence by non-int of type "
                                 "'list'",
 'shape array ragged5 rpc=None': '{\'records_per_chunk\': \'int:1024\', \'chunk_offsets\': "dict{int:0: '
                                 'dict{str:\'offset\': int:20, str:\'size\': int:280}}", \'chunks\': '
                                 "'tuple(int:1024, int64(20))', 'ndim': 'int:2', 'repr': "
                                 '"Array(url=\'image-file\', shape=array([ 5, 20]), dtype=\'uint16\', '
                                 'records_per_chunk=1024)", \'fields\': "list(str:\'fs\', str:\'url\', '
                                 "str:'byte_ranges', str:'shape', str:'dtype', str:'type_code', "
                                 'str:\'records_per_chunk\', str:\'chunk_offsets\')", \'byte_ranges is\': '
                                 'True}',
 'shape array ragged5 rpc=2': '{\'records_per_chunk\': \'int:2\', \'chunk_offsets\': "dict{int:0: '
                              "dict{str:'offset': int:20, str:'size': int:100}, int:1: dict{str:'offset': "
                              "int:140, str:'size': int:100}, int:2: dict{str:'offset': int:260, str:'size': "
                              'int:40}}", \'chunks\': \'tuple(int:2, int64(20))\', \'ndim\': \'int:2\', '
                              '\'repr\': "Array(url=\'image-file\', shape=array([ 5, 20]), dtype=\'uint16\', '
                              'records_per_chunk=2)", \'fields\': "list(str:\'fs\', str:\'url\', '
                              "str:'byte_ranges', str:'shape', str:'dtype', str:'type_code', "
                              'str:\'records_per_chunk\', str:\'chunk_offsets\')", \'byte_ranges is\': True}',
 'shape array ragged5 rpc=-1': '{\'records_per_chunk\': \'int64(5)\', \'chunk_offsets\': "dict{int:0: '
                               'dict{str:\'offset\': int:20, str:\'size\': int:280}}", \'chunks\': '
                               "'tuple(int64(5), int64(20))', 'ndim': 'int:2', 'repr': "
                               '"Array(url=\'image-file\', shape=array([ 5, 20]), dtype=\'uint16\', '
                               'records_per_chunk=np.int64(5))", \'fields\': "list(str:\'fs\', str:\'url\', '
                               "str:'byte_ranges', str:'shape', str:'dtype', str:'type_code', "
                               'str:\'records_per_chunk\', str:\'chunk_offsets\')", \'byte_ranges is\': '
                               'True}',
 'shape array ragged5 rpc=1024': '{\'records_per_chunk\': \'int64(5)\', \'chunk_offsets\': "dict{int:0: '
                                 'dict{str:\'offset\': int:20, str:\'size\': int:280}}", \'chunks\': '
                                 "'tuple(int64(5), int64(20))', 'ndim': 'int:2', 'repr': "
                                 '"Array(url=\'image-file\', shape=array([ 5, 20]), dtype=\'uint16\', '
                                 'records_per_chunk=np.int64(5))", \'fields\': "list(str:\'fs\', '
                                 "str:'url', str:'byte_ranges', str:'shape', str:'dtype', str:'type_code', "
                                 'str:\'records_per_chunk\', str:\'chunk_offsets\')", \'byte_ranges is\': '
                                 'True}',
 'shape array ragged5 rpc=np.int64(2)': "{'records_per_chunk': 'int64(2)', 'chunk_offsets': "
                                        '"dict{int:0: dict{str:\'offset\': int:20, str:\'size\': int:100}, '
                                        "int:1: dict{str:'offset': int:140, str:'size': int:100}, int:2: "
                                        'dict{str:\'offset\': int:260, str:\'size\': int:40}}", \'chunks\': '
                                        "'tuple(int64(2), int64(20))', 'ndim': 'int:2', 'repr': "
                                        '"Array(url=\'image-file\', shape=array([ 5, 20]), dtype=\'uint16\', '
                                        'records_per_chunk=np.int64(2))", \'fields\': "list(str:\'fs\', '
                                        "str:'url', str:'byte_ranges', str:'shape', str:'dtype', "
                                        "str:'type_code', str:'records_per_chunk', "
                                        'str:\'chunk_offsets\')", \'byte_ranges is\': True}',
 "shape array ragged5 rpc='auto'": '{\'records_per_chunk\': \'int64(5)\', \'chunk_offsets\': "dict{int:0: '
                                   'dict{str:\'offset\': int:20, str:\'size\': int:280}}", \'chunks\': '
                                   "'tuple(int64(5), int64(20))', 'ndim': 'int:2', 'repr': "
                                   '"Array(url=\'image-file\', shape=array([ 5, 20]), dtype=\'uint16\', '
                                   'records_per_chunk=np.int64(5))", \'fields\': "list(str:\'fs\', '
                                   "str:'url', str:'byte_ranges', str:'shape', str:'dtype', str:'type_code', "
                                   'str:\'records_per_chunk\', str:\'chunk_offsets\')", \'byte_ranges is\': '
                                   'True}',
 "shape array ragged5 rpc='80B'": '{\'records_per_chunk\': \'int64(2)\', \'chunk_offsets\': "dict{int:0: '
                                  "dict{str:'offset': int:20, str:'size': int:100}, int:1: "
                                  "dict{str:'offset': int:140, str:'size': int:100}, int:2: "
                                  'dict{str:\'offset\': int:260, str:\'size\': int:40}}", \'chunks\': '
                                  "'tuple(int64(2), int64(20))', 'ndim': 'int:2', 'repr': "
                                  '"Array(url=\'image-file\', shape=array([ 5, 20]), dtype=\'uint16\', '
                                  'records_per_chunk=np.int64(2))", \'fields\': "list(str:\'fs\', '
                                  "str:'url', str:'byte_ranges', str:'shape', str:'dtype', str:'type_code', "
                                  'str:\'records_per_chunk\', str:\'chunk_offsets\')", \'byte_ranges is\': '
                                  'True}',
 "shape array ragged5 rpc='abc'": "raise builtins.ValueError: Could not interpret 'abc' as a byte unit",
 'shape array ragged5 rpc=[2]': "raise builtins.TypeError: can't multiply sequence by non-int of type 'list'",
 'shape array none rpc=None': "{'records_per_chunk': 'int:1024', 'chunk_offsets': 'dict{}', 'chunks': "
                              "'tuple(int:1024, int64(20))', 'ndim': 'int:2', 'repr': "
                              '"Array(url=\'image-file\', shape=array([ 0, 20]), dtype=\'uint16\', '
                              'records_per_chunk=1024)", \'fields\': "list(str:\'fs\', str:\'url\', '
                              "str:'byte_ranges', str:'shape', str:'dtype', str:'type_code', "
                              'str:\'records_per_chunk\', str:\'chunk_offsets\')", \'byte_ranges is\': True}',
 'shape array none rpc=2': "{'records_per_chunk': 'int64(0)', 'chunk_offsets': 'dict{}', 'chunks': "
                           "'tuple(int64(0), int64(20))', 'ndim': 'int:2', 'repr': "
                           '"Array(url=\'image-file\', shape=array([ 0, 20]), dtype=\'uint16\', '
                           'records_per_chunk=np.int64(0))", \'fields\': "list(str:\'fs\', str:\'url\', '
                           "str:'byte_ranges', str:'shape', str:'dtype', str:'type_code', "
                           'str:\'records_per_chunk\', str:\'chunk_offsets\')", \'byte_ranges is\': True}',
 'shape array none rpc=-1': "{'records_per_chunk': 'int64(0)', 'chunk_offsets': 'dict{}', 'chunks': "
                            "'tuple(int64(0), int64(20))', 'ndim': 'int:2', 'repr': "
                            '"Array(url=\'image-file\', shape=array([ 0, 20]), dtype=\'uint16\', '
                            'records_per_chunk=np.int64(0))", \'fields\': "list(str:\'fs\', str:\'url\', '
                            "str:'byte_ranges', str:'shape', str:'dtype', str:'type_code', "
                            'str:\'records_per_chunk\', str:\'chunk_offsets\')", \'byte_ranges is\': True}',
 'shape array none rpc=1024': "{'records_per_chunk': 'int64(0)', 'chunk_offsets': 'dict{}', 'chunks': "
                              "'tuple(int64(0), int64(20))', 'ndim': 'int:2', 'repr': "
                              '"Array(url=\'image-file\', shape=array([ 0, 20]), dtype=\'uint16\', '
                              'records_per_chunk=np.int64(0))", \'fields\': "list(str:\'fs\', str:\'url\', '
                              "str:'byte_ranges', str:'shape', str:'dtype', str:'type_code', "
                              'str:\'records_per_chunk\', str:\'chunk_offsets\')", \'byte_ranges is\': True}',
 'shape array none rpc=np.int64(2)': "{'records_per_chunk': 'int64(0)', 'chunk_offsets': 'dict{}', 'chunks': "
                                     "'tuple(int64(0), int64(20))', 'ndim': 'int:2', 'repr': "
                                     '"Array(url=\'image-file\', shape=array([ 0, 20]), dtype=\'uint16\', '
                                     'records_per_chunk=np.int64(0))", \'fields\': "list(str:\'fs\', '
                                     "str:'url', str:'byte_ranges', str:'shape', str:'dtype', "
                                     'str:\'type_code\', str:\'records_per_chunk\', str:\'chunk_offsets\')", '
                                     "'byte_ranges is': True}",
 "shape array none rpc='auto'": 'raise builtins.ValueError: attempt to get argmin of an empty sequence',
 "shape array none rpc='80B'": 'raise builtins.ValueError: attempt to get argmin of an empty sequence',
 "shape array none rpc='abc'": "raise builtins.ValueError: Could not interpret 'abc' as a byte unit",
 'shape array none rpc=[2]': "{'records_per_chunk': 'int64(0)', 'chunk_offsets': 'dict{}', 'chunks': "
                             "'tuple(int64(0), int64(20))', 'ndim': 'int:2', 'repr': "
                             '"Array(url=\'image-file\', shape=array([ 0, 20]), dtype=\'uint16\', '
                             'records_per_chunk=np.int64(0))", \'fields\': "list(str:\'fs\', str:\'url\', '
                             "str:'byte_ranges', str:'shape', str:'dtype', str:'type_code', "
                             'str:\'records_per_chunk\', str:\'chunk_offsets\')", \'byte_ranges is\': True}',
 "big rpc='auto'": '{\'records_per_chunk\': \'int64(33)\', \'chunk_offsets\': "dict{int:0: '
                   "dict{str:'offset': int:720, str:'size': int:103832064}, int:1: dict{str:'offset': "
                   'int:103833504, str:\'size\': int:22024416}}", \'chunks\': \'tuple(int64(33), int:100)\', '
                   '\'ndim\': \'int:2\', \'repr\': "Array(url=\'image-file\', shape=(40, 100), '
                   'dtype=\'uint16\', records_per_chunk=np.int64(33))", \'fields\': "list(str:\'fs\', '
                   "str:'url', str:'byte_ranges', str:'shape', str:'dtype', str:'type_code', "
                   'str:\'records_per_chunk\', str:\'chunk_offsets\')", \'byte_ranges is\': True}',
 "big rpc='5GB'": '{\'records_per_chunk\': \'int64(40)\', \'chunk_offsets\': "dict{int:0: '
                  'dict{str:\'offset\': int:720, str:\'size\': int:125857200}}", \'chunks\': '
                  '\'tuple(int64(40), int:100)\', \'ndim\': \'int:2\', \'repr\': "Array(url=\'image-file\', '
                  'shape=(40, 100), dtype=\'uint16\', records_per_chunk=np.int64(40))", \'fields\': '
                  '"list(str:\'fs\', str:\'url\', str:\'byte_ranges\', str:\'shape\', str:\'dtype\', '
                  'str:\'type_code\', str:\'records_per_chunk\', str:\'chunk_offsets\')", \'byte_ranges '
                  "is': True}",
 "big rpc='1kB'": '{\'records_per_chunk\': \'int64(1)\', \'chunk_offsets\': "dict{int:0: '
                  "dict{str:'offset': int:720, str:'size': int:3145728}, int:1: dict{str:'offset': "
                  "int:3147168, str:'size': int:3145728}, int:2: dict{str:'offset': int:6293616, str:'size': "
                  "int:3145728}, int:3: dict{str:'offset': int:9440064, str:'size': int:3145728}, int:4: "
                  "dict{str:'offset': int:12586512, str:'size': int:3145728}, int:5: dict{str:'offset': "
                  "int:15732960, str:'size': int:3145728}, int:6: dict{str:'offset': int:18879408, "
                  "str:'size': int:3145728}, int:7: dict{str:'offset': int:22025856, str:'size': "
                  "int:3145728}, int:8: dict{str:'offset': int:25172304, str:'size': int:3145728}, int:9: "
                  "dict{str:'offset': int:28318752, str:'size': int:3145728}, int:10: dict{str:'offset': "
                  "int:31465200, str:'size': int:3145728}, int:11: dict{str:'offset': int:34611648, "
                  "str:'size': int:3145728}, int:12: dict{str:'offset': int:37758096, str:'size': "
                  "int:3145728}, int:13: dict{str:'offset': int:40904544, str:'size': int:3145728}, int:14: "
                  "dict{str:'offset': int:44050992, str:'size': int:3145728}, int:15: dict{str:'offset': "
                  "int:47197440, str:'size': int:3145728}, int:16: dict{str:'offset': int:50343888, "
                  "str:'size': int:3145728}, int:17: dict{str:'offset': int:53490336, str:'size': "
                  "int:3145728}, int:18: dict{str:'offset': int:56636784, str:'size': int:3145728}, int:19: "
                  "dict{str:'offset': int:59783232, str:'size': int:3145728}, int:20: dict{str:'offset': "
                  "int:62929680, str:'size': int:3145728}, int:21: dict{str:'offset': int:66076128, "
                  "str:'size': int:3145728}, int:22: dict{str:'offset': int:69222576, str:'size': "
                  "int:3145728}, int:23: dict{str:'offset': int:72369024, str:'size': int:3145728}, int:24: "
                  "dict{str:'offset': int:75515472, str:'size': int:3145728}, int:25: dict{str:'offset': "
                  "int:78661920, str:'size': int:3145728}, int:26: dict{str:'offset': int:81808368, "
                  "str:'size': int:3145728}, int:27: dict{str:'offset': int:84954816, str:'size': "
                  "int:3145728}, int:28: dict{str:'offset': int:88101264, str:'size': int:3145728}, int:29: "
                  "dict{str:'offset': int:91247712, str:'size': int:3145728}, int:30: dict{str:'offset': "
                  "int:94394160, str:'size': int:3145728}, int:31: dict{str:'offset': int:97540608, "
                  "str:'size': int:3145728}, int:32: dict{str:'offset': int:100687056, str:'size': "
                  "int:3145728}, int:33: dict{str:'offset': int:103833504, str:'size': int:3145728}, int:34: "
                  "dict{str:'offset': int:106979952, str:'size': int:3145728}, int:35: dict{str:'offset': "
                  "int:110126400, str:'size': int:3145728}, int:36: dict{str:'offset': int:113272848, "
                  "str:'size': int:3145728}, int:37: dict{str:'offset': int:116419296, str:'size': "
                  "int:3145728}, int:38: dict{str:'offset': int:119565744, str:'size': int:3145728}, int:39: "
                  'dict{str:\'offset\': int:122712192, str:\'size\': int:3145728}}", \'chunks\': '
                  '\'tuple(int64(1), int:100)\', \'ndim\': \'int:2\', \'repr\': "Array(url=\'image-file\', '
                  'shape=(40, 100), dtype=\'uint16\', records_per_chunk=np.int64(1))", \'fields\': '
                  '"list(str:\'fs\', str:\'url\', str:\'byte_ranges\', str:\'shape\', str:\'dtype\', '
                  'str:\'type_code\', str:\'records_per_chunk\', str:\'chunk_offsets\')", \'byte_ranges '
                  "is': True}",
 'big rpc=None': '{\'records_per_chunk\': \'int:1024\', \'chunk_offsets\': "dict{int:0: dict{str:\'offset\': '
                 'int:720, str:\'size\': int:125857200}}", \'chunks\': \'tuple(int:1024, int:100)\', '
                 '\'ndim\': \'int:2\', \'repr\': "Array(url=\'image-file\', shape=(40, 100), '
                 'dtype=\'uint16\', records_per_chunk=1024)", \'fields\': "list(str:\'fs\', str:\'url\', '
                 "str:'byte_ranges', str:'shape', str:'dtype', str:'type_code', str:'records_per_chunk', "
                 'str:\'chunk_offsets\')", \'byte_ranges is\': True}',
 'big rpc=-1': '{\'records_per_chunk\': \'int:40\', \'chunk_offsets\': "dict{int:0: dict{str:\'offset\': '
               'int:720, str:\'size\': int:125857200}}", \'chunks\': \'tuple(int:40, int:100)\', \'ndim\': '
               '\'int:2\', \'repr\': "Array(url=\'image-file\', shape=(40, 100), dtype=\'uint16\', '
               'records_per_chunk=40)", \'fields\': "list(str:\'fs\', str:\'url\', str:\'byte_ranges\', '
               "str:'shape', str:'dtype', str:'type_code', str:'records_per_chunk', "
               'str:\'chunk_offsets\')", \'byte_ranges is\': True}',
 'big rpc=32': '{\'records_per_chunk\': \'int:32\', \'chunk_offsets\': "dict{int:0: dict{str:\'offset\': '
               "int:720, str:'size': int:100685616}, int:1: dict{str:'offset': int:100687056, str:'size': "
               'int:25170864}}", \'chunks\': \'tuple(int:32, int:100)\', \'ndim\': \'int:2\', \'repr\': '
               '"Array(url=\'image-file\', shape=(40, 100), dtype=\'uint16\', records_per_chunk=32)", '
               '\'fields\': "list(str:\'fs\', str:\'url\', str:\'byte_ranges\', str:\'shape\', '
               'str:\'dtype\', str:\'type_code\', str:\'records_per_chunk\', str:\'chunk_offsets\')", '
               "'byte_ranges is': True}",
 "big rpc='100MiB'": '{\'records_per_chunk\': \'int64(33)\', \'chunk_offsets\': "dict{int:0: '
                     "dict{str:'offset': int:720, str:'size': int:103832064}, int:1: dict{str:'offset': "
                     'int:103833504, str:\'size\': int:22024416}}", \'chunks\': \'tuple(int64(33), '
                     'int:100)\', \'ndim\': \'int:2\', \'repr\': "Array(url=\'image-file\', shape=(40, 100), '
                     'dtype=\'uint16\', records_per_chunk=np.int64(33))", \'fields\': "list(str:\'fs\', '
                     "str:'url', str:'byte_ranges', str:'shape', str:'dtype', str:'type_code', "
                     'str:\'records_per_chunk\', str:\'chunk_offsets\')", \'byte_ranges is\': True}',
 "big rpc='100MB'": '{\'records_per_chunk\': \'int64(32)\', \'chunk_offsets\': "dict{int:0: '
                    "dict{str:'offset': int:720, str:'size': int:100685616}, int:1: dict{str:'offset': "
                    'int:100687056, str:\'size\': int:25170864}}", \'chunks\': \'tuple(int64(32), '
                    'int:100)\', \'ndim\': \'int:2\', \'repr\': "Array(url=\'image-file\', shape=(40, 100), '
                    'dtype=\'uint16\', records_per_chunk=np.int64(32))", \'fields\': "list(str:\'fs\', '
                    "str:'url', str:'byte_ranges', str:'shape', str:'dtype', str:'type_code', "
                    'str:\'records_per_chunk\', str:\'chunk_offsets\')", \'byte_ranges is\': True}',
 "big rpc='104857599'": '{\'records_per_chunk\': \'int64(33)\', \'chunk_offsets\': "dict{int:0: '
                        "dict{str:'offset': int:720, str:'size': int:103832064}, int:1: dict{str:'offset': "
                        'int:103833504, str:\'size\': int:22024416}}", \'chunks\': \'tuple(int64(33), '
                        'int:100)\', \'ndim\': \'int:2\', \'repr\': "Array(url=\'image-file\', shape=(40, '
                        '100), dtype=\'uint16\', records_per_chunk=np.int64(33))", \'fields\': '
                        '"list(str:\'fs\', str:\'url\', str:\'byte_ranges\', str:\'shape\', str:\'dtype\', '
                        'str:\'type_code\', str:\'records_per_chunk\', str:\'chunk_offsets\')", '
                        "'byte_ranges is': True}",
 "big rpc='104857600'": '{\'records_per_chunk\': \'int64(33)\', \'chunk_offsets\': "dict{int:0: '
                        "dict{str:'offset': int:720, str:'size': int:103832064}, int:1: dict{str:'offset': "
                        'int:103833504, str:\'size\': int:22024416}}", \'chunks\': \'tuple(int64(33), '
                        'int:100)\', \'ndim\': \'int:2\', \'repr\': "Array(url=\'image-file\', shape=(40, '
                        '100), dtype=\'uint16\', records_per_chunk=np.int64(33))", \'fields\': '
                        '"list(str:\'fs\', str:\'url\', str:\'byte_ranges\', str:\'shape\', str:\'dtype\', '
                        'str:\'type_code\', str:\'records_per_chunk\', str:\'chunk_offsets\')", '
                        "'byte_ranges is': True}",
 "big rpc='104857601'": '{\'records_per_chunk\': \'int64(33)\', \'chunk_offsets\': "dict{int:0: '
                        "dict{str:'offset': int:720, str:'size': int:103832064}, int:1: dict{str:'offset': "
                        'int:103833504, str:\'size\': int:22024416}}", \'chunks\': \'tuple(int64(33), '
                        'int:100)\', \'ndim\': \'int:2\', \'repr\': "Array(url=\'image-file\', shape=(40, '
                        '100), dtype=\'uint16\', records_per_chunk=np.int64(33))", \'fields\': '
                        '"list(str:\'fs\', str:\'url\', str:\'byte_ranges\', str:\'shape\', str:\'dtype\', '
                        'str:\'type_code\', str:\'records_per_chunk\', str:\'chunk_offsets\')", '
                        "'byte_ranges is': True}",
 "big rpc='99MiB'": '{\'records_per_chunk\': \'int64(33)\', \'chunk_offsets\': "dict{int:0: '
                    "dict{str:'offset': int:720, str:'size': int:103832064}, int:1: dict{str:'offset': "
                    'int:103833504, str:\'size\': int:22024416}}", \'chunks\': \'tuple(int64(33), '
                    'int:100)\', \'ndim\': \'int:2\', \'repr\': "Array(url=\'image-file\', shape=(40, 100), '
                    'dtype=\'uint16\', records_per_chunk=np.int64(33))", \'fields\': "list(str:\'fs\', '
                    "str:'url', str:'byte_ranges', str:'shape', str:'dtype', str:'type_code', "
                    'str:\'records_per_chunk\', str:\'chunk_offsets\')", \'byte_ranges is\': True}',
 "big rpc='50 MiB'": '{\'records_per_chunk\': \'int64(17)\', \'chunk_offsets\': "dict{int:0: '
                     "dict{str:'offset': int:720, str:'size': int:53488896}, int:1: dict{str:'offset': "
                     "int:53490336, str:'size': int:53488896}, int:2: dict{str:'offset': int:106979952, "
                     'str:\'size\': int:18877968}}", \'chunks\': \'tuple(int64(17), int:100)\', \'ndim\': '
                     '\'int:2\', \'repr\': "Array(url=\'image-file\', shape=(40, 100), dtype=\'uint16\', '
                     'records_per_chunk=np.int64(17))", \'fields\': "list(str:\'fs\', str:\'url\', '
                     "str:'byte_ranges', str:'shape', str:'dtype', str:'type_code', str:'records_per_chunk', "
                     'str:\'chunk_offsets\')", \'byte_ranges is\': True}',
 "big rpc='3MiB'": '{\'records_per_chunk\': \'int64(1)\', \'chunk_offsets\': "dict{int:0: '
                   "dict{str:'offset': int:720, str:'size': int:3145728}, int:1: dict{str:'offset': "
                   "int:3147168, str:'size': int:3145728}, int:2: dict{str:'offset': int:6293616, "
                   "str:'size': int:3145728}, int:3: dict{str:'offset': int:9440064, str:'size': "
                   "int:3145728}, int:4: dict{str:'offset': int:12586512, str:'size': int:3145728}, int:5: "
                   "dict{str:'offset': int:15732960, str:'size': int:3145728}, int:6: dict{str:'offset': "
                   "int:18879408, str:'size': int:3145728}, int:7: dict{str:'offset': int:22025856, "
                   "str:'size': int:3145728}, int:8: dict{str:'offset': int:25172304, str:'size': "
                   "int:3145728}, int:9: dict{str:'offset': int:28318752, str:'size': int:3145728}, int:10: "
                   "dict{str:'offset': int:31465200, str:'size': int:3145728}, int:11: dict{str:'offset': "
                   "int:34611648, str:'size': int:3145728}, int:12: dict{str:'offset': int:37758096, "
                   "str:'size': int:3145728}, int:13: dict{str:'offset': int:40904544, str:'size': "
                   "int:3145728}, int:14: dict{str:'offset': int:44050992, str:'size': int:3145728}, int:15: "
                   "dict{str:'offset': int:47197440, str:'size': int:3145728}, int:16: dict{str:'offset': "
                   "int:50343888, str:'size': int:3145728}, int:17: dict{str:'offset': int:53490336, "
                   "str:'size': int:3145728}, int:18: dict{str:'offset': int:56636784, str:'size': "
                   "int:3145728}, int:19: dict{str:'offset': int:59783232, str:'size': int:3145728}, int:20: "
                   "dict{str:'offset': int:62929680, str:'size': int:3145728}, int:21: dict{str:'offset': "
                   "int:66076128, str:'size': int:3145728}, int:22: dict{str:'offset': int:69222576, "
                   "str:'size': int:3145728}, int:23: dict{str:'offset': int:72369024, str:'size': "
                   "int:3145728}, int:24: dict{str:'offset': int:75515472, str:'size': int:3145728}, int:25: "
                   "dict{str:'offset': int:78661920, str:'size': int:3145728}, int:26: dict{str:'offset': "
                   "int:81808368, str:'size': int:3145728}, int:27: dict{str:'offset': int:84954816, "
                   "str:'size': int:3145728}, int:28: dict{str:'offset': int:88101264, str:'size': "
                   "int:3145728}, int:29: dict{str:'offset': int:91247712, str:'size': int:3145728}, int:30: "
                   "dict{str:'offset': int:94394160, str:'size': int:3145728}, int:31: dict{str:'offset': "
                   "int:97540608, str:'size': int:3145728}, int:32: dict{str:'offset': int:100687056, "
                   "str:'size': int:3145728}, int:33: dict{str:'offset': int:103833504, str:'size': "
                   "int:3145728}, int:34: dict{str:'offset': int:106979952, str:'size': int:3145728}, "
                   "int:35: dict{str:'offset': int:110126400, str:'size': int:3145728}, int:36: "
                   "dict{str:'offset': int:113272848, str:'size': int:3145728}, int:37: dict{str:'offset': "
                   "int:116419296, str:'size': int:3145728}, int:38: dict{str:'offset': int:119565744, "
                   "str:'size': int:3145728}, int:39: dict{str:'offset': int:122712192, str:'size': "
                   'int:3145728}}", \'chunks\': \'tuple(int64(1), int:100)\', \'ndim\': \'int:2\', \'repr\': '
                   '"Array(url=\'image-file\', shape=(40, 100), dtype=\'uint16\', '
                   'records_per_chunk=np.int64(1))", \'fields\': "list(str:\'fs\', str:\'url\', '
                   "str:'byte_ranges', str:'shape', str:'dtype', str:'type_code', str:'records_per_chunk', "
                   'str:\'chunk_offsets\')", \'byte_ranges is\': True}',
 'read rpc=None [all]': 'ndarray[<u2(5, 3)][[5141, 5655, 6169], [20561, 21075, 21589], [35981, 36495, '
                        "37009], [51401, 51915, 52429], [1029, 1543, 2057]] || io=[('open', ('image-file',), "
                        "{'mode': 'rb'}), 'enter', ('seek', (20,), {}), ('read', (280,), {}), 'exit']",
 'read rpc=None [3]': "ndarray[<u2(3,)][51401, 51915, 52429] || io=[('open', ('image-file',), {'mode': "
                      "'rb'}), 'enter', ('seek', (20,), {}), ('read', (280,), {}), 'exit']",
 'read rpc=None [[4,0]]': "ndarray[<u2(2, 3)][[1029, 1543, 2057], [5141, 5655, 6169]] || io=[('open', "
                          "('image-file',), {'mode': 'rb'}), 'enter', ('seek', (20,), {}), ('read', (280,), "
                          "{}), 'exit']",
 'read rpc=None [::2]': 'ndarray[<u2(3, 3)][[5141, 5655, 6169], [35981, 36495, 37009], [1029, 1543, 2057]] '
                        "|| io=[('open', ('image-file',), {'mode': 'rb'}), 'enter', ('seek', (20,), {}), "
                        "('read', (280,), {}), 'exit']",
 'read rpc=1 [all]': 'ndarray[<u2(5, 3)][[5141, 5655, 6169], [20561, 21075, 21589], [35981, 36495, 37009], '
                     "[51401, 51915, 52429], [1029, 1543, 2057]] || io=[('open', ('image-file',), {'mode': "
                     "'rb'}), 'enter', ('seek', (20,), {}), ('read', (40,), {}), ('seek', (80,), {}), "
                     "('read', (40,), {}), ('seek', (140,), {}), ('read', (40,), {}), ('seek', (200,), {}), "
                     "('read', (40,), {}), ('seek', (260,), {}), ('read', (40,), {}), 'exit']",
 'read rpc=1 [3]': "ndarray[<u2(3,)][51401, 51915, 52429] || io=[('open', ('image-file',), {'mode': 'rb'}), "
                   "'enter', ('seek', (200,), {}), ('read', (40,), {}), 'exit']",
 'read rpc=1 [[4,0]]': "ndarray[<u2(2, 3)][[1029, 1543, 2057], [5141, 5655, 6169]] || io=[('open', "
                       "('image-file',), {'mode': 'rb'}), 'enter', ('seek', (260,), {}), ('read', (40,), "
                       "{}), ('seek', (20,), {}), ('read', (40,), {}), 'exit']",
 'read rpc=1 [::2]': 'ndarray[<u2(3, 3)][[5141, 5655, 6169], [35981, 36495, 37009], [1029, 1543, 2057]] || '
                     "io=[('open', ('image-file',), {'mode': 'rb'}), 'enter', ('seek', (20,), {}), ('read', "
                     "(40,), {}), ('seek', (140,), {}), ('read', (40,), {}), ('seek', (260,), {}), ('read', "
                     "(40,), {}), 'exit']",
 'read rpc=2 [all]': 'ndarray[<u2(5, 3)][[5141, 5655, 6169], [20561, 21075, 21589], [35981, 36495, 37009], '
                     "[51401, 51915, 52429], [1029, 1543, 2057]] || io=[('open', ('image-file',), {'mode': "
                     "'rb'}), 'enter', ('seek', (20,), {}), ('read', (100,), {}), ('seek', (140,), {}), "
                     "('read', (100,), {}), ('seek', (260,), {}), ('read', (40,), {}), 'exit']",
 'read rpc=2 [3]': "ndarray[<u2(3,)][51401, 51915, 52429] || io=[('open', ('image-file',), {'mode': 'rb'}), "
                   "'enter', ('seek', (140,), {}), ('read', (100,), {}), 'exit']",
 'read rpc=2 [[4,0]]': "ndarray[<u2(2, 3)][[1029, 1543, 2057], [5141, 5655, 6169]] || io=[('open', "
                       "('image-file',), {'mode': 'rb'}), 'enter', ('seek', (260,), {}), ('read', (40,), "
                       "{}), ('seek', (20,), {}), ('read', (100,), {}), 'exit']",
 'read rpc=2 [::2]': 'ndarray[<u2(3, 3)][[5141, 5655, 6169], [35981, 36495, 37009], [1029, 1543, 2057]] || '
                     "io=[('open', ('image-file',), {'mode': 'rb'}), 'enter', ('seek', (20,), {}), ('read', "
                     "(100,), {}), ('seek', (140,), {}), ('read', (100,), {}), ('seek', (260,), {}), "
                     "('read', (40,), {}), 'exit']",
 'read rpc=3 [all]': 'ndarray[<u2(5, 3)][[5141, 5655, 6169], [20561, 21075, 21589], [35981, 36495, 37009], '
                     "[51401, 51915, 52429], [1029, 1543, 2057]] || io=[('open', ('image-file',), {'mode': "
                     "'rb'}), 'enter', ('seek', (20,), {}), ('read', (160,), {}), ('seek', (200,), {}), "
                     "('read', (100,), {}), 'exit']",
 'read rpc=3 [3]': "ndarray[<u2(3,)][51401, 51915, 52429] || io=[('open', ('image-file',), {'mode': 'rb'}), "
                   "'enter', ('seek', (200,), {}), ('read', (100,), {}), 'exit']",
 'read rpc=3 [[4,0]]': "ndarray[<u2(2, 3)][[1029, 1543, 2057], [5141, 5655, 6169]] || io=[('open', "
                       "('image-file',), {'mode': 'rb'}), 'enter', ('seek', (200,), {}), ('read', (100,), "
                       "{}), ('seek', (20,), {}), ('read', (160,), {}), 'exit']",
 'read rpc=3 [::2]': 'ndarray[<u2(3, 3)][[5141, 5655, 6169], [35981, 36495, 37009], [1029, 1543, 2057]] || '
                     "io=[('open', ('image-file',), {'mode': 'rb'}), 'enter', ('seek', (20,), {}), ('read', "
                     "(160,), {}), ('seek', (200,), {}), ('read', (100,), {}), 'exit']",
 'read rpc=5 [all]': 'ndarray[<u2(5, 3)][[5141, 5655, 6169], [20561, 21075, 21589], [35981, 36495, 37009], '
                     "[51401, 51915, 52429], [1029, 1543, 2057]] || io=[('open', ('image-file',), {'mode': "
                     "'rb'}), 'enter', ('seek', (20,), {}), ('read', (280,), {}), 'exit']",
 'read rpc=5 [3]': "ndarray[<u2(3,)][51401, 51915, 52429] || io=[('open', ('image-file',), {'mode': 'rb'}), "
                   "'enter', ('seek', (20,), {}), ('read', (280,), {}), 'exit']",
 'read rpc=5 [[4,0]]': "ndarray[<u2(2, 3)][[1029, 1543, 2057], [5141, 5655, 6169]] || io=[('open', "
                       "('image-file',), {'mode': 'rb'}), 'enter', ('seek', (20,), {}), ('read', (280,), "
                       "{}), 'exit']",
 'read rpc=5 [::2]': 'ndarray[<u2(3, 3)][[5141, 5655, 6169], [35981, 36495, 37009], [1029, 1543, 2057]] || '
                     "io=[('open', ('image-file',), {'mode': 'rb'}), 'enter', ('seek', (20,), {}), ('read', "
                     "(280,), {}), 'exit']",
 'read rpc=6 [all]': 'ndarray[<u2(5, 3)][[5141, 5655, 6169], [20561, 21075, 21589], [35981, 36495, 37009], '
                     "[51401, 51915, 52429], [1029, 1543, 2057]] || io=[('open', ('image-file',), {'mode': "
                     "'rb'}), 'enter', ('seek', (20,), {}), ('read', (280,), {}), 'exit']",
 'read rpc=6 [3]': "ndarray[<u2(3,)][51401, 51915, 52429] || io=[('open', ('image-file',), {'mode': 'rb'}), "
                   "'enter', ('seek', (20,), {}), ('read', (280,), {}), 'exit']",
 'read rpc=6 [[4,0]]': "ndarray[<u2(2, 3)][[1029, 1543, 2057], [5141, 5655, 6169]] || io=[('open', "
                       "('image-file',), {'mode': 'rb'}), 'enter', ('seek', (20,), {}), ('read', (280,), "
                       "{}), 'exit']",
 'read rpc=6 [::2]': 'ndarray[<u2(3, 3)][[5141, 5655, 6169], [35981, 36495, 37009], [1029, 1543, 2057]] || '
                     "io=[('open', ('image-file',), {'mode': 'rb'}), 'enter', ('seek', (20,), {}), ('read', "
                     "(280,), {}), 'exit']",
 'read rpc=-1 [all]': 'ndarray[<u2(5, 3)][[5141, 5655, 6169], [20561, 21075, 21589], [35981, 36495, 37009], '
                      "[51401, 51915, 52429], [1029, 1543, 2057]] || io=[('open', ('image-file',), {'mode': "
                      "'rb'}), 'enter', ('seek', (20,), {}), ('read', (280,), {}), 'exit']",
 'read rpc=-1 [3]': "ndarray[<u2(3,)][51401, 51915, 52429] || io=[('open', ('image-file',), {'mode': 'rb'}), "
                    "'enter', ('seek', (20,), {}), ('read', (280,), {}), 'exit']",
 'read rpc=-1 [[4,0]]': "ndarray[<u2(2, 3)][[1029, 1543, 2057], [5141, 5655, 6169]] || io=[('open', "
                        "('image-file',), {'mode': 'rb'}), 'enter', ('seek', (20,), {}), ('read', (280,), "
                        "{}), 'exit']",
 'read rpc=-1 [::2]': 'ndarray[<u2(3, 3)][[5141, 5655, 6169], [35981, 36495, 37009], [1029, 1543, 2057]] || '
                      "io=[('open', ('image-file',), {'mode': 'rb'}), 'enter', ('seek', (20,), {}), ('read', "
                      "(280,), {}), 'exit']",
 "read rpc='auto' [all]": 'ndarray[<u2(5, 3)][[5141, 5655, 6169], [20561, 21075, 21589], [35981, 36495, '
                          "37009], [51401, 51915, 52429], [1029, 1543, 2057]] || io=[('open', "
                          "('image-file',), {'mode': 'rb'}), 'enter', ('seek', (20,), {}), ('read', (280,), "
                          "{}), 'exit']",
 "read rpc='auto' [3]": "ndarray[<u2(3,)][51401, 51915, 52429] || io=[('open', ('image-file',), {'mode': "
                        "'rb'}), 'enter', ('seek', (20,), {}), ('read', (280,), {}), 'exit']",
 "read rpc='auto' [[4,0]]": "ndarray[<u2(2, 3)][[1029, 1543, 2057], [5141, 5655, 6169]] || io=[('open', "
                            "('image-file',), {'mode': 'rb'}), 'enter', ('seek', (20,), {}), ('read', "
                            "(280,), {}), 'exit']",
 "read rpc='auto' [::2]": 'ndarray[<u2(3, 3)][[5141, 5655, 6169], [35981, 36495, 37009], [1029, 1543, 2057]] '
                          "|| io=[('open', ('image-file',), {'mode': 'rb'}), 'enter', ('seek', (20,), {}), "
                          "('read', (280,), {}), 'exit']",
 "read rpc='1B' [all]": 'ndarray[<u2(5, 3)][[5141, 5655, 6169], [20561, 21075, 21589], [35981, 36495, '
                        "37009], [51401, 51915, 52429], [1029, 1543, 2057]] || io=[('open', ('image-file',), "
                        "{'mode': 'rb'}), 'enter', ('seek', (20,), {}), ('read', (40,), {}), ('seek', (80,), "
                        "{}), ('read', (40,), {}), ('seek', (140,), {}), ('read', (40,), {}), ('seek', "
                        "(200,), {}), ('read', (40,), {}), ('seek', (260,), {}), ('read', (40,), {}), "
                        "'exit']",
 "read rpc='1B' [3]": "ndarray[<u2(3,)][51401, 51915, 52429] || io=[('open', ('image-file',), {'mode': "
                      "'rb'}), 'enter', ('seek', (200,), {}), ('read', (40,), {}), 'exit']",
 "read rpc='1B' [[4,0]]": "ndarray[<u2(2, 3)][[1029, 1543, 2057], [5141, 5655, 6169]] || io=[('open', "
                          "('image-file',), {'mode': 'rb'}), 'enter', ('seek', (260,), {}), ('read', (40,), "
                          "{}), ('seek', (20,), {}), ('read', (40,), {}), 'exit']",
 "read rpc='1B' [::2]": 'ndarray[<u2(3, 3)][[5141, 5655, 6169], [35981, 36495, 37009], [1029, 1543, 2057]] '
                        "|| io=[('open', ('image-file',), {'mode': 'rb'}), 'enter', ('seek', (20,), {}), "
                        "('read', (40,), {}), ('seek', (140,), {}), ('read', (40,), {}), ('seek', (260,), "
                        "{}), ('read', (40,), {}), 'exit']",
 "read rpc='80B' [all]": 'ndarray[<u2(5, 3)][[5141, 5655, 6169], [20561, 21075, 21589], [35981, 36495, '
                         "37009], [51401, 51915, 52429], [1029, 1543, 2057]] || io=[('open', "
                         "('image-file',), {'mode': 'rb'}), 'enter', ('seek', (20,), {}), ('read', (100,), "
                         "{}), ('seek', (140,), {}), ('read', (100,), {}), ('seek', (260,), {}), ('read', "
                         "(40,), {}), 'exit']",
 "read rpc='80B' [3]": "ndarray[<u2(3,)][51401, 51915, 52429] || io=[('open', ('image-file',), {'mode': "
                       "'rb'}), 'enter', ('seek', (140,), {}), ('read', (100,), {}), 'exit']",
 "read rpc='80B' [[4,0]]": "ndarray[<u2(2, 3)][[1029, 1543, 2057], [5141, 5655, 6169]] || io=[('open', "
                           "('image-file',), {'mode': 'rb'}), 'enter', ('seek', (260,), {}), ('read', (40,), "
                           "{}), ('seek', (20,), {}), ('read', (100,), {}), 'exit']",
 "read rpc='80B' [::2]": 'ndarray[<u2(3, 3)][[5141, 5655, 6169], [35981, 36495, 37009], [1029, 1543, 2057]] '
                         "|| io=[('open', ('image-file',), {'mode': 'rb'}), 'enter', ('seek', (20,), {}), "
                         "('read', (100,), {}), ('seek', (140,), {}), ('read', (100,), {}), ('seek', (260,), "
                         "{}), ('read', (40,), {}), 'exit']",
 "read rpc='100 B' [all]": 'ndarray[<u2(5, 3)][[5141, 5655, 6169], [20561, 21075, 21589], [35981, 36495, '
                           "37009], [51401, 51915, 52429], [1029, 1543, 2057]] || io=[('open', "
                           "('image-file',), {'mode': 'rb'}), 'enter', ('seek', (20,), {}), ('read', (100,), "
                           "{}), ('seek', (140,), {}), ('read', (100,), {}), ('seek', (260,), {}), ('read', "
                           "(40,), {}), 'exit']",
 "read rpc='100 B' [3]": "ndarray[<u2(3,)][51401, 51915, 52429] || io=[('open', ('image-file',), {'mode': "
                         "'rb'}), 'enter', ('seek', (140,), {}), ('read', (100,), {}), 'exit']",
 "read rpc='100 B' [[4,0]]": "ndarray[<u2(2, 3)][[1029, 1543, 2057], [5141, 5655, 6169]] || io=[('open', "
                             "('image-file',), {'mode': 'rb'}), 'enter', ('seek', (260,), {}), ('read', "
                             "(40,), {}), ('seek', (20,), {}), ('read', (100,), {}), 'exit']",
 "read rpc='100 B' [::2]": 'ndarray[<u2(3, 3)][[5141, 5655, 6169], [35981, 36495, 37009], [1029, 1543, '
                           "2057]] || io=[('open', ('image-file',), {'mode': 'rb'}), 'enter', ('seek', "
                           "(20,), {}), ('read', (100,), {}), ('seek', (140,), {}), ('read', (100,), {}), "
                           "('seek', (260,), {}), ('read', (40,), {}), 'exit']",
 "read rpc='1kB' [all]": 'ndarray[<u2(5, 3)][[5141, 5655, 6169], [20561, 21075, 21589], [35981, 36495, '
                         "37009], [51401, 51915, 52429], [1029, 1543, 2057]] || io=[('open', "
                         "('image-file',), {'mode': 'rb'}), 'enter', ('seek', (20,), {}), ('read', (280,), "
                         "{}), 'exit']",
 "read rpc='1kB' [3]": "ndarray[<u2(3,)][51401, 51915, 52429] || io=[('open', ('image-file',), {'mode': "
                       "'rb'}), 'enter', ('seek', (20,), {}), ('read', (280,), {}), 'exit']",
 "read rpc='1kB' [[4,0]]": "ndarray[<u2(2, 3)][[1029, 1543, 2057], [5141, 5655, 6169]] || io=[('open', "
                           "('image-file',), {'mode': 'rb'}), 'enter', ('seek', (20,), {}), ('read', (280,), "
                           "{}), 'exit']",
 "read rpc='1kB' [::2]": 'ndarray[<u2(3, 3)][[5141, 5655, 6169], [35981, 36495, 37009], [1029, 1543, 2057]] '
                         "|| io=[('open', ('image-file',), {'mode': 'rb'}), 'enter', ('seek', (20,), {}), "
                         "('read', (280,), {}), 'exit']",
 'eq None 1024': 'bool:False',
 'replace None': '{\'records_per_chunk\': \'int:4\', \'chunk_offsets\': "dict{int:0: dict{str:\'offset\': '
                 'int:20, str:\'size\': int:220}}", \'chunks\': \'tuple(int:4, int:20)\', \'ndim\': '
                 '\'int:2\', \'repr\': "Array(url=\'image-file\', shape=(4, 20), dtype=\'uint16\', '
                 'records_per_chunk=4)", \'fields\': "list(str:\'fs\', str:\'url\', str:\'byte_ranges\', '
                 "str:'shape', str:'dtype', str:'type_code', str:'records_per_chunk', "
                 'str:\'chunk_offsets\')", \'byte_ranges is\': True} equal=False',
 'eq 2 np.int64(2)': 'bool:True',
 'replace 2': '{\'records_per_chunk\': \'int:2\', \'chunk_offsets\': "dict{int:0: dict{str:\'offset\': '
              "int:20, str:'size': int:100}, int:1: dict{str:'offset': int:140, str:'size': "
              'int:100}}", \'chunks\': \'tuple(int:2, int:20)\', \'ndim\': \'int:2\', \'repr\': '
              '"Array(url=\'image-file\', shape=(4, 20), dtype=\'uint16\', records_per_chunk=2)", '
              '\'fields\': "list(str:\'fs\', str:\'url\', str:\'byte_ranges\', str:\'shape\', str:\'dtype\', '
              'str:\'type_code\', str:\'records_per_chunk\', str:\'chunk_offsets\')", \'byte_ranges is\': '
              'True} equal=True',
 "eq '80B' 2": 'bool:True',
 "replace '80B'": '{\'records_per_chunk\': \'int64(2)\', \'chunk_offsets\': "dict{int:0: '
                  "dict{str:'offset': int:20, str:'size': int:100}, int:1: dict{str:'offset': int:140, "
                  'str:\'size\': int:100}}", \'chunks\': \'tuple(int64(2), int:20)\', \'ndim\': \'int:2\', '
                  '\'repr\': "Array(url=\'image-file\', shape=(4, 20), dtype=\'uint16\', '
                  'records_per_chunk=np.int64(2))", \'fields\': "list(str:\'fs\', str:\'url\', '
                  "str:'byte_ranges', str:'shape', str:'dtype', str:'type_code', str:'records_per_chunk', "
                  'str:\'chunk_offsets\')", \'byte_ranges is\': True} equal=True',
 'eq -1 4': 'bool:True',
 'replace -1': '{\'records_per_chunk\': \'int:4\', \'chunk_offsets\': "dict{int:0: dict{str:\'offset\': '
               'int:20, str:\'size\': int:220}}", \'chunks\': \'tuple(int:4, int:20)\', \'ndim\': \'int:2\', '
               '\'repr\': "Array(url=\'image-file\', shape=(4, 20), dtype=\'uint16\', records_per_chunk=4)", '
               '\'fields\': "list(str:\'fs\', str:\'url\', str:\'byte_ranges\', str:\'shape\', '
               'str:\'dtype\', str:\'type_code\', str:\'records_per_chunk\', str:\'chunk_offsets\')", '
               "'byte_ranges is': True} equal=True",
 "eq 'auto' 4": 'bool:True',
 "replace 'auto'": '{\'records_per_chunk\': \'int64(4)\', \'chunk_offsets\': "dict{int:0: '
                   'dict{str:\'offset\': int:20, str:\'size\': int:220}}", \'chunks\': \'tuple(int64(4), '
                   'int:20)\', \'ndim\': \'int:2\', \'repr\': "Array(url=\'image-file\', shape=(4, 20), '
                   'dtype=\'uint16\', records_per_chunk=np.int64(4))", \'fields\': "list(str:\'fs\', '
                   "str:'url', str:'byte_ranges', str:'shape', str:'dtype', str:'type_code', "
                   'str:\'records_per_chunk\', str:\'chunk_offsets\')", \'byte_ranges is\': True} equal=True',
 'eq 2 3': 'bool:False',
 'positional': '{\'records_per_chunk\': \'int64(2)\', \'chunk_offsets\': "dict{int:0: dict{str:\'offset\': '
               "int:20, str:'size': int:100}, int:1: dict{str:'offset': int:140, str:'size': "
               'int:100}}", \'chunks\': \'tuple(int64(2), int:20)\', \'ndim\': \'int:2\', \'repr\': '
               '"Array(url=\'image-file\', shape=(4, 20), dtype=\'uint16\', records_per_chunk=np.int64(2))", '
               '\'fields\': "list(str:\'fs\', str:\'url\', str:\'byte_ranges\', str:\'shape\', '
               'str:\'dtype\', str:\'type_code\', str:\'records_per_chunk\', str:\'chunk_offsets\')", '
               "'byte_ranges is': True}"}


def compare(actual, expected):
    problems = []
    for key in expected.keys() - actual.keys():
        problems.append(f"missing case: {key}")
    for key in actual.keys() - expected.keys():
        problems.append(f"unexpected case: {key}")
    for key in actual.keys() & expected.keys():
        if actual[key] != expected[key]:
            problems.append(f"{key}:\n  expected {expected[key]}\n  actual   {actual[key]}")
    return sorted(problems)


def test_equivalence():
    problems = compare(collect(), EXPECTED)
    assert not problems, "\n".join(problems)


if __name__ == "__main__":
    if "--record" in sys.argv:
        pprint.pprint(collect(), width=110, sort_dicts=False)
        sys.exit(0)

    problems = compare(collect(), EXPECTED)
    for problem in problems:
        print(problem)
    print(f"{len(EXPECTED)} recorded cases, {len(problems)} mismatches")
    sys.exit(1 if problems else 0)
