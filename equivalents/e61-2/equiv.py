"""equivalence check for refactoring 2: ceos_alos2/sar_image/__init__.py
(filename_to_groupname, open_image)

run as

    cd /tmp/wt8/e61 && PYTHONPATH=/tmp/wt8/e61 /venv/bin/python _eq/2/equiv.py

`filename_to_groupname` is called on valid and invalid file names (and on replaced
decoder results). `open_image` is called on synthetic image files that live in a
memory file system which records every request (open / read / seek / close / isfile
/ cat ...): with and without cache, with local and remote caches, corrupt caches,
missing and broken files, all kinds of `records_per_chunk`. The local cache
directory is redirected to a temporary directory. Every case describes the outcome
(returned hierarchy with the types of all containers, or type and message of the
exception, the recorded requests and the files in the local cache); the
descriptions are compared with the ones recorded from the unchanged code
(`EXPECTED`, at the bottom; long descriptions are stored as sha256).
"""
import datetime as _dt
import hashlib
import pprint
import sys
import types as _types

import numpy as np

from ceos_alos2.array import Array
from ceos_alos2.hierarchy import Group, Variable


# --------------------------------------------------------------------------
# harness: describe results (values *and* types) in a deterministic way, record
# them with `--record`, compare them with the recorded ones otherwise
# --------------------------------------------------------------------------
def describe(obj):
    """deterministic, type-aware description of a result"""
    if isinstance(obj, Group):
        return "Group(path={}, url={}, attrs={}, data={})".format(
            describe(obj.path), describe(obj.url), describe(obj.attrs), describe(obj.data)
        )
    if isinstance(obj, Variable):
        return "Variable(dims={}, data={}, attrs={})".format(
            describe(obj.dims), describe(obj.data), describe(obj.attrs)
        )
    if isinstance(obj, Array):
        return "Array({})".format(
            ", ".join(
                "{}={}".format(name, describe(getattr(obj, name)))
                for name in [
                    "url",
                    "byte_ranges",
                    "shape",
                    "dtype",
                    "type_code",
                    "records_per_chunk",
                    "chunk_offsets",
                ]
            )
        )
    if isinstance(obj, np.ndarray):
        return "ndarray(dtype={}, shape={}, data={})".format(
            obj.dtype, obj.shape, describe(obj.astype(str).tolist())
        )
    if isinstance(obj, dict):
        return "{}{{{}}}".format(
            type(obj).__name__,
            ", ".join("{}: {}".format(describe(k), describe(v)) for k, v in obj.items()),
        )
    if isinstance(obj, (list, tuple)):
        return "{}[{}]".format(type(obj).__name__, ", ".join(describe(v) for v in obj))
    if isinstance(obj, (set, frozenset)):
        return "{}[{}]".format(type(obj).__name__, ", ".join(sorted(describe(v) for v in obj)))
    if isinstance(obj, float) and obj != obj:
        return "float:nan"
    if isinstance(obj, (_dt.datetime, _dt.date)):
        return "{}:{}".format(type(obj).__name__, obj.isoformat())
    if obj is None or isinstance(obj, (bool, int, float, complex, str, bytes, np.generic)):
        return "{}:{!r}".format(type(obj).__name__, obj)
    if isinstance(obj, _types.GeneratorType) or type(obj).__name__.endswith("iterator"):
        # no addresses
        return "<{}>".format(type(obj).__name__)
    if hasattr(obj, "__dict__"):
        return "{}<{}>".format(type(obj).__name__, describe(vars(obj)))
    return "{}:{!r}".format(type(obj).__name__, obj)


def outcome(thunk):
    try:
        result = thunk()
    except Exception as e:  # noqa: BLE001
        return "raised {}: {}".format(type(e).__name__, e)
    return "returned " + describe(result)


def compact(text):
    if len(text) <= 200:
        return text
    return "sha256:{} (len {})".format(hashlib.sha256(text.encode()).hexdigest(), len(text))


CASES = {}


def case(name):
    def register(thunk):
        assert name not in CASES, name
        CASES[name] = thunk
        return thunk

    return register


def main(expected):
    import ceos_alos2

    print("using", ceos_alos2.__file__)
    if "--show" in sys.argv:
        # full descriptions of the cases whose names contain the given text
        pattern = sys.argv[sys.argv.index("--show") + 1]
        for name, thunk in CASES.items():
            if pattern in name:
                print("{}\n    {}".format(name, outcome(thunk)))
        return 0

    actual = {name: compact(outcome(thunk)) for name, thunk in CASES.items()}
    if "--record" in sys.argv:
        print("EXPECTED = \\")
        pprint.pprint(actual, width=100, sort_dicts=False)
        return 0

    failures = []
    for name, value in actual.items():
        if name not in expected:
            failures.append((name, "<not recorded>", value))
        elif expected[name] != value:
            failures.append((name, expected[name], value))
    for name in expected:
        if name not in actual:
            failures.append((name, expected[name], "<missing>"))

    for name, want, got in failures:
        print("MISMATCH {}\n   recorded: {}\n   actual:   {}".format(name, want, got))
    print("{} cases, {} mismatches".format(len(actual), len(failures)))
    return 1 if failures else 0

import struct


# --------------------------------------------------------------------------
# synthetic CEOS bytes
# --------------------------------------------------------------------------
def preamble(seq, record_type, length):
    return struct.pack(">IBBBBI", seq, 50, record_type, 18, 20, length)


def processed_record(seq, line, n_data_bytes, *, scan_id=0, doy=10, fill=None, length=None):
    """record type 11 (level 1.1 / 1.5): 192 bytes of prefix + pixel data"""
    length = 192 + n_data_bytes if length is None else length
    prefix = b"".join(
        [
            preamble(seq, 11, length),
            struct.pack(">6I", line, 1, 0, n_data_bytes // 2, 0, 1),
            struct.pack(">3I", 2020, doy, 45_462_451 + line),
            struct.pack(">4H", 2, 0, 0, 1),
            struct.pack(">2I", 2_100_000 + line, scan_id),
            struct.pack(">3I", 700_000, 720_000 + line, 740_000),
            struct.pack(">3I", 1000, 2000, 3000 + line),
            struct.pack(">3I", 11, 12, 13),
            struct.pack(">2I", 30_000_000, 1_000_000),
            b"\x00" * 20,
            struct.pack(">I", 1),
            struct.pack(">6I", 35_000_000, 35_100_000, 35_200_000 + line, 139_000_000, 1, 2),
            struct.pack(">I", 4_000_000),
            b"\x00" * 4,
            struct.pack(">2I", 4_100_000, 500_000),
            b"ab\x00\x00",
            struct.pack(">2I", 600_000, 190_000_000),
            b"\x00" * 8,
        ]
    )
    assert len(prefix) == 192, len(prefix)
    data = bytes((fill if fill is not None else (seq + i) % 251) for i in range(n_data_bytes))
    return prefix + data


def signal_record(seq, line, n_data_bytes, *, scan_id=3, channel_id=1, frame=710):
    """record type 10 (level 1.0 / 1.1 signal data): 544 bytes of prefix + data"""
    length = 544 + n_data_bytes
    prefix = b"".join(
        [
            preamble(seq, 10, length),
            struct.pack(">6I", line, 1, 2, n_data_bytes // 8, 3, 0),
            struct.pack(">3I", 2019, 283, 12_345_678 + line),
            struct.pack(">4H", channel_id, 0, 1, 0),
            struct.pack(">2I", 1_500_000, scan_id),
            struct.pack(">2H", 1, 0),
            struct.pack(">4I", 30_000, 0, 1, 2),
            struct.pack(">Q", 12_345_678_901 + line),
            struct.pack(">2I", 40, 0),
            struct.pack(">4I", 1, 2, 3, 4),
            struct.pack(">3I", 800_000, 5_000, 0),
            struct.pack(">5I", 1, 34_500_000, 135_250_000, 628_000, 700_000),
            struct.pack(">6I", 1, 2, 3, 4, 5, 6),
            struct.pack(">2I", 190_000_000, 191_000_000),
            struct.pack(">3I", 7, 8, 9),
            struct.pack(">6I", 10, 11, 12, 13, 14, 15 + line),
            struct.pack(">2I", 2, 17 + line),
            b"\x00" * 60,
            struct.pack(">I", frame),
            b"aux" + b"\x00" * 253,
        ]
    )
    assert len(prefix) == 544, len(prefix)
    return prefix + bytes((seq * 3 + i) % 256 for i in range(n_data_bytes))


def _fill(subcon, values, prefix=()):
    from construct import Renamed, Struct

    name = subcon.name
    inner = subcon.subcon if isinstance(subcon, Renamed) else subcon
    if name == "preamble":
        return preamble(1, 192, 720)
    if isinstance(inner, Struct):
        return b"".join(_fill(sub, values, prefix + (name,)) for sub in inner.subcons)
    width = inner.sizeof()
    value = values.get(".".join(prefix + (name,)), values.get(name, ""))
    text = str(value)
    assert len(text) <= width, (name, text, width)
    if isinstance(value, int):
        return text.rjust(width).encode("ascii")
    return text.ljust(width).encode("ascii")


def file_descriptor(n_records, record_length, n_lines=None, n_pixels=4, type_code="IU2", **extra):
    """720 bytes of file descriptor; `extra` overrides fields by name"""
    from ceos_alos2.sar_image.file_descriptor import file_descriptor_record

    values = {
        "ascii_ebcdic_flag": "A",
        "format_control_document_id": "CEOS-SAR",
        "file_number": 2,
        "file_id": "IMOP",
        "number_of_sar_data_records": n_records,
        "sar_data_record_length": record_length,
        "number_of_lines_per_dataset": n_records if n_lines is None else n_lines,
        "number_of_data_groups_per_line": n_pixels,
        "interleaving_id": "BSQ",
        "sar_data_format_type_code": type_code,
        "sar_data_format_type_indicator": "UNSIGNED INTEGER*2",
    }
    values.update(extra)
    content = b"".join(_fill(sub, values) for sub in file_descriptor_record.subcons)
    assert len(content) == 720, len(content)
    return content


def image_file(kind, n_records, n_data_bytes, **descriptor):
    make = {"processed": processed_record, "signal": signal_record}[kind]
    prefix = {"processed": 192, "signal": 544}[kind]
    records = [make(index + 1, index + 1, n_data_bytes) for index in range(n_records)]
    header = file_descriptor(n_records, prefix + n_data_bytes, **descriptor)
    return header + b"".join(records)


class LoggingFile:
    """file-like object that records the requests it receives"""

    def __init__(self, content, log=None, coerce=False):
        import io as _io

        self._f = _io.BytesIO(content)
        self.log = [] if log is None else log
        self.coerce = coerce

    def read(self, size=-1):
        self.log.append(("read", size, self._f.tell()))
        if self.coerce:
            # fsspec's buffered files accept anything `int` accepts
            size = -1 if size is None else int(size)
        return self._f.read(size)

    def seek(self, offset, whence=0):
        self.log.append(("seek", offset, whence))
        return self._f.seek(offset, whence)

    def tell(self):
        return self._f.tell()

    def close(self):
        self.log.append(("close",))

    def __enter__(self):
        return self

    def __exit__(self, *args):
        self.close()

import itertools  # noqa: E402
import json  # noqa: E402
import pathlib  # noqa: E402
import shutil  # noqa: E402
import tempfile  # noqa: E402

import fsspec  # noqa: E402
from fsspec.implementations.memory import MemoryFileSystem  # noqa: E402
from tlz.functoolz import curry  # noqa: E402

from ceos_alos2 import sar_image  # noqa: E402
from ceos_alos2.sar_image import caching  # noqa: E402
from ceos_alos2.sar_image.caching import path as cache_path  # noqa: E402


# --------------------------------------------------------------------------
# filename_to_groupname
# --------------------------------------------------------------------------
_filenames = [
    "IMG-HH-ALOS2225333100-180726-WWDR1.1__D-B3",
    "IMG-HV-ALOS2290760600-191011-WWDR1.5RUA",
    "IMG-VV-ALOS2290760600-191011-WWDR1.5RUA-F1",
    "IMG-VH-ALOS2290760600-191011-FBDR1.1__A-B0",
    "IMG-ALOS2290760600-191011-WWDR1.5RUA",
    "IMG-ALOS2290760600-191011-WWDR1.5RUA-F9",
    "LED-ALOS2290760600-191011-WWDR1.5RUA",
    "VOL-HH-ALOS2290760600-191011-WWDR1.5RUA-B5",
    "IMG-HH-ALOS2290760600-191011-WWDR1.5RUA-B",
    "IMG-HH-ALOS2290760600-191011-WWDR1.5RUA-X1",
    "IMG-HX-ALOS2290760600-191011-WWDR1.5RUA",
    "IMG-HH-ALOS2290760600-191311-WWDR1.5RUA",
    "IMG-HH-ALOS2290760600-191011-WWDR2.5RUA",
    "IMG-HH-ALOS2290760600-191011-WWDR1.5RUA.index",
    "dir/IMG-HH-ALOS2290760600-191011-WWDR1.5RUA",
    "",
    "summary.txt",
]

for _fname in _filenames:

    @case(f"filename_to_groupname/{_fname!r}")
    def _(fname=_fname):
        return sar_image.filename_to_groupname(fname)


@case("filename_to_groupname/not-a-string")
def _():
    return [outcome(lambda v=v: sar_image.filename_to_groupname(v)) for v in (None, 3, b"IMG")]


@case("filename_to_groupname/replaced-decoder")
def _():
    # only the keys "polarization" and "scan_number" matter
    infos = [
        {},
        {"polarization": None},
        {"polarization": ""},
        {"polarization": "HH"},
        {"scan_number": 0},
        {"scan_number": None},
        {"scan_number": ""},
        {"polarization": None, "scan_number": 4},
        {"polarization": "", "scan_number": "x"},
        {"polarization": "VV", "scan_number": 2, "filetype": "IMG"},
        {"scan_number": 2, "polarization": "VV"},
        {"polarization": 5, "scan_number": 2},
        {"polarization": 0, "scan_number": 2.50},
    ]
    original = sar_image.decode_filename
    results = []
    try:
        for info in infos:
            sar_image.decode_filename = lambda path, info=info: info
            results.append(outcome(lambda: sar_image.filename_to_groupname("ignored")))
    finally:
        sar_image.decode_filename = original
    return results


# --------------------------------------------------------------------------
# open_image
# --------------------------------------------------------------------------
class LoggingMemoryFileSystem(MemoryFileSystem):
    """memory file system that records the requests it receives"""

    cachable = False
    logged = ("cat", "cat_file", "isfile", "exists", "info", "ls", "pipe_file", "rm", "isdir")

    def __init__(self, *args, **kwargs):
        super().__init__(*args, **kwargs)
        self.log = []

    def __getattribute__(self, name):
        value = super().__getattribute__(name)
        if name not in type(self).logged:
            return value

        def logged(*args, **kwargs):
            self.log.append((name, args, kwargs))
            return value(*args, **kwargs)

        return logged

    def _open(self, path, mode="rb", **kwargs):
        self.log.append(("open", path, mode))
        f = super()._open(path, mode=mode, **kwargs)
        if "r" not in mode:
            return f
        content = f.read()
        return LoggingFile(content, log=self.log)


_roots = itertools.count()
_scratch = pathlib.Path(tempfile.mkdtemp(prefix="eq2-cache-"))
cache_path.cache_root = _scratch / "cache"

HH = "IMG-HH-ALOS2225333100-180726-WWDR1.1__D-B3"
HV = "IMG-HV-ALOS2290760600-191011-WWDR1.5RUA"
PLAIN = "IMG-ALOS2290760600-191011-WWDR1.5RUA"


def new_mapper(files):
    fs = LoggingMemoryFileSystem()
    root = "/eq2-{}".format(next(_roots))
    for name, content in files.items():
        fs.pipe_file(root + "/" + name, content)
    fs.log.clear()
    return fsspec.FSMap(root, fs)


def local_cache_files():
    root = cache_path.cache_root
    if not root.exists():
        return {}
    return {
        p.name: hashlib.sha256(p.read_bytes()).hexdigest()
        for p in sorted(root.rglob("*"))
        if p.is_file()
    }


def clear_local_cache():
    shutil.rmtree(cache_path.cache_root, ignore_errors=True)


def requests(mapper):
    return [entry for entry in mapper.fs.log]


def opened(mapper, path, *args, read_rows=True, **kwargs):
    clear_before = kwargs.pop("clear", True)
    if clear_before:
        clear_local_cache()
    try:
        group = sar_image.open_image(mapper, path, *args, **kwargs)
    except Exception as e:  # noqa: BLE001
        return {
            "error": "{}: {}".format(type(e).__name__, e),
            "requests": requests(mapper),
            "local cache": local_cache_files(),
        }

    result = {
        "group": group,
        "name": group.name,
        "requests": requests(mapper),
        "local cache": local_cache_files(),
        "data fs": [type(group["data"].data.fs).__name__, group["data"].data.fs.path],
        "same fs": group["data"].data.fs.fs is mapper.fs,
    }
    if read_rows:
        mapper.fs.log.clear()
        result["rows"] = group["data"].data[(slice(None), slice(None))]
        result["row requests"] = requests(mapper)
    return result


_processed_5 = image_file("processed", 5, 8)
_signal_3 = image_file("signal", 3, 16, type_code="C*8", n_pixels=2)

for _rpc in (None, 1, 2, 5, 1024, -1, "auto", "1KB", "0.4 kB", 0, 2.0):

    @case(f"open_image/processed/no-cache/rpc={_rpc!r}")
    def _(rpc=_rpc):
        mapper = new_mapper({HV: _processed_5})
        return opened(mapper, HV, use_cache=False, records_per_chunk=rpc)

    @case(f"open_image/processed/cache-miss/rpc={_rpc!r}")
    def _(rpc=_rpc):
        mapper = new_mapper({HV: _processed_5})
        return opened(mapper, HV, records_per_chunk=rpc)


for _rpc in (1, 2, 1024):

    @case(f"open_image/signal/rpc={_rpc!r}")
    def _(rpc=_rpc):
        mapper = new_mapper({HH: _signal_3})
        return opened(mapper, HH, use_cache=False, records_per_chunk=rpc)

    @case(f"open_image/signal/create-cache/rpc={_rpc!r}")
    def _(rpc=_rpc):
        mapper = new_mapper({HH: _signal_3})
        first = opened(mapper, HH, create_cache=True, records_per_chunk=rpc)
        content = [json.loads(p.read_text()) for p in sorted(cache_path.cache_root.rglob("*.index"))]
        mapper.fs.log.clear()
        second = opened(mapper, HH, records_per_chunk=rpc, clear=False, read_rows=False)
        return [first, content, second]


@case("open_image/defaults")
def _():
    mapper = new_mapper({HV: _processed_5})
    return opened(mapper, HV)


@case("open_image/no-polarization-in-name")
def _():
    mapper = new_mapper({PLAIN: _processed_5})
    return opened(mapper, PLAIN, records_per_chunk=3, use_cache=False)


@case("open_image/flags-are-keyword-only")
def _():
    mapper = new_mapper({HV: _processed_5})
    return [
        opened(mapper, HV, False),
        opened(mapper, HV, False, True, 2),
        outcome(lambda: sar_image.open_image(mapper)),
        outcome(lambda: sar_image.open_image(mapper, HV, cache=True)),
        outcome(lambda: sar_image.open_image(mapper=mapper, path=HV, records_per_chunk=2).name),
    ]


@case("open_image/truthy-flags")
def _():
    results = []
    for use_cache, create_cache in [(0, 0), (1, 0), ("", "yes"), ([], [0]), (None, None)]:
        mapper = new_mapper({HV: _processed_5})
        results.append(
            opened(
                mapper,
                HV,
                use_cache=use_cache,
                create_cache=create_cache,
                records_per_chunk=2,
                read_rows=False,
            )
        )
    return results


@case("open_image/through-curry")
def _():
    mapper = new_mapper({HV: _processed_5, HH: _signal_3})
    clear_local_cache()
    opener = curry(
        sar_image.open_image, mapper, records_per_chunk=2, create_cache=False, use_cache=False
    )
    return [list(map(opener, [HV, HH])), requests(mapper)]


@case("open_image/create-cache/then-read-it")
def _():
    mapper = new_mapper({HV: _processed_5})
    first = opened(mapper, HV, use_cache=False, create_cache=True, records_per_chunk=2)
    mapper.fs.log.clear()
    # the data file is not needed any more
    mapper.fs.rm(mapper.root + "/" + HV)
    mapper.fs.log.clear()
    second = opened(mapper, HV, records_per_chunk=4, clear=False, read_rows=False)
    third = opened(mapper, HV, use_cache=False, records_per_chunk=4, clear=False, read_rows=False)
    return [first, second, third]


@case("open_image/create-cache/existing-cache-wins")
def _():
    mapper = new_mapper({HV: _processed_5})
    first = opened(mapper, HV, create_cache=True, records_per_chunk=2, read_rows=False)
    before = local_cache_files()
    mapper.fs.log.clear()
    # served from the cache, which is not rewritten
    second = opened(mapper, HV, create_cache=True, records_per_chunk=1, clear=False, read_rows=False)
    return [first, second, before == local_cache_files()]


def _cache_text(path, content, rpc=2):
    mapper = new_mapper({path: content})
    clear_local_cache()
    sar_image.open_image(mapper, path, use_cache=False, create_cache=True, records_per_chunk=rpc)
    (cache_file,) = list(cache_path.cache_root.rglob("*.index"))
    text = cache_file.read_text()
    clear_local_cache()
    return text


@case("open_image/remote-cache")
def _():
    text = _cache_text(HV, _processed_5)
    mapper = new_mapper({HV: _processed_5, HV + ".index": text.encode()})
    return [
        opened(mapper, HV, records_per_chunk=3, read_rows=False),
        opened(mapper, HV, records_per_chunk=3, use_cache=False, read_rows=False),
    ]


@case("open_image/remote-cache/local-one-wins")
def _():
    text = _cache_text(HV, _processed_5)
    other = _cache_text(HV, image_file("processed", 2, 8))
    mapper = new_mapper({HV: _processed_5, HV + ".index": text.encode()})
    clear_local_cache()
    local = caching.path.local_cache_location(mapper.root, HV)
    local.parent.mkdir(parents=True)
    local.write_text(other)
    return opened(mapper, HV, records_per_chunk=3, clear=False, read_rows=False)


for _name, _text in {
    "empty": "",
    "truncated": '{"__type__": "group", "url": null, "da',
    "not-json": "<html></html>",
    "nan": "NaN",
}.items():

    @case(f"open_image/corrupt-remote-cache/{_name}")
    def _(text=_text):
        # CachingError: falls back to reading the file
        mapper = new_mapper({HV: _processed_5, HV + ".index": text.encode()})
        return opened(mapper, HV, records_per_chunk=2, read_rows=False)

    @case(f"open_image/corrupt-local-cache/{_name}")
    def _(text=_text):
        mapper = new_mapper({HV: _processed_5})
        clear_local_cache()
        local = caching.path.local_cache_location(mapper.root, HV)
        local.parent.mkdir(parents=True)
        local.write_text(text)
        return [
            opened(mapper, HV, records_per_chunk=2, clear=False, read_rows=False),
            # ... and replaces the cache if asked to
            opened(mapper, HV, records_per_chunk=2, clear=False, read_rows=False, create_cache=True),
        ]


for _name, _text in {
    "list": "[1, 2]",
    "number": "12",
    "other-object": '{"a": 1}',
    "group-without-data": '{"__type__": "group", "url": null, "path": "/"}',
    "not-utf8": b"\xff\xfe{}",
}.items():

    @case(f"open_image/unexpected-remote-cache/{_name}")
    def _(text=_text):
        # anything but CachingError is not caught
        content = text if isinstance(text, bytes) else text.encode()
        mapper = new_mapper({HV: _processed_5, HV + ".index": content})
        return opened(mapper, HV, records_per_chunk=2, read_rows=False)


@case("open_image/missing-file")
def _():
    mapper = new_mapper({HV: _processed_5})
    return [
        opened(mapper, HH, records_per_chunk=2),
        opened(mapper, HH, records_per_chunk=2, use_cache=False, create_cache=True),
    ]


@case("open_image/invalid-name")
def _():
    # the name is only looked at after the file was read
    mapper = new_mapper({"image.bin": _processed_5, "IMG-HH": _processed_5})
    return [
        opened(mapper, "image.bin", records_per_chunk=2, create_cache=True),
        opened(mapper, "IMG-HH", records_per_chunk=2, use_cache=False),
    ]


@case("open_image/unknown-type-code")
def _():
    mapper = new_mapper({HV: image_file("processed", 2, 8, type_code="F*4")})
    return opened(mapper, HV, records_per_chunk=2, create_cache=True)


@case("open_image/broken-file")
def _():
    mapper = new_mapper(
        {
            HV: _processed_5[:-3],
            HH: _processed_5[:700],
            PLAIN: b"",
        }
    )
    return [
        opened(mapper, HV, records_per_chunk=2, create_cache=True),
        opened(mapper, HV, records_per_chunk=5, create_cache=True),
        opened(mapper, HH, records_per_chunk=2),
        opened(mapper, PLAIN, records_per_chunk=2),
    ]


@case("open_image/nested-path")
def _():
    mapper = new_mapper({"sub/" + HV: _processed_5})
    return opened(mapper, "sub/" + HV, records_per_chunk=2, create_cache=True)


@case("open_image/collaborators-are-looked-up-at-call-time")
def _():
    calls = []
    names = ["read_metadata", "transform_metadata", "filename_to_groupname"]
    originals = {name: getattr(sar_image, name) for name in names}
    cache_originals = {name: getattr(caching, name) for name in ["read_cache", "create_cache"]}

    def spy(name, function):
        def wrapper(*args, **kwargs):
            calls.append(
                (name, [type(a).__name__ for a in args], {k: describe(v) for k, v in kwargs.items()})
            )
            return function(*args, **kwargs)

        return wrapper

    for name, function in originals.items():
        setattr(sar_image, name, spy(name, function))
    for name, function in cache_originals.items():
        setattr(caching, name, spy("caching." + name, function))
    try:
        mapper = new_mapper({HV: _processed_5})
        result = opened(mapper, HV, records_per_chunk=2, create_cache=True, read_rows=False)
    finally:
        for name, function in originals.items():
            setattr(sar_image, name, function)
        for name, function in cache_originals.items():
            setattr(caching, name, function)
    return [calls, result["name"], result["requests"]]


@case("open_image/replaced-error-class")
def _():
    # `CachingError` is the name in `ceos_alos2.sar_image`
    class Other(Exception):
        pass

    def read_cache(mapper, path, records_per_chunk):
        raise Other("from the replaced reader")

    originals = (sar_image.CachingError, caching.read_cache)
    mapper = new_mapper({HV: _processed_5})
    results = [opened(mapper, HV, records_per_chunk=2, read_rows=False)["name"]]
    caching.read_cache = read_cache
    try:
        results.append(opened(mapper, HV, records_per_chunk=2, read_rows=False))
        sar_image.CachingError = Other
        results.append(opened(mapper, HV, records_per_chunk=2, read_rows=False)["name"])
    finally:
        sar_image.CachingError, caching.read_cache = originals
    return results


@case("module/public-names")
def _():
    names = [
        "Array",
        "decode_filename",
        "Variable",
        "caching",
        "CachingError",
        "read_metadata",
        "transform_metadata",
        "filename_to_groupname",
        "open_image",
    ]
    return {name: hasattr(sar_image, name) for name in names}


@case("module/signature")
def _():
    import inspect

    return [
        str(inspect.signature(sar_image.open_image)),
        str(inspect.signature(sar_image.filename_to_groupname)),
    ]


import atexit  # noqa: E402

atexit.register(shutil.rmtree, _scratch, ignore_errors=True)


# --------------------------------------------------------------------------
# recorded from the unchanged code (git HEAD) with `python equiv.py --record`
# --------------------------------------------------------------------------
EXPECTED = \
{"filename_to_groupname/'IMG-HH-ALOS2225333100-180726-WWDR1.1__D-B3'": "returned str:'HH_scan3'",
 "filename_to_groupname/'IMG-HV-ALOS2290760600-191011-WWDR1.5RUA'": "returned str:'HV'",
 "filename_to_groupname/'IMG-VV-ALOS2290760600-191011-WWDR1.5RUA-F1'": "returned str:'VV_scan1'",
 "filename_to_groupname/'IMG-VH-ALOS2290760600-191011-FBDR1.1__A-B0'": "returned str:'VH_scan0'",
 "filename_to_groupname/'IMG-ALOS2290760600-191011-WWDR1.5RUA'": "returned str:''",
 "filename_to_groupname/'IMG-ALOS2290760600-191011-WWDR1.5RUA-F9'": "returned str:'scan9'",
 "filename_to_groupname/'LED-ALOS2290760600-191011-WWDR1.5RUA'": "returned str:''",
 "filename_to_groupname/'VOL-HH-ALOS2290760600-191011-WWDR1.5RUA-B5'": "returned str:'HH_scan5'",
 "filename_to_groupname/'IMG-HH-ALOS2290760600-191011-WWDR1.5RUA-B'": 'raised ValueError: invalid '
                                                                      'file name: '
                                                                      'IMG-HH-ALOS2290760600-191011-WWDR1.5RUA-B',
 "filename_to_groupname/'IMG-HH-ALOS2290760600-191011-WWDR1.5RUA-X1'": 'raised ValueError: invalid '
                                                                       'file name: '
                                                                       'IMG-HH-ALOS2290760600-191011-WWDR1.5RUA-X1',
 "filename_to_groupname/'IMG-HX-ALOS2290760600-191011-WWDR1.5RUA'": 'raised ValueError: invalid '
                                                                    'file name: '
                                                                    'IMG-HX-ALOS2290760600-191011-WWDR1.5RUA',
 "filename_to_groupname/'IMG-HH-ALOS2290760600-191311-WWDR1.5RUA'": 'raised ValueError: invalid '
                                                                    'scene id: '
                                                                    'ALOS2290760600-191311',
 "filename_to_groupname/'IMG-HH-ALOS2290760600-191011-WWDR2.5RUA'": 'raised ValueError: invalid '
                                                                    'product id: WWDR2.5RUA',
 "filename_to_groupname/'IMG-HH-ALOS2290760600-191011-WWDR1.5RUA.index'": 'raised ValueError: '
                                                                          'invalid file name: '
                                                                          'IMG-HH-ALOS2290760600-191011-WWDR1.5RUA.index',
 "filename_to_groupname/'dir/IMG-HH-ALOS2290760600-191011-WWDR1.5RUA'": 'raised ValueError: '
                                                                        'invalid file name: '
                                                                        'dir/IMG-HH-ALOS2290760600-191011-WWDR1.5RUA',
 "filename_to_groupname/''": 'raised ValueError: invalid file name: ',
 "filename_to_groupname/'summary.txt'": 'raised ValueError: invalid file name: summary.txt',
 'filename_to_groupname/not-a-string': 'sha256:0b8eeea5fe2b55604f5a2f886f37dff204baadab6fcc1a81af35b96e8554eec0 '
                                       '(len 240)',
 'filename_to_groupname/replaced-decoder': 'sha256:51d9c8972d5c8b5c1435a07bd04c126dd2b002e2ac39cd68f268aa1b6715b89c '
                                           '(len 416)',
 'open_image/processed/no-cache/rpc=None': 'sha256:9834fb43e040f51af2961bd32092a5f766503c751ac6bab5f2ed8cd9f44c6b44 '
                                           '(len 382)',
 'open_image/processed/cache-miss/rpc=None': 'sha256:e97612e411838cb2ee41be134afc9316bb24e8231620dd5b15c95026a05c4eeb '
                                             '(len 478)',
 'open_image/processed/no-cache/rpc=1': 'sha256:bfa3f4fdbb3da3b278a5aa87175b44c80d2e9d0ee9cb42b24039d35b1de5876b '
                                        '(len 7828)',
 'open_image/processed/cache-miss/rpc=1': 'sha256:dbea9133798d75143231a8024c234f35a5d0791a44216de971aba5180df2df27 '
                                          '(len 7924)',
 'open_image/processed/no-cache/rpc=2': 'sha256:ed1d68f72f31a741a619a2b0c84a9bb37576eb65b5e11ab88537c0e2b52c1e4c '
                                        '(len 7505)',
 'open_image/processed/cache-miss/rpc=2': 'sha256:75919d437cb42fa11f1592f7989f365225448bf863724089c2916f90ca375ee6 '
                                          '(len 7601)',
 'open_image/processed/no-cache/rpc=5': 'sha256:79162845741f4408d7bc4cd9a3292f4545b1e7df2f0f67f78567cc9ac546d715 '
                                        '(len 7170)',
 'open_image/processed/cache-miss/rpc=5': 'sha256:4e86420003ba7cf2fe19804648dac63b8d2ede4208417211c656ca270d202da7 '
                                          '(len 7266)',
 'open_image/processed/no-cache/rpc=1024': 'sha256:58eaded21a62013ffe2c96870e1efd4b44015357ced8a1f51e878fa16db3ea26 '
                                           '(len 7170)',
 'open_image/processed/cache-miss/rpc=1024': 'sha256:72127b4b821f6570d7aa60b9de1163ec3bfa44e412adb411342dca2ed8a4db9a '
                                             '(len 7266)',
 'open_image/processed/no-cache/rpc=-1': 'sha256:81ffcb761b61638c7a3faf4d9e54228fbedf4073f890d0004bd02cf485e4427b '
                                         '(len 1100)',
 'open_image/processed/cache-miss/rpc=-1': 'sha256:5a573447ee7fbc3620ad7e8f9a344e7df73f9f9a3f689d1ee7b4f31f9cf7c3b7 '
                                           '(len 1197)',
 "open_image/processed/no-cache/rpc='auto'": 'sha256:f6074d7372ddf7a46ac9a0b0a10370f41b1cc43caf39550849be0dfc89c0dfd0 '
                                             '(len 379)',
 "open_image/processed/cache-miss/rpc='auto'": 'sha256:2015d6e591e18322d35dd08d7d997e670d869d0b80256bb8c24f4cb824337333 '
                                               '(len 476)',
 "open_image/processed/no-cache/rpc='1KB'": 'sha256:be8cc93bb4b17b92782ca9eb10b0ad774177434fcedde9042514de6bd6c36f44 '
                                            '(len 379)',
 "open_image/processed/cache-miss/rpc='1KB'": 'sha256:9b71b7e5eb2176965df04c3ebe85267a73d5149ba041a7776f62ad729f996c66 '
                                              '(len 476)',
 "open_image/processed/no-cache/rpc='0.4 kB'": 'sha256:89db53a2446c2ad103a45cf3cda4a72bcc9c0feaf777450b6248d51e49bff978 '
                                               '(len 379)',
 "open_image/processed/cache-miss/rpc='0.4 kB'": 'sha256:f297f4a37602dc82219765cf0eee9d6384a422ed920ba961175a75b876f42b8a '
                                                 '(len 476)',
 'open_image/processed/no-cache/rpc=0': 'sha256:c690b5f5672a61c9d7653fec611458d2e126c48c1f6b7b97d77b90139d291610 '
                                        '(len 353)',
 'open_image/processed/cache-miss/rpc=0': 'sha256:dcbc5ade05d3d495dd9bf3cd63fa2e83fdd7018f4fc8b9ebc8c8ad645f40cfa5 '
                                          '(len 450)',
 'open_image/processed/no-cache/rpc=2.0': 'sha256:368aa6820fe8cf817ef78ca48bf3539734423bfe118899bd5cb466f054fff6aa '
                                          '(len 417)',
 'open_image/processed/cache-miss/rpc=2.0': 'sha256:e570bbee72e18b7046fcee8d370bc9c426afd4a99392b982648da801680cd888 '
                                            '(len 514)',
 'open_image/signal/rpc=1': 'sha256:87bfb25ef8cd223a9ce3833ad34c386ca81d8f4b37b0c0c3e20ae97862a26468 '
                            '(len 9991)',
 'open_image/signal/create-cache/rpc=1': 'sha256:cce050abf8e2dff8bffa1c7b6aa100311499dc281b40cbce8af6329e63ef2297 '
                                         '(len 34643)',
 'open_image/signal/rpc=2': 'sha256:85937b06cac04f7048c0d9d666954083f6e7eca6662a4450f6f1352c232b4ae6 '
                            '(len 9826)',
 'open_image/signal/create-cache/rpc=2': 'sha256:10b710e4f5f9b78522b785642f2e2d3c5eb0494bf4de8f0b4d691e128e02c6ed '
                                         '(len 34422)',
 'open_image/signal/rpc=1024': 'sha256:66cbadaeb092b2902fb5db31c2fa51d96473f957acc978be753b8d3a287036a9 '
                               '(len 9660)',
 'open_image/signal/create-cache/rpc=1024': 'sha256:65ec611f03b43c2f316a0e6c576062036904991f40982c7f11932c72ebd840cf '
                                            '(len 34200)',
 'open_image/defaults': 'sha256:2f6ed994e6c31dcdb9239f2c6f5ce31eb631da8a489656389d9bd19b25eaa942 '
                        '(len 481)',
 'open_image/no-polarization-in-name': 'sha256:a538cad37e521a73bb5e490709ac2a483fcfccb55c965d915c0d4ff1f2f9b8c3 '
                                       '(len 7331)',
 'open_image/flags-are-keyword-only': 'sha256:de069c2f219e94fee782586f01149556f053055d65f9b5686f4e6975c3501438 '
                                      '(len 498)',
 'open_image/truthy-flags': 'sha256:702d1e4316051f538ef1cd417111f636b569d91acfc5e289265a35f03b0c1bb2 '
                            '(len 34021)',
 'open_image/through-curry': 'sha256:cd04d6873049bb4c3c851c425642ab76ee20eee769b647a4d290b7d879fe4c2a '
                             '(len 15547)',
 'open_image/create-cache/then-read-it': 'sha256:b8226c4edcb9231f149c23692648d6812b14437bb3b8ca6ebf22a34a4b53fa32 '
                                         '(len 15617)',
 'open_image/create-cache/existing-cache-wins': 'sha256:4d1f6d13d16700b50a76cc8a34c5295089abe03b7e0247b3644f04c67194672b '
                                                '(len 14676)',
 'open_image/remote-cache': 'sha256:ea6c7ce712aca1a1c3f714349aa8ff87e6253fd68e90cd39d86b1903da2d26e5 '
                            '(len 14642)',
 'open_image/remote-cache/local-one-wins': 'sha256:3c6a1e25ff41786f0429f418094bd2a3673db729a28c433c6308dca6604b0af2 '
                                           '(len 6368)',
 'open_image/corrupt-remote-cache/empty': 'sha256:ac3f70910309d133e933733c66be95fc8cab5f462578bbb8bf12ad361ea156fe '
                                          '(len 7030)',
 'open_image/corrupt-local-cache/empty': 'sha256:cd0ebb31bf7369cb3ec81432dd99f1c705293b71a4ff4597b43d2131cf407b82 '
                                         '(len 14073)',
 'open_image/corrupt-remote-cache/truncated': 'sha256:cfffe64c961a0b41e5aa559ee06de67521fa6b3b1e15ca7a8a4bececc6b8d2c6 '
                                              '(len 7030)',
 'open_image/corrupt-local-cache/truncated': 'sha256:472e9bf6e3dcd2fcc6fc70368277709539e32d9e5f023c0f66db7dd934263cef '
                                             '(len 14073)',
 'open_image/corrupt-remote-cache/not-json': 'sha256:0b940894c141e8f269c612e62c4b60d775f98ebf4c20061d7d4f6deb51249fdc '
                                             '(len 7030)',
 'open_image/corrupt-local-cache/not-json': 'sha256:b3455b7c72a3e3e81dae5e917d21b0bbf773315457a149c851e6769e6fa7efe7 '
                                            '(len 14073)',
 'open_image/corrupt-remote-cache/nan': 'sha256:6ea36b1455c6224c151ab0fc4fa4e6591d946e27741d50ed95d29f2129ff7204 '
                                        '(len 426)',
 'open_image/corrupt-local-cache/nan': 'sha256:4c2119ba76569b50b6c41ac2b660c45a44f8c905c56b53286e1749e7b752ba2c '
                                       '(len 521)',
 'open_image/unexpected-remote-cache/list': 'sha256:d1a4711634cf9c642c122bbf2b35fe47f2c4de18418865260dd45364033cf7b4 '
                                            '(len 425)',
 'open_image/unexpected-remote-cache/number': 'sha256:a368e6526600996bfcfa6d4c7b27e96d1ed1966a5bccb0ed76ae878f856eb017 '
                                              '(len 424)',
 'open_image/unexpected-remote-cache/other-object': "raised AttributeError: 'dict' object has no "
                                                    "attribute 'name'",
 'open_image/unexpected-remote-cache/group-without-data': 'sha256:39d32161ad614e8ecf610462b810b7bc8249df3d73a88da7f2bd97837594fd87 '
                                                          '(len 389)',
 'open_image/unexpected-remote-cache/not-utf8': 'sha256:51fb495bdb37b930435cbb721f398a110c68a03bdc0abf4edaeb21b437a8a41f '
                                                '(len 463)',
 'open_image/missing-file': 'sha256:8d3f1d0e709cfcc1311ea57e363c78b7104c46c22cef28afdb001b852ab7b524 '
                            '(len 1052)',
 'open_image/invalid-name': 'sha256:5af09d37dbcf6a738054fc6deea08cc5d3a49b4f937ea25e20dc4330e21d60da '
                            '(len 1327)',
 'open_image/unknown-type-code': 'sha256:ea956180c569d4208f47d7bc6020c7e28bd1b6361b23fac2a1be9c11758b00dc '
                                 '(len 486)',
 'open_image/broken-file': 'sha256:23ee64e6d6d761eec53cd0f4567c8d3af9d4bd9cce10a10f4f71ecfe64cb338b '
                           '(len 4611)',
 'open_image/nested-path': 'sha256:273b231df6cf369f8b7700bd7362e1661be86b2a5b60e7d3346c16a85c6da017 '
                           '(len 665)',
 'open_image/collaborators-are-looked-up-at-call-time': 'sha256:7ab3529a341cc6ba96742a75f10c636c2f96290983f928194ea45e66b6da51d6 '
                                                        '(len 877)',
 'open_image/replaced-error-class': 'sha256:1c6fe41bff37cd58316f1f11d68d3f661714d5122c294d539676ff1d31539702 '
                                    '(len 585)',
 'module/public-names': 'sha256:f0d1c304729854ccbf012eabfdc4da1f7d6af02aa5100d5275b0c4fb4c5791d7 '
                        '(len 293)',
 'module/signature': "returned list[str:'(mapper, path, *, use_cache=True, create_cache=False, "
                     "records_per_chunk=None)', str:'(path)']"}

if __name__ == "__main__":
    sys.exit(main(EXPECTED))
