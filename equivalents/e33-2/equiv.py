"""Equivalence check for refactoring 2 (ceos_alos2/hierarchy.py, class Group).

Run as
    cd /tmp/wt5/e33 && PYTHONPATH=/tmp/wt5/e33 /venv/bin/python _eq/2/equiv.py
(or through pytest). The expected values in ``expected.json`` next to this file
were recorded from the UNCHANGED code with ``EQ_RECORD=1``.
"""

import itertools
import json
import os
import pathlib
import types
import warnings

import numpy as np

from ceos_alos2.hierarchy import Group, Variable
from ceos_alos2.tests.utils import create_dummy_array

HERE = pathlib.Path(__file__).resolve().parent
EXPECTED = HERE / "expected.json"


class SubGroup(Group):
    pass


def canon(obj):
    if isinstance(obj, Group):
        members = ", ".join(f"{name!r}: {canon(item)}" for name, item in obj.data.items())
        return (
            f"{type(obj).__name__}(path={obj.path!r}, url={obj.url!r}, attrs={obj.attrs!r},"
            f" data={type(obj.data).__name__}{{{members}}})"
        )
    if isinstance(obj, Variable):
        return f"Variable(dims={obj.dims!r}, data={obj.data!r}, attrs={obj.attrs!r})"
    if isinstance(obj, dict):
        items = ", ".join(f"{k!r}: {canon(v)}" for k, v in obj.items())
        return f"{type(obj).__name__}{{{items}}}"
    if isinstance(obj, (list, tuple)):
        return f"{type(obj).__name__}[{', '.join(canon(v) for v in obj)}]"
    return f"{type(obj).__name__}({obj!r})"


def run(func, *args):
    try:
        return "OK " + canon(func(*args))
    except Exception as e:  # noqa: BLE001
        return f"EXC {type(e).__name__}: {e}"


def var(values=(1, 2), dims="x", attrs=None, dtype="int64"):
    return Variable(dims, np.array(values, dtype=dtype), attrs if attrs is not None else {})


def chain_tree(depth):
    node = Group(path=None, url=None, data={"leaf": var([depth])}, attrs={"level": depth})
    for level in reversed(range(depth)):
        node = Group(
            path=None,
            url=None,
            data={"before": var([level]), "next": node, "after": var([-level])},
            attrs={"level": level},
        )
    return node


def trees():
    backend = Variable(["rows", "cols"], create_dummy_array(shape=(4, 3)), {})
    out = {}
    out["empty"] = Group(path=None, url=None, data={}, attrs={})
    out["empty-named"] = Group(path="/a/b", url="s3://bucket", data={}, attrs={"a": 1})
    out["relative"] = Group(path="rel", url="u", data={"g": Group(None, None, {}, {})}, attrs={})
    out["flat"] = Group(path="/", url="file:///x", data={"a": var(), "b": backend}, attrs={"k": 1})
    out["only-groups"] = Group(
        path=None,
        url="u",
        data={"b": Group(None, None, {}, {"i": 2}), "a": Group(None, "other", {}, {"i": 1})},
        attrs={},
    )
    out["mixed"] = Group(
        path=None,
        url="memory://root",
        data={
            "v1": var([1]),
            "g1": Group(
                path=None,
                url=None,
                data={
                    "g1a": Group(None, None, {"x": var([2]), "deep": Group(None, None, {}, {})}, {}),
                    "w": var([3], attrs={"u": "m"}),
                    "g1b": Group("ignored", "file:///b", {"y": backend}, {"b": (1, 2)}),
                },
                attrs={"s": "t"},
            ),
            "v2": var([4.5], dtype="float32"),
            "g2": Group(None, None, {"z": var([5])}, {}),
            "g3": SubGroup(None, None, {"q": var([6]), "sub": Group(None, None, {}, {})}, {}),
        },
        attrs={"coords": ["x"]},
    )
    out["chain-6"] = chain_tree(6)
    out["chain-40"] = chain_tree(40)
    wide = {f"g{i}": Group(None, None, {f"v{i}": var([i])}, {"i": i}) for i in range(12)}
    wide["v"] = var([0])
    out["wide"] = Group(path="/top", url="u", data=wide, attrs={})
    odd = Group(path="/", url="u", data={"v": var()}, attrs={})
    odd.data["number"] = 1  # neither group nor variable
    odd.data["text"] = "abc"
    odd["g"] = Group(None, None, {"n": var([7])}, {})
    odd.data["g"].data["none"] = None
    out["odd-members"] = odd
    return out


def eq_operands():
    base = trees()
    ops = dict(base)
    ops["flat-copy"] = trees()["flat"]
    ops["mixed-copy"] = trees()["mixed"]
    ops["flat-other-url"] = Group(path="/", url="file:///y", data=dict(base["flat"].data), attrs={"k": 1})
    ops["flat-other-path"] = Group(path="/p", url="file:///x", data=dict(base["flat"].data), attrs={"k": 1})
    ops["flat-other-attrs"] = Group(path="/", url="file:///x", data=dict(base["flat"].data), attrs={"k": 2})
    ops["flat-reordered"] = Group(
        path="/", url="file:///x", data=dict(reversed(list(base["flat"].data.items()))), attrs={"k": 1}
    )
    ops["flat-other-value"] = Group(
        path="/", url="file:///x", data={"a": var([1, 3]), "b": base["flat"]["b"]}, attrs={"k": 1}
    )
    ops["flat-other-dtype"] = Group(
        path="/", url="file:///x", data={"a": var([1, 2], dtype="int8"), "b": base["flat"]["b"]},
        attrs={"k": 1},
    )
    ops["flat-extra-var"] = Group(
        path="/", url="file:///x", data={**base["flat"].data, "c": var()}, attrs={"k": 1}
    )
    ops["flat-extra-group"] = Group(
        path="/", url="file:///x", data={**base["flat"].data, "c": Group(None, None, {}, {})},
        attrs={"k": 1},
    )
    ops["flat-group-for-var"] = Group(
        path="/", url="file:///x", data={"a": Group(None, None, {}, {}), "b": base["flat"]["b"]},
        attrs={"k": 1},
    )
    ops["flat-shape-mismatch"] = Group(
        path="/", url="file:///x", data={"a": var([1, 2, 3]), "b": base["flat"]["b"]}, attrs={"k": 1}
    )
    mixed_deep = trees()["mixed"]
    mixed_deep["g1"]["g1a"]["deep"].attrs["changed"] = True
    ops["mixed-deep-attr"] = mixed_deep
    mixed_leaf = trees()["mixed"]
    mixed_leaf["g1"]["g1b"].data["y"] = var([0])
    ops["mixed-leaf-type"] = mixed_leaf
    mixed_last = trees()["mixed"]
    mixed_last["g3"].data["q"] = var([60])
    ops["mixed-last-group-differs"] = mixed_last
    odd_other = trees()["odd-members"]
    odd_other.data["number"] = 2  # ignored by ==
    ops["odd-members-other-number"] = odd_other
    ops["not-a-group-variable"] = var()
    ops["not-a-group-dict"] = {"path": "/"}
    ops["not-a-group-none"] = None
    return ops


def compute():
    warnings.simplefilter("ignore")
    out = {}

    for name, tree in trees().items():
        gen = tree.subtree
        out[f"subtree-type/{name}"] = str(isinstance(gen, types.GeneratorType))
        out[f"subtree/{name}"] = run(list, gen)
        out[f"subtree-paths/{name}"] = repr([path for path, _ in tree.subtree])
        # decoupled groups are new objects sharing the variables and the attrs
        pairs = list(tree.subtree)
        flat_nodes = {}

        def collect(node):
            flat_nodes[node.path] = node
            for item in node.data.values():
                if isinstance(item, Group):
                    collect(item)

        collect(tree)
        out[f"subtree-sharing/{name}"] = repr(
            [
                (
                    node is not flat_nodes[path],
                    type(node).__name__,
                    node.attrs is flat_nodes[path].attrs,
                    all(node.data[k] is flat_nodes[path].data[k] for k in node.data),
                )
                for path, node in pairs
            ]
        )
        out[f"groups/{name}"] = run(lambda t: t.groups, tree)
        out[f"variables/{name}"] = run(lambda t: t.variables, tree)
        out[f"groups-identity/{name}"] = repr(
            (
                type(tree.groups).__name__,
                tree.groups is not tree.groups,
                tree.groups is not tree.data,
                all(v is tree.data[k] for k, v in tree.groups.items()),
                all(v is tree.data[k] for k, v in tree.variables.items()),
            )
        )
        out[f"len/{name}"] = run(len, tree)
        out[f"iter/{name}"] = repr((isinstance(iter(tree), types.GeneratorType), list(tree), list(tree.keys())))
        out[f"name/{name}"] = repr([node.name for _, node in pairs])
        out[f"decouple/{name}"] = run(lambda t: t.decouple(), tree)
        for path, node in pairs:
            if node.groups or path == tree.path:
                out[f"nested-groups/{name}:{path}"] = repr((list(node.groups), list(node.variables)))

    # laziness: the walk advances only as far as requested
    tree = trees()["mixed"]
    gen = tree.subtree
    first = next(gen)
    tree["added-late"] = Group(None, None, {"n": var([9])}, {})  # before children are visited
    tree["g2"].attrs["touched"] = 1  # visible: decoupling happens when the node is reached
    out["lazy/add-after-first"] = repr((first[0], [canon(item) for item in gen]))

    tree = trees()["mixed"]
    gen = tree.subtree
    seen = [next(gen)[0], next(gen)[0]]
    tree["added-too-late"] = Group(None, None, {}, {})
    out["lazy/add-during-walk"] = repr(seen) + " " + run(list, gen)
    out["lazy/after-error"] = run(list, gen)

    tree = trees()["mixed"]
    gen = tree.subtree
    seen = [next(gen)[0] for _ in range(3)]  # /, /g1, /g1/g1a
    tree["g1"]["g1a"]["new"] = Group(None, None, {}, {})  # below the current node, not yet listed
    out["lazy/add-below-current"] = repr(seen) + " " + run(lambda g: [p for p, _ in g], gen)

    tree = trees()["mixed"]
    gen = tree.subtree
    seen = [next(gen)[0] for _ in range(3)]
    tree["g1"].data["w"] = var([33])  # replace without resizing: allowed
    tree.data["g2"] = Group("/elsewhere", "u2", {}, {})  # replaced without adjusting
    out["lazy/replace-during-walk"] = repr(seen) + " " + run(list, gen)

    tree = trees()["chain-6"]
    gen = tree.subtree
    collected = []
    for path, node in gen:
        collected.append(path)
        if len(collected) == 3:
            gen.close()
            break
    out["lazy/close"] = repr(collected) + " " + run(list, gen)

    ops = eq_operands()
    for (name_a, a), (name_b, b) in itertools.product(ops.items(), repeat=2):
        if not isinstance(a, Group):
            continue
        try:
            result = a == b
            text = f"{type(result).__name__}:{result!r}"
        except Exception as e:  # noqa: BLE001
            text = f"EXC {type(e).__name__}: {e}"
        out[f"eq/{name_a}=={name_b}"] = text
    for name_a, a in ops.items():
        if isinstance(a, Group):
            out[f"ne/{name_a}"] = run(lambda g: (g != g, g != ops["flat"], g != 1), a)

    return out


def test_equivalence():
    actual = compute()
    if os.environ.get("EQ_RECORD"):
        EXPECTED.write_text(json.dumps(actual, indent=1, sort_keys=True))
        print(f"recorded {len(actual)} results")
        return
    expected = json.loads(EXPECTED.read_text())
    assert sorted(actual) == sorted(expected)
    mismatches = {k: (expected[k], actual[k]) for k in expected if expected[k] != actual[k]}
    assert not mismatches, mismatches
    print(f"{len(actual)} results identical")


if __name__ == "__main__":
    test_equivalence()
