"""Equivalence checks for refactoring 2 (ceos_alos2/sar_image/caching/decoders.py).

Run as: cd /tmp/wt9/e73 && PYTHONPATH=/tmp/wt9/e73 /venv/bin/python _eq/2/equiv.py
All expectations were recorded from the unchanged code (HEAD).
"""

import numpy as np
from fsspec.implementations.dirfs import DirFileSystem
from fsspec.implementations.memory import MemoryFileSystem

from ceos_alos2.array import Array
from ceos_alos2.hierarchy import Group, Variable
from ceos_alos2.sar_image.caching import decoders
from ceos_alos2.sar_image.caching.decoders import (  # noqa: F401
    decode_array,
    decode_datetime,
    decode_group,
    decode_hierarchy,
    decode_variable,
    postprocess,
)


def outcome(func, *args, **kwargs):
    try:
        return ("ok", func(*args, **kwargs))
    except BaseException as e:  # noqa: B036
        cause = None if e.__cause__ is None else repr(e.__cause__)
        return ("raise", type(e).__name__, str(e), cause, e.__suppress_context__)


def same_array(actual, expected):
    return (
        type(actual) is np.ndarray
        and actual.dtype == expected.dtype
        and actual.shape == expected.shape
        and np.array_equal(actual, expected)
    )


class LoggingDict(dict):
    """records the order in which keys are requested"""

    def __init__(self, *args, **kwargs):
        super().__init__(*args, **kwargs)
        self.log = []

    def __getitem__(self, key):
        self.log.append(("getitem", key))
        return super().__getitem__(key)

    def get(self, key, default=None):
        self.log.append(("get", key))
        return super().get(key, default)


# ------------------------------------------------------------ in-memory arrays
cases = [
    ({"__type__": "array", "dtype": "int8", "data": [1, 2], "encoding": {}}, np.array([1, 2], "int8")),
    ({"__type__": "array", "dtype": "float32", "data": [[1.5, 2], [3, 4]]}, np.array([[1.5, 2], [3, 4]], "float32")),
    ({"__type__": "array", "dtype": "float64", "data": []}, np.array([], "float64")),
    ({"__type__": "array", "dtype": "bool", "data": [True, False]}, np.array([True, False])),
    ({"__type__": "array", "dtype": "<U3", "data": ["ab", "cde"]}, np.array(["ab", "cde"], "<U3")),
    ({"__type__": "array", "dtype": "int64", "data": 5}, np.array(5, "int64")),
    (
        {"__type__": "array", "dtype": "timedelta64[s]", "data": [1, 2], "encoding": {"units": "s"}},
        np.array([1, 2], "timedelta64[s]"),
    ),
    (
        {"__type__": "array", "dtype": "timedelta64[ms]", "data": [1, 2]},
        np.array([1, 2], "timedelta64[ms]"),
    ),
    (
        {
            "__type__": "array",
            "dtype": "datetime64[s]",
            "data": [0, 120000],
            "encoding": {"units": "ms", "reference": "1997-05-27T00:00:00.000"},
        },
        np.array(["1997-05-27T00:00:00.000", "1997-05-27T00:02:00.000"], "datetime64[ms]"),
    ),
    (
        {
            "__type__": "array",
            "dtype": "datetime64[10ms]",
            "data": [0, 3],
            "encoding": {"units": "10ms", "reference": "2020-01-01T00:00:00.000"},
        },
        np.array(["2020-01-01T00:00:00.000", "2020-01-01T00:00:00.030"], "datetime64[10ms]"),
    ),
    (
        {
            "__type__": "array",
            "dtype": "datetime64[ns]",
            "data": [],
            "encoding": {"units": "ns", "reference": "2020-01-01"},
        },
        np.array([], "datetime64[ns]"),
    ),
]
for encoded, expected in cases:
    for rpc in (None, 2):
        res = outcome(decode_array, encoded, rpc)
        assert res[0] == "ok" and same_array(res[1], expected), (encoded, res)
        res = outcome(decode_array, encoded, records_per_chunk=rpc)
        assert res[0] == "ok" and same_array(res[1], expected), (encoded, res)

error_cases = [
    ({"__type__": "array"}, ("raise", "KeyError", "'dtype'", None, False)),
    ({"__type__": "array", "dtype": "int8"}, ("raise", "KeyError", "'data'", None, False)),
    ({"__type__": "array", "data": [1]}, ("raise", "KeyError", "'dtype'", None, False)),
    (
        {"__type__": "array", "dtype": "foo", "data": [1]},
        ("raise", "TypeError", "data type 'foo' not understood", None, False),
    ),
    (
        {"__type__": "array", "dtype": "int8", "data": ["a"]},
        ("raise", "ValueError", "invalid literal for int() with base 10: 'a'", None, False),
    ),
    (
        {"__type__": "array", "dtype": "datetime64[s]", "data": [1]},
        ("raise", "KeyError", "'encoding'", None, False),
    ),
    (
        {"__type__": "array", "dtype": "datetime64[s]", "data": [1], "encoding": {}},
        ("raise", "KeyError", "'reference'", None, False),
    ),
    (
        {"__type__": "array", "dtype": "datetime64[s]", "data": [1], "encoding": {"reference": "2020-01-01"}},
        ("raise", "KeyError", "'units'", None, False),
    ),
    (
        {"__type__": "array", "dtype": "datetime64[s]", "encoding": {"reference": "2020-01-01", "units": "s"}},
        ("raise", "KeyError", "'data'", None, False),
    ),
]
for encoded, expected in error_cases:
    res = outcome(decode_array, encoded, 2)
    assert res == expected, (encoded, res)

res = outcome(decode_array, [1, 2], 2)
assert res == ("raise", "AttributeError", "'list' object has no attribute 'get'", None, False), res
res = outcome(decode_array, None, 2)
assert res == ("raise", "AttributeError", "'NoneType' object has no attribute 'get'", None, False), res

# order in which the keys are requested
encoded = LoggingDict({"__type__": "array", "dtype": "int8", "data": [1, 2], "encoding": {}})
decode_array(encoded, 2)
assert encoded.log == [("get", "__type__"), ("getitem", "dtype"), ("getitem", "data"), ("getitem", "dtype")]
encoded = LoggingDict(
    {"__type__": "array", "dtype": "datetime64[s]", "data": [1], "encoding": {"reference": "2020-01-01", "units": "s"}}
)
decode_array(encoded, 2)
assert encoded.log == [
    ("get", "__type__"),
    ("getitem", "dtype"),
    ("getitem", "encoding"),
    ("getitem", "dtype"),
    ("getitem", "data"),
], encoded.log

# ------------------------------------------------------------ backend arrays
BACKEND = {
    "__type__": "backend_array",
    "root": "memory:///path/to",
    "url": "file",
    "shape": (4, 3),
    "dtype": "int16",
    "byte_ranges": [(5, 10), (15, 20), (25, 30), (35, 40)],
    "type_code": "IU2",
}
expected_rpc = {None: 1024, 1: 1, 3: 3, 4: 4, 100: 4, -1: 4, "auto": 4, "12B": 2}
for rpc, normalized in expected_rpc.items():
    for type_ in ("backend_array", "anything", None, ["array"]):
        encoded = LoggingDict(BACKEND | {"__type__": type_})
        res = outcome(decode_array, encoded, rpc)
        assert res[0] == "ok", res
        arr = res[1]
        assert type(arr) is Array
        assert type(arr.fs) is DirFileSystem and arr.fs.path == "/path/to"
        assert type(arr.fs.fs) is MemoryFileSystem
        assert arr.url == "file" and arr.shape == (4, 3) and arr.dtype == "int16"
        assert arr.byte_ranges == BACKEND["byte_ranges"] and arr.byte_ranges is BACKEND["byte_ranges"]
        assert arr.type_code == "IU2" and arr.records_per_chunk == normalized, (rpc, arr)
        assert arr == Array(
            fs=DirFileSystem(path="/path/to", fs=MemoryFileSystem()),
            url="file",
            byte_ranges=BACKEND["byte_ranges"],
            shape=(4, 3),
            dtype="int16",
            type_code="IU2",
            records_per_chunk=rpc,
        )
        assert encoded.log == [
            ("get", "__type__"),
            ("getitem", "root"),
            ("getitem", "type_code"),
            ("getitem", "url"),
            ("getitem", "shape"),
            ("getitem", "dtype"),
            ("getitem", "byte_ranges"),
        ], encoded.log

# without "__type__" at all
without_type = {k: v for k, v in BACKEND.items() if k != "__type__"}
assert outcome(decode_array, without_type, 2) == ("ok", decode_array(BACKEND, 2))

# missing keys are reported in the order root, type_code, url, shape, dtype, byte_ranges
order = ["root", "type_code", "url", "shape", "dtype", "byte_ranges"]
for i, first in enumerate(order):
    for j in range(i, len(order)):
        dropped = {first, order[j], order[-1]} if j % 2 else {first, order[j]}
        encoded = {k: v for k, v in BACKEND.items() if k not in dropped}
        res = outcome(decode_array, encoded, 2)
        assert res == ("raise", "KeyError", repr(first), None, False), (dropped, res)

res = outcome(decode_array, BACKEND | {"root": "nosuchprotocol://x"}, 2)
assert res == ("raise", "ValueError", "Protocol not known: nosuchprotocol", None, False), res
# the root is resolved before the other keys are looked up
res = outcome(decode_array, {"root": "nosuchprotocol://x"}, 2)
assert res == ("raise", "ValueError", "Protocol not known: nosuchprotocol", None, False), res
res = outcome(decode_array, BACKEND | {"byte_ranges": [(1,)]}, 2)
assert res[:2] == ("raise", "ValueError") and "not enough values to unpack" in res[2], res
res = outcome(decode_array, BACKEND | {"byte_ranges": None}, 2)
assert res == ("raise", "TypeError", "'NoneType' object is not iterable", None, False), res
res = outcome(decode_array, BACKEND, "1 parsec")
assert res == ("raise", "ValueError", "Could not interpret 'parsec' as a byte unit", "KeyError('parsec')", True), res

# ------------------------------------------------------------ variables
VAR = {
    "__type__": "variable",
    "dims": ["x"],
    "data": {"__type__": "array", "dtype": "int8", "data": [1, 2]},
    "attrs": {"a": 1},
}
res = outcome(decode_variable, VAR, records_per_chunk=2)
assert res == ("ok", Variable(["x"], np.array([1, 2], "int8"), {"a": 1})), res
assert res[1].attrs is VAR["attrs"] and res[1].dims is VAR["dims"]
res = outcome(decode_variable, VAR | {"dims": "x", "data": BACKEND}, records_per_chunk=3)
assert res == ("ok", Variable(["x"], decode_array(BACKEND, 3), {"a": 1})), res
for dropped, reported in [
    (("data", "dims", "attrs"), "data"),
    (("dims", "attrs"), "dims"),
    (("attrs",), "attrs"),
]:
    encoded = {k: v for k, v in VAR.items() if k not in dropped}
    assert outcome(decode_variable, encoded, 2) == ("raise", "KeyError", repr(reported), None, False)

# ------------------------------------------------------------ groups / hierarchy
TREE = {
    "__type__": "group",
    "url": "memory://root",
    "path": "/",
    "attrs": {"n": 1},
    "data": {
        "v": VAR,
        "b": VAR | {"data": BACKEND, "dims": ["rows", "cols"]},
        "g": {
            "__type__": "group",
            "url": None,
            "path": "elsewhere",
            "attrs": {},
            "data": {"w": VAR, "h": {"__type__": "group", "url": "u2", "path": None, "attrs": {}, "data": {}}},
        },
        "plain": {"k": 1},
        "unknown": {"__type__": "other", "k": 2},
    },
}
for rpc in (2, None):
    for func in (decode_group, decode_hierarchy):
        res = outcome(func, TREE, records_per_chunk=rpc)
        assert res[0] == "ok", res
        tree = res[1]
        assert type(tree) is Group and tree.path == "/" and tree.url == "memory://root"
        assert list(tree) == ["v", "b", "g", "plain", "unknown"]
        assert tree["v"] == Variable(["x"], np.array([1, 2], "int8"), {"a": 1})
        assert tree["b"] == Variable(["rows", "cols"], decode_array(BACKEND, rpc), {"a": 1})
        assert tree["b"].data.records_per_chunk == (1024 if rpc is None else 2)
        assert tree["g"].path == "/g" and tree["g"].url == "memory://root"
        assert tree["g"]["h"].path == "/g/h" and tree["g"]["h"].url == "u2"
        assert list(tree["g"]) == ["w", "h"]
        assert tree["plain"] == {"k": 1} and tree["unknown"] == {"__type__": "other", "k": 2}
        assert tree.attrs is TREE["attrs"]
        assert tree == Group(
            path="/",
            url="memory://root",
            attrs={"n": 1},
            data={
                "v": Variable(["x"], np.array([1, 2], "int8"), {"a": 1}),
                "b": Variable(["rows", "cols"], decode_array(BACKEND, rpc), {"a": 1}),
                "g": Group(
                    path=None,
                    url=None,
                    attrs={},
                    data={
                        "w": Variable(["x"], np.array([1, 2], "int8"), {"a": 1}),
                        "h": Group(path=None, url="u2", data={}, attrs={}),
                    },
                ),
            },
        )

# positional records_per_chunk as well
assert decode_group(TREE, 2) == decode_group(TREE, records_per_chunk=2)
assert decode_hierarchy(TREE, 2) == decode_group(TREE, records_per_chunk=2)
assert decode_hierarchy(VAR, 2) == decode_variable(VAR, records_per_chunk=2)

# anything that is not a group or a variable is returned as is (same object)
for obj in ({}, {"a": 1}, {"__type__": "array", "dtype": "int8", "data": [1]}, {"__type__": None}, {"__type__": 3}):
    assert decode_hierarchy(obj, records_per_chunk=2) is obj
    assert decode_hierarchy(LoggingDict(obj), 2).log == [("get", "__type__")]

err = [
    ({"__type__": ["x"]}, ("raise", "TypeError", "unhashable type: 'list'", None, False)),
    ({"__type__": {"a": 1}}, ("raise", "TypeError", "unhashable type: 'dict'", None, False)),
    (3, ("raise", "AttributeError", "'int' object has no attribute 'get'", None, False)),
    ([], ("raise", "AttributeError", "'list' object has no attribute 'get'", None, False)),
    ({"__type__": "group"}, ("raise", "KeyError", "'data'", None, False)),
    ({"__type__": "group", "data": {}}, ("raise", "KeyError", "'path'", None, False)),
    ({"__type__": "group", "data": {}, "path": "/"}, ("raise", "KeyError", "'url'", None, False)),
    ({"__type__": "group", "data": {}, "path": "/", "url": None}, ("raise", "KeyError", "'attrs'", None, False)),
    (
        {"__type__": "group", "data": [], "path": "/", "url": None, "attrs": {}},
        ("raise", "AttributeError", "'list' object has no attribute 'keys'", None, False),
    ),
    # errors from nested entries propagate unchanged (also TypeError, which curry inspects)
    (
        {"__type__": "group", "data": {"a": 3}, "path": "/", "url": None, "attrs": {}},
        ("raise", "AttributeError", "'int' object has no attribute 'get'", None, False),
    ),
    (
        {"__type__": "group", "data": {"a": {"__type__": ["x"]}}, "path": "/", "url": None, "attrs": {}},
        ("raise", "TypeError", "unhashable type: 'list'", None, False),
    ),
    (
        {"__type__": "group", "data": {"a": VAR | {"data": BACKEND | {"byte_ranges": None}}}, "path": "/",
         "url": None, "attrs": {}},
        ("raise", "TypeError", "'NoneType' object is not iterable", None, False),
    ),
    (
        {"__type__": "group", "data": {"a": {"__type__": "variable"}, "b": 3}, "path": "/", "url": None, "attrs": {}},
        ("raise", "KeyError", "'data'", None, False),
    ),
]
for obj, expected in err:
    res = outcome(decode_hierarchy, obj, records_per_chunk=2)
    assert res == expected, (obj, res)

res = outcome(decode_hierarchy, TREE)
assert res[:2] == ("raise", "TypeError") and "records_per_chunk" in res[2], res
res = outcome(decode_group, TREE)
assert res[:2] == ("raise", "TypeError") and "records_per_chunk" in res[2], res

# entries are decoded in order, lazily failing at the first broken one
order_log = []


class Spy(dict):
    def __init__(self, name, *args):
        super().__init__(*args)
        self.name = name

    def get(self, key, default=None):
        order_log.append(self.name)
        return super().get(key, default)


spied = {
    "__type__": "group", "path": "/", "url": None, "attrs": {},
    "data": {"a": Spy("a", {"k": 1}), "b": Spy("b", {"__type__": "variable"}), "c": Spy("c", {})},
}
res = outcome(decode_hierarchy, spied, records_per_chunk=2)
assert res == ("raise", "KeyError", "'data'", None, False) and order_log == ["a", "b"], (res, order_log)

# postprocess / decode_datetime untouched, still there
assert postprocess({"__type__": "tuple", "data": [1, 2]}) == (1, 2)
assert postprocess({"a": 1}) == {"a": 1}
assert set(["decode_array", "decode_datetime", "decode_group", "decode_hierarchy", "decode_variable",
            "postprocess"]) <= set(dir(decoders))

print("equiv 2: OK")
