"""Equivalence check for refactoring 4: results recorded from the unchanged code.

Run: cd /tmp/wt6/e44 && PYTHONPATH=/tmp/wt6/e44 /venv/bin/python _eq/4/equiv.py
(also collectable by pytest: `pytest _eq/4/equiv.py`).
"""
import datetime
import sys

from ceos_alos2.hierarchy import Group, Variable

try:
    ExceptionGroup
except NameError:  # pragma: no cover
    from exceptiongroup import ExceptionGroup


def canon(obj):
    """Canonical, type- and order-preserving text form of a result."""
    if isinstance(obj, Group):
        return (
            f"Group(path={obj.path!r}, url={obj.url!r}, "
            f"data={canon(obj.data)}, attrs={canon(obj.attrs)})"
        )
    if isinstance(obj, Variable):  # pragma: no cover
        return f"Variable(dims={obj.dims!r}, data={obj.data!r}, attrs={canon(obj.attrs)})"
    if type(obj) is dict:
        return "{" + ", ".join(f"{canon(k)}: {canon(v)}" for k, v in obj.items()) + "}"
    if type(obj) is list:
        return "[" + ", ".join(canon(v) for v in obj) + "]"
    if type(obj) is tuple:
        return "(" + ", ".join(canon(v) for v in obj) + ",)"
    if isinstance(obj, (str, bytes, int, float, bool, type(None), datetime.datetime)):
        return f"{type(obj).__name__}:{obj!r}"
    return f"<{type(obj).__qualname__}>:{obj!r}"


def canon_exc(e):
    text = f"{type(e).__name__}{e.args!r}"
    if isinstance(e, ExceptionGroup):
        text += "[" + "; ".join(canon_exc(sub) for sub in e.exceptions) + "]"
    if e.__cause__ is not None:
        text += f" from {canon_exc(e.__cause__)}"
    return text


def outcome(func, *args, **kwargs):
    try:
        result = func(*args, **kwargs)
    except BaseException as e:  # noqa: B902 - StopIteration etc. are part of the record
        return "RAISES " + canon_exc(e)
    return "RETURNS " + canon(result)


def check(cases, expected, run):
    """Run every case; with --record print the table, otherwise compare."""
    actual = {name: run(*case) for name, case in cases.items()}
    if "--record" in sys.argv:
        print("EXPECTED = {")
        for name, value in actual.items():
            print(f"    {name!r}: (\n        {value!r}\n    ),")
        print("}")
        return 0

    assert list(actual) == list(expected), "case list and EXPECTED are out of sync"
    failures = [name for name in cases if actual[name] != expected[name]]
    for name in failures:
        print(f"MISMATCH {name}\n  expected: {expected[name]}\n  actual:   {actual[name]}")
    assert not failures, f"{len(failures)} of {len(cases)} cases differ"
    print(f"ok: {len(cases)} cases identical to the recorded behaviour")
    return 0


from ceos_alos2 import summary


class Text(str):
    """A str subclass: must be treated exactly like a str."""


CASES = {
    "empty": ({},),
    "suite_datetime": (
        {
            "SceneCenterDateTime": "20191011 14:43:15.525",
            "SceneStartDateTime": "20191011 14:42:49.525",
            "SceneEndDateTime": "20191011 14:43:41.524",
        },
    ),
    "suite_floats": (
        {
            "ImageSceneCenterLatitude": "30.385",
            "ImageSceneCenterLongitude": "137.504",
            "OffNadirAngle": "21.3",
        },
    ),
    "mixed_order_kept": (
        {
            "OffNadirAngle": "21.3",
            "SceneStartDateTime": "20191011 14:42:49.525",
            "ImageSceneLeftTopLatitude": "-31.5",
            "SceneEndDateTime": "20191011 14:43:41.524",
            "ImageSceneLeftTopLongitude": "+137",
        },
    ),
    # what counts as a datetime key: the substring, case sensitive, anywhere
    "key_is_exactly_datetime": ({"DateTime": "20200101 00:00:00"},),
    "key_datetime_in_the_middle": ({"XDateTimeY": "20200101 00:00:00"},),
    "key_lower_case_is_float": ({"scenedatetime": "1.5", "Datetime": "2", "DATETIME": "3"},),
    "key_date_only_is_float": ({"SceneDate": "4", "Time": "5"},),
    "key_empty_is_float": ({"": "6"},),
    "key_str_subclass": ({Text("SceneDateTime"): Text("20200101 00:00:00"), Text("A"): Text("7")},),
    # float syntax
    "float_forms": (
        {
            "a": " 1 ",
            "b": "1e3",
            "c": "-0.0",
            "d": "inf",
            "e": "-Infinity",
            "f": "1_0.5",
            "g": ".5",
            "h": "5.",
            "i": "10",
            "j": "\t2\n",
        },
    ),
    "float_nan": ({"a": "3", "n": "nan"},),
    "float_of_number": ({"a": 3, "b": 2.5, "c": True},),
    # datetime syntax: only ever split and sliced, never validated
    "datetime_no_fraction": ({"SceneDateTime": "20200101 00:00:00"},),
    "datetime_extra_spaces": ({"SceneDateTime": "  20200101 \t 00:00:00  "},),
    "datetime_short_date": ({"SceneDateTime": "2020 1"},),
    "datetime_long_date": ({"SceneDateTime": "2020010112 x"},),
    "datetime_not_numeric": ({"SceneDateTime": "abcdefgh ij"},),
    # errors
    "float_invalid": ({"a": "1", "b": "x", "c": "y"},),
    "float_empty": ({"a": ""},),
    "float_none": ({"a": None},),
    "float_hex": ({"a": "0x10"},),
    "datetime_one_part": ({"SceneDateTime": "20200101"},),
    "datetime_three_parts": ({"SceneDateTime": "20200101 00:00:00 UTC"},),
    "datetime_empty": ({"SceneDateTime": ""},),
    "datetime_none": ({"SceneDateTime": None},),
    "datetime_number": ({"SceneDateTime": 20200101},),
    "float_error_first": ({"a": "x", "SceneDateTime": ""},),
    "datetime_error_first": ({"SceneDateTime": "", "a": "x"},),
    "key_not_a_string": ({1: "1"},),
    "key_none": ({None: "1"},),
    "key_tuple_without_match": ({("a", "b"): "1.5"},),
    "key_tuple_with_match": ({("DateTime",): "20200101 00:00:00"},),
    "key_bytes": ({b"SceneDateTime": "1"},),
    "not_a_mapping": (None,),
    "list_of_pairs": ([("a", "1")],),
}


def run(section):
    before = canon(section)
    first = outcome(summary.transform_image_info, section)
    second = outcome(summary.transform_image_info, section)
    assert canon(section) == before, "input was modified"
    assert first == second or "nan" in first
    return first

# fmt: off
EXPECTED = {
    'empty': (
        "RETURNS Group(path='/', url=None, data={}, attrs={})"
    ),
    'suite_datetime': (
        "RETURNS Group(path='/', url=None, data={}, attrs={str:'SceneCenterDateTime': str:'2019-10-11T14:43:15.525', str:'SceneStartDateTime': str:'2019-10-11T14:42:49.525', str:'SceneEndDateTime': str:'2019-10-11T14:43:41.524'})"
    ),
    'suite_floats': (
        "RETURNS Group(path='/', url=None, data={}, attrs={str:'ImageSceneCenterLatitude': float:30.385, str:'ImageSceneCenterLongitude': float:137.504, str:'OffNadirAngle': float:21.3})"
    ),
    'mixed_order_kept': (
        "RETURNS Group(path='/', url=None, data={}, attrs={str:'OffNadirAngle': float:21.3, str:'SceneStartDateTime': str:'2019-10-11T14:42:49.525', str:'ImageSceneLeftTopLatitude': float:-31.5, str:'SceneEndDateTime': str:'2019-10-11T14:43:41.524', str:'ImageSceneLeftTopLongitude': float:137.0})"
    ),
    'key_is_exactly_datetime': (
        "RETURNS Group(path='/', url=None, data={}, attrs={str:'DateTime': str:'2020-01-01T00:00:00'})"
    ),
    'key_datetime_in_the_middle': (
        "RETURNS Group(path='/', url=None, data={}, attrs={str:'XDateTimeY': str:'2020-01-01T00:00:00'})"
    ),
    'key_lower_case_is_float': (
        "RETURNS Group(path='/', url=None, data={}, attrs={str:'scenedatetime': float:1.5, str:'Datetime': float:2.0, str:'DATETIME': float:3.0})"
    ),
    'key_date_only_is_float': (
        "RETURNS Group(path='/', url=None, data={}, attrs={str:'SceneDate': float:4.0, str:'Time': float:5.0})"
    ),
    'key_empty_is_float': (
        "RETURNS Group(path='/', url=None, data={}, attrs={str:'': float:6.0})"
    ),
    'key_str_subclass': (
        "RETURNS Group(path='/', url=None, data={}, attrs={Text:'SceneDateTime': str:'2020-01-01T00:00:00', Text:'A': float:7.0})"
    ),
    'float_forms': (
        "RETURNS Group(path='/', url=None, data={}, attrs={str:'a': float:1.0, str:'b': float:1000.0, str:'c': float:-0.0, str:'d': float:inf, str:'e': float:-inf, str:'f': float:10.5, str:'g': float:0.5, str:'h': float:5.0, str:'i': float:10.0, str:'j': float:2.0})"
    ),
    'float_nan': (
        "RETURNS Group(path='/', url=None, data={}, attrs={str:'a': float:3.0, str:'n': float:nan})"
    ),
    'float_of_number': (
        "RETURNS Group(path='/', url=None, data={}, attrs={str:'a': float:3.0, str:'b': float:2.5, str:'c': float:1.0})"
    ),
    'datetime_no_fraction': (
        "RETURNS Group(path='/', url=None, data={}, attrs={str:'SceneDateTime': str:'2020-01-01T00:00:00'})"
    ),
    'datetime_extra_spaces': (
        "RETURNS Group(path='/', url=None, data={}, attrs={str:'SceneDateTime': str:'2020-01-01T00:00:00'})"
    ),
    'datetime_short_date': (
        "RETURNS Group(path='/', url=None, data={}, attrs={str:'SceneDateTime': str:'2020--T1'})"
    ),
    'datetime_long_date': (
        "RETURNS Group(path='/', url=None, data={}, attrs={str:'SceneDateTime': str:'2020-01-0112Tx'})"
    ),
    'datetime_not_numeric': (
        "RETURNS Group(path='/', url=None, data={}, attrs={str:'SceneDateTime': str:'abcd-ef-ghTij'})"
    ),
    'float_invalid': (
        'RAISES ValueError("could not convert string to float: \'x\'",)'
    ),
    'float_empty': (
        'RAISES ValueError("could not convert string to float: \'\'",)'
    ),
    'float_none': (
        'RAISES TypeError("float() argument must be a string or a real number, not \'NoneType\'",)'
    ),
    'float_hex': (
        'RAISES ValueError("could not convert string to float: \'0x10\'",)'
    ),
    'datetime_one_part': (
        "RAISES ValueError('not enough values to unpack (expected 2, got 1)',)"
    ),
    'datetime_three_parts': (
        "RAISES ValueError('too many values to unpack (expected 2)',)"
    ),
    'datetime_empty': (
        "RAISES ValueError('not enough values to unpack (expected 2, got 0)',)"
    ),
    'datetime_none': (
        'RAISES AttributeError("\'NoneType\' object has no attribute \'split\'",)'
    ),
    'datetime_number': (
        'RAISES AttributeError("\'int\' object has no attribute \'split\'",)'
    ),
    'float_error_first': (
        'RAISES ValueError("could not convert string to float: \'x\'",)'
    ),
    'datetime_error_first': (
        "RAISES ValueError('not enough values to unpack (expected 2, got 0)',)"
    ),
    'key_not_a_string': (
        'RAISES TypeError("argument of type \'int\' is not iterable",)'
    ),
    'key_none': (
        'RAISES TypeError("argument of type \'NoneType\' is not iterable",)'
    ),
    'key_tuple_without_match': (
        "RETURNS Group(path='/', url=None, data={}, attrs={(str:'a', str:'b',): float:1.5})"
    ),
    'key_tuple_with_match': (
        "RETURNS Group(path='/', url=None, data={}, attrs={(str:'DateTime',): str:'2020-01-01T00:00:00'})"
    ),
    'key_bytes': (
        'RAISES TypeError("a bytes-like object is required, not \'str\'",)'
    ),
    'not_a_mapping': (
        'RAISES AttributeError("\'NoneType\' object has no attribute \'items\'",)'
    ),
    'list_of_pairs': (
        'RAISES AttributeError("\'list\' object has no attribute \'items\'",)'
    ),
}
# fmt: on


def test_equivalence():
    check(CASES, EXPECTED, run)


if __name__ == "__main__":
    check(CASES, EXPECTED, run)
