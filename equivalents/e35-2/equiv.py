"""Equivalence check for refactoring 2 (sar_leader/attitude.py).

Run as

    cd /tmp/wt5/e35 && PYTHONPATH=/tmp/wt5/e35 /venv/bin/python _eq/2/equiv.py

(or through pytest). EXPECTED at the bottom of this file was recorded with the
UNCHANGED code (``--record`` prints the snapshots).
"""

import collections
import json
import struct
import sys

import numpy as np

from ceos_alos2.hierarchy import Group, Variable
from ceos_alos2.sar_leader import attitude
from ceos_alos2.utils import to_dict


def snap(obj):
    """canonical, order- and type-preserving description of a result"""
    if isinstance(obj, Group):
        return {
            "Group": [obj.path, obj.url, snap(obj.data), snap(obj.attrs)],
        }
    if isinstance(obj, Variable):
        return {"Variable": [snap(obj.dims), snap(obj.data), snap(obj.attrs)]}
    if isinstance(obj, dict):
        return {type(obj).__name__: [[snap(k), snap(v)] for k, v in obj.items()]}
    if isinstance(obj, (list, tuple)):
        return {type(obj).__name__: [snap(v) for v in obj]}
    if isinstance(obj, np.ndarray):
        return {"ndarray": [str(obj.dtype), list(obj.shape), repr(obj.tolist())]}
    return {type(obj).__name__: repr(obj)}


def run(func, *args):
    try:
        result = func(*args)
    except BaseException as e:  # noqa: B902
        return {"raises": [type(e).__name__, str(e)]}
    return {"returns": snap(result)}


Pair = collections.namedtuple("Pair", ["value", "attrs"])


def prepend_dim_cases():
    shared = {"x": 1, "y": (2, {"u": "m"})}
    return {
        "scalar": ("points", 1),
        "none": ("points", None),
        "str": ("points", "abc"),
        "list": ("points", [1, 2]),
        "array": ("points", np.arange(3)),
        "tuple2": ("points", ([1, 2], {"units": "deg"})),
        "tuple1": ("points", ([1, 2],)),
        "tuple0": ("points", ()),
        "tuple3": ("points", ("x", [1], {})),
        "namedtuple": ("points", Pair([1], {"a": 1})),
        "empty_dict": ("points", {}),
        "flat_dict": ("d", {"b": [1], "a": ([2], {"k": "v"}), "c": 3}),
        "nested_dict": (
            "d",
            {
                "z": {"b": [1], "a": ([2], {"k": "v"}), "inner": {"deep": {"deeper": 1}, "e": {}}},
                "y": 5,
                "x": {"q": ((), {}), "p": {"o": None}},
                "w": {},
            },
        ),
        "ordered_dict": (
            "d",
            collections.OrderedDict(
                [("b", collections.OrderedDict([("n", 1), ("m", 2)])), ("a", (1, {}))]
            ),
        ),
        "shared_subdict": ("d", {"first": shared, "second": shared, "third": {"again": shared}}),
        "dim_list": (["a", "b"], {"v": 1, "g": {"w": (2, {})}}),
        "dim_none": (None, {"v": 1}),
        "non_str_keys": ("d", {1: 2, (3, 4): {None: 5}}),
    }


def section_cases():
    return {
        "empty": ({},),
        "full": (
            {
                "pitch_error": [0, 1, 2],
                "roll_error": [1, 0, -1],
                "yaw_error": [0, 0, 0],
                "pitch": [(1.5, {"units": "deg"}), (2.5, {"units": "deg"})],
                "roll": [(0.0, {"units": "deg"})],
                "yaw": [1.0, 2.0],
            },
        ),
        "reordered_partial": ({"yaw": [], "other": [1, 2], "roll_error": []},),
        "unknown_only": ({"a": 1, "b": [(1, {})]},),
        "flags_from_strings": ({"pitch_error": ["", "a"], "yaw_error": "ab"},),
        "flags_from_tuple": ({"pitch_error": (0, 1)},),
        "flags_from_generator": ({"roll_error": iter([0, 2])},),
        "flags_from_array": ({"roll_error": np.array([0, 2, 0])},),
        "flags_from_dict": ({"roll_error": {0: 1, 1: 0}},),
        "bad:flags_scalar": ({"pitch_error": 1},),
        "bad:flags_none": ({"pitch": [1.0], "yaw_error": None},),
        "angles_scalar": ({"pitch": 1.0, "roll": None, "yaw": "abc"},),
        "angles_mixed_attrs": ({"pitch": [(1.0, {"units": "deg"}), (2.0, {"units": "rad"})]},),
        "bad:angles_uneven": ({"pitch": [(1.0, {}), (2.0,)]},),
        "bad:mapping_none": (None,),
        "bad:mapping_list": ([1, 2],),
    }


def raw_point(index):
    units = {"units": "deg"}
    rate_units = {"units": "deg/s"}
    return {
        "time": {"day_of_year": 1 + index, "millisecond_of_day": 1000 * index + 7},
        "attitude": {
            "pitch_error": index % 2,
            "roll_error": 0,
            "yaw_error": -1 if index == 2 else 1,
            "pitch": (0.5 * index, units),
            "roll": (-1.25 * index, units),
            "yaw": (float("nan") if index == 1 else 3.0, units),
        },
        "rates": {
            "pitch_error": 0,
            "roll_error": index,
            "yaw_error": 0,
            "pitch": (1e-3 * index, rate_units),
            "roll": (0.0, rate_units),
            "yaw": (-2e-3, rate_units),
        },
    }


def attitude_cases():
    points = [raw_point(i) for i in range(4)]
    no_rates = [{k: v for k, v in p.items() if k != "rates"} for p in points]
    no_time = [{k: v for k, v in p.items() if k != "time"} for p in points]
    extra = [p | {"extra": {"a": i, "b": (i, {"u": "x"})}, "scalar": i} for i, p in enumerate(points)]
    reordered = [{k: p[k] for k in ("rates", "time", "attitude")} for p in points]
    uneven = [points[0], {k: v for k, v in points[1].items() if k != "rates"}]
    return {
        "four_points": ({"data_points": points},),
        "single_point": ({"data_points": points[:1]},),
        "extra_record_fields": (
            {"preamble": {}, "number_of_points": 4, "data_points": points, "blanks": ""},
        ),
        "no_rates": ({"data_points": no_rates},),
        "no_time": ({"data_points": no_time},),
        "extra_sections": ({"data_points": extra},),
        "reordered_sections": ({"data_points": reordered},),
        "uneven_points": ({"data_points": uneven},),
        "no_points": ({"data_points": []},),
        "bad:points_not_dicts": ({"data_points": [1, 2]},),
        "bad:points_none": ({"data_points": None},),
        "bad:missing_data_points": ({"number_of_points": 0},),
        "bad:mapping_none": (None,),
        "bad:mapping_list": ([{"data_points": []}],),
        "bad:mapping_str": ("data_points",),
        "bad:time_not_numbers": (
            {"data_points": [{"time": {"day_of_year": "a", "millisecond_of_day": 1}}]},
        ),
        "bad:time_unknown_field": ({"data_points": [{"time": {"year": 2020}}]},),
        "bad:time_missing_field": ({"data_points": [{"time": {"day_of_year": 2}}]},),
        "bad:section_flag_scalar_nested": (
            {"data_points": [{"attitude": {"pitch_error": {"a": 1}}}]},
        ),
    }


def time_cases():
    return {
        "lists": ({"day_of_year": [1, 2, 366], "millisecond_of_day": [0, 86399999, 5]},),
        "scalars": ({"day_of_year": 3, "millisecond_of_day": 4},),
        "empty": ({"day_of_year": [], "millisecond_of_day": []},),
        "bad:unknown": ({"day_of_year": [1], "millisecond_of_day": [1], "x": [1]},),
    }


def fixed(value, width):
    text = str(value)
    assert len(text) <= width
    return text.rjust(width).encode("ascii")


def encode_point(index, blank=False):
    if blank:
        return b" " * 120
    fields = [
        fixed(10 + index, 4),
        fixed(123456 * (index + 1), 8),
    ]
    for scale in (1.0, 1e-3):
        fields.extend([fixed(index % 2, 4), fixed(0, 4), fixed(1, 4)])
        fields.extend(
            [
                fixed(f"{scale * (index + 0.25):.6E}", 14),
                fixed(f"{-scale * index:.6E}", 14),
                fixed(f"{scale * 7.5:.6E}", 14),
            ]
        )
    encoded = b"".join(fields)
    assert len(encoded) == 120
    return encoded


def encode_record(n_points, record_length, blank_last=False):
    preamble = struct.pack(">IBBBBI", 4, 18, 40, 18, 20, record_length)
    points = b"".join(
        encode_point(i, blank=blank_last and i == n_points - 1) for i in range(n_points)
    )
    body = preamble + fixed(n_points, 4) + points
    return body + b" " * (record_length - len(body))


def parsed_cases():
    return {
        "three_points": encode_record(3, 8192),
        "one_point": encode_record(1, 256),
        "exact_length": encode_record(2, 12 + 4 + 240),
        "blank_point": encode_record(3, 1024, blank_last=True),
        "zero_points": encode_record(0, 64),
    }


def parse_and_transform(data):
    return attitude.transform_attitude(to_dict(attitude.attitude_record.parse(data)))


def collect():
    results = {}
    for name, args in prepend_dim_cases().items():
        results[f"prepend_dim/{name}"] = run(attitude.prepend_dim, *args)
    for name, args in section_cases().items():
        results[f"transform_section/{name}"] = run(attitude.transform_section, *args)
    for name, args in time_cases().items():
        results[f"transform_time/{name}"] = run(attitude.transform_time, *args)
    for name, args in attitude_cases().items():
        results[f"transform_attitude/{name}"] = run(attitude.transform_attitude, *args)
    for name, data in parsed_cases().items():
        results[f"parsed/{name}"] = run(parse_and_transform, data)

    # inputs are left alone
    var = {"a": {"b": [1, 2], "c": ([3], {"u": "m"})}, "d": 1}
    before = json.dumps(snap(var))
    attitude.prepend_dim("points", var)
    results["prepend_dim/input_unchanged"] = before == json.dumps(snap(var))

    mapping = {"data_points": [raw_point(i) for i in range(3)]}
    before = json.dumps(snap(mapping))
    attitude.transform_attitude(mapping)
    results["transform_attitude/input_unchanged"] = before == json.dumps(snap(mapping))

    # object identity of what is passed through / newly created
    payload = [1, 2]
    attrs = {"u": "m"}
    dim = ["points"]
    source = {"v": (payload, attrs), "g": {"w": payload}}
    out = attitude.prepend_dim(dim, source)
    results["prepend_dim/identity"] = [
        out is source,
        out["g"] is source["g"],
        out["v"][0] is dim,
        out["v"][1] is payload,
        out["v"][2] is attrs,
        out["g"]["w"][0] is dim,
        out["g"]["w"][1] is payload,
        type(out["g"]["w"][2]).__name__,
    ]

    group = attitude.transform_attitude({"data_points": [raw_point(i) for i in range(2)]})
    first, second = group["attitude"], group["rates"]
    results["transform_attitude/identity"] = [
        first.attrs is second.attrs,
        first.attrs["coordinates"] is second.attrs["coordinates"],
        first.data["time"].data is second.data["time"].data,
        first.data["time"].dims is second.data["time"].dims,
        first.data["pitch"].attrs is second.data["pitch"].attrs,
        first.data["pitch"].attrs is first.data["roll"].attrs,
    ]

    flags = attitude.transform_section({"pitch_error": [0, 1]})["pitch_error"]
    results["transform_section/flag_types"] = [type(flags).__name__, [type(f).__name__ for f in flags]]

    return results


def test_equivalence():
    actual = collect()
    expected = json.loads(EXPECTED)
    assert list(actual) == list(expected)
    for name in expected:
        assert actual[name] == expected[name], name


EXPECTED = r"""
{
 "prepend_dim/scalar": {
  "returns": {
   "tuple": [
    {
     "str": "'points'"
    },
    {
     "int": "1"
    },
    {
     "dict": []
    }
   ]
  }
 },
 "prepend_dim/none": {
  "returns": {
   "tuple": [
    {
     "str": "'points'"
    },
    {
     "NoneType": "None"
    },
    {
     "dict": []
    }
   ]
  }
 },
 "prepend_dim/str": {
  "returns": {
   "tuple": [
    {
     "str": "'points'"
    },
    {
     "str": "'abc'"
    },
    {
     "dict": []
    }
   ]
  }
 },
 "prepend_dim/list": {
  "returns": {
   "tuple": [
    {
     "str": "'points'"
    },
    {
     "list": [
      {
       "int": "1"
      },
      {
       "int": "2"
      }
     ]
    },
    {
     "dict": []
    }
   ]
  }
 },
 "prepend_dim/array": {
  "returns": {
   "tuple": [
    {
     "str": "'points'"
    },
    {
     "ndarray": [
      "int64",
      [
       3
      ],
      "[0, 1, 2]"
     ]
    },
    {
     "dict": []
    }
   ]
  }
 },
 "prepend_dim/tuple2": {
  "returns": {
   "tuple": [
    {
     "str": "'points'"
    },
    {
     "list": [
      {
       "int": "1"
      },
      {
       "int": "2"
      }
     ]
    },
    {
     "dict": [
      [
       {
        "str": "'units'"
       },
       {
        "str": "'deg'"
       }
      ]
     ]
    }
   ]
  }
 },
 "prepend_dim/tuple1": {
  "returns": {
   "tuple": [
    {
     "str": "'points'"
    },
    {
     "list": [
      {
       "int": "1"
      },
      {
       "int": "2"
      }
     ]
    }
   ]
  }
 },
 "prepend_dim/tuple0": {
  "returns": {
   "tuple": [
    {
     "str": "'points'"
    }
   ]
  }
 },
 "prepend_dim/tuple3": {
  "returns": {
   "tuple": [
    {
     "str": "'points'"
    },
    {
     "str": "'x'"
    },
    {
     "list": [
      {
       "int": "1"
      }
     ]
    },
    {
     "dict": []
    }
   ]
  }
 },
 "prepend_dim/namedtuple": {
  "returns": {
   "tuple": [
    {
     "str": "'points'"
    },
    {
     "list": [
      {
       "int": "1"
      }
     ]
    },
    {
     "dict": [
      [
       {
        "str": "'a'"
       },
       {
        "int": "1"
       }
      ]
     ]
    }
   ]
  }
 },
 "prepend_dim/empty_dict": {
  "returns": {
   "dict": []
  }
 },
 "prepend_dim/flat_dict": {
  "returns": {
   "dict": [
    [
     {
      "str": "'b'"
     },
     {
      "tuple": [
       {
        "str": "'d'"
       },
       {
        "list": [
         {
          "int": "1"
         }
        ]
       },
       {
        "dict": []
       }
      ]
     }
    ],
    [
     {
      "str": "'a'"
     },
     {
      "tuple": [
       {
        "str": "'d'"
       },
       {
        "list": [
         {
          "int": "2"
         }
        ]
       },
       {
        "dict": [
         [
          {
           "str": "'k'"
          },
          {
           "str": "'v'"
          }
         ]
        ]
       }
      ]
     }
    ],
    [
     {
      "str": "'c'"
     },
     {
      "tuple": [
       {
        "str": "'d'"
       },
       {
        "int": "3"
       },
       {
        "dict": []
       }
      ]
     }
    ]
   ]
  }
 },
 "prepend_dim/nested_dict": {
  "returns": {
   "dict": [
    [
     {
      "str": "'z'"
     },
     {
      "dict": [
       [
        {
         "str": "'b'"
        },
        {
         "tuple": [
          {
           "str": "'d'"
          },
          {
           "list": [
            {
             "int": "1"
            }
           ]
          },
          {
           "dict": []
          }
         ]
        }
       ],
       [
        {
         "str": "'a'"
        },
        {
         "tuple": [
          {
           "str": "'d'"
          },
          {
           "list": [
            {
             "int": "2"
            }
           ]
          },
          {
           "dict": [
            [
             {
              "str": "'k'"
             },
             {
              "str": "'v'"
             }
            ]
           ]
          }
         ]
        }
       ],
       [
        {
         "str": "'inner'"
        },
        {
         "dict": [
          [
           {
            "str": "'deep'"
           },
           {
            "dict": [
             [
              {
               "str": "'deeper'"
              },
              {
               "tuple": [
                {
                 "str": "'d'"
                },
                {
                 "int": "1"
                },
                {
                 "dict": []
                }
               ]
              }
             ]
            ]
           }
          ],
          [
           {
            "str": "'e'"
           },
           {
            "dict": []
           }
          ]
         ]
        }
       ]
      ]
     }
    ],
    [
     {
      "str": "'y'"
     },
     {
      "tuple": [
       {
        "str": "'d'"
       },
       {
        "int": "5"
       },
       {
        "dict": []
       }
      ]
     }
    ],
    [
     {
      "str": "'x'"
     },
     {
      "dict": [
       [
        {
         "str": "'q'"
        },
        {
         "tuple": [
          {
           "str": "'d'"
          },
          {
           "tuple": []
          },
          {
           "dict": []
          }
         ]
        }
       ],
       [
        {
         "str": "'p'"
        },
        {
         "dict": [
          [
           {
            "str": "'o'"
           },
           {
            "tuple": [
             {
              "str": "'d'"
             },
             {
              "NoneType": "None"
             },
             {
              "dict": []
             }
            ]
           }
          ]
         ]
        }
       ]
      ]
     }
    ],
    [
     {
      "str": "'w'"
     },
     {
      "dict": []
     }
    ]
   ]
  }
 },
 "prepend_dim/ordered_dict": {
  "returns": {
   "dict": [
    [
     {
      "str": "'b'"
     },
     {
      "dict": [
       [
        {
         "str": "'n'"
        },
        {
         "tuple": [
          {
           "str": "'d'"
          },
          {
           "int": "1"
          },
          {
           "dict": []
          }
         ]
        }
       ],
       [
        {
         "str": "'m'"
        },
        {
         "tuple": [
          {
           "str": "'d'"
          },
          {
           "int": "2"
          },
          {
           "dict": []
          }
         ]
        }
       ]
      ]
     }
    ],
    [
     {
      "str": "'a'"
     },
     {
      "tuple": [
       {
        "str": "'d'"
       },
       {
        "int": "1"
       },
       {
        "dict": []
       }
      ]
     }
    ]
   ]
  }
 },
 "prepend_dim/shared_subdict": {
  "returns": {
   "dict": [
    [
     {
      "str": "'first'"
     },
     {
      "dict": [
       [
        {
         "str": "'x'"
        },
        {
         "tuple": [
          {
           "str": "'d'"
          },
          {
           "int": "1"
          },
          {
           "dict": []
          }
         ]
        }
       ],
       [
        {
         "str": "'y'"
        },
        {
         "tuple": [
          {
           "str": "'d'"
          },
          {
           "int": "2"
          },
          {
           "dict": [
            [
             {
              "str": "'u'"
             },
             {
              "str": "'m'"
             }
            ]
           ]
          }
         ]
        }
       ]
      ]
     }
    ],
    [
     {
      "str": "'second'"
     },
     {
      "dict": [
       [
        {
         "str": "'x'"
        },
        {
         "tuple": [
          {
           "str": "'d'"
          },
          {
           "int": "1"
          },
          {
           "dict": []
          }
         ]
        }
       ],
       [
        {
         "str": "'y'"
        },
        {
         "tuple": [
          {
           "str": "'d'"
          },
          {
           "int": "2"
          },
          {
           "dict": [
            [
             {
              "str": "'u'"
             },
             {
              "str": "'m'"
             }
            ]
           ]
          }
         ]
        }
       ]
      ]
     }
    ],
    [
     {
      "str": "'third'"
     },
     {
      "dict": [
       [
        {
         "str": "'again'"
        },
        {
         "dict": [
          [
           {
            "str": "'x'"
           },
           {
            "tuple": [
             {
              "str": "'d'"
             },
             {
              "int": "1"
             },
             {
              "dict": []
             }
            ]
           }
          ],
          [
           {
            "str": "'y'"
           },
           {
            "tuple": [
             {
              "str": "'d'"
             },
             {
              "int": "2"
             },
             {
              "dict": [
               [
                {
                 "str": "'u'"
                },
                {
                 "str": "'m'"
                }
               ]
              ]
             }
            ]
           }
          ]
         ]
        }
       ]
      ]
     }
    ]
   ]
  }
 },
 "prepend_dim/dim_list": {
  "returns": {
   "dict": [
    [
     {
      "str": "'v'"
     },
     {
      "tuple": [
       {
        "list": [
         {
          "str": "'a'"
         },
         {
          "str": "'b'"
         }
        ]
       },
       {
        "int": "1"
       },
       {
        "dict": []
       }
      ]
     }
    ],
    [
     {
      "str": "'g'"
     },
     {
      "dict": [
       [
        {
         "str": "'w'"
        },
        {
         "tuple": [
          {
           "list": [
            {
             "str": "'a'"
            },
            {
             "str": "'b'"
            }
           ]
          },
          {
           "int": "2"
          },
          {
           "dict": []
          }
         ]
        }
       ]
      ]
     }
    ]
   ]
  }
 },
 "prepend_dim/dim_none": {
  "returns": {
   "dict": [
    [
     {
      "str": "'v'"
     },
     {
      "tuple": [
       {
        "NoneType": "None"
       },
       {
        "int": "1"
       },
       {
        "dict": []
       }
      ]
     }
    ]
   ]
  }
 },
 "prepend_dim/non_str_keys": {
  "returns": {
   "dict": [
    [
     {
      "int": "1"
     },
     {
      "tuple": [
       {
        "str": "'d'"
       },
       {
        "int": "2"
       },
       {
        "dict": []
       }
      ]
     }
    ],
    [
     {
      "tuple": [
       {
        "int": "3"
       },
       {
        "int": "4"
       }
      ]
     },
     {
      "dict": [
       [
        {
         "NoneType": "None"
        },
        {
         "tuple": [
          {
           "str": "'d'"
          },
          {
           "int": "5"
          },
          {
           "dict": []
          }
         ]
        }
       ]
      ]
     }
    ]
   ]
  }
 },
 "transform_section/empty": {
  "returns": {
   "dict": []
  }
 },
 "transform_section/full": {
  "returns": {
   "dict": [
    [
     {
      "str": "'pitch_error'"
     },
     {
      "list": [
       {
        "bool": "False"
       },
       {
        "bool": "True"
       },
       {
        "bool": "True"
       }
      ]
     }
    ],
    [
     {
      "str": "'roll_error'"
     },
     {
      "list": [
       {
        "bool": "True"
       },
       {
        "bool": "False"
       },
       {
        "bool": "True"
       }
      ]
     }
    ],
    [
     {
      "str": "'yaw_error'"
     },
     {
      "list": [
       {
        "bool": "False"
       },
       {
        "bool": "False"
       },
       {
        "bool": "False"
       }
      ]
     }
    ],
    [
     {
      "str": "'pitch'"
     },
     {
      "tuple": [
       {
        "list": [
         {
          "float": "1.5"
         },
         {
          "float": "2.5"
         }
        ]
       },
       {
        "dict": [
         [
          {
           "str": "'units'"
          },
          {
           "str": "'deg'"
          }
         ]
        ]
       }
      ]
     }
    ],
    [
     {
      "str": "'roll'"
     },
     {
      "tuple": [
       {
        "list": [
         {
          "float": "0.0"
         }
        ]
       },
       {
        "dict": [
         [
          {
           "str": "'units'"
          },
          {
           "str": "'deg'"
          }
         ]
        ]
       }
      ]
     }
    ],
    [
     {
      "str": "'yaw'"
     },
     {
      "tuple": [
       {
        "list": [
         {
          "float": "1.0"
         },
         {
          "float": "2.0"
         }
        ]
       },
       {
        "dict": []
       }
      ]
     }
    ]
   ]
  }
 },
 "transform_section/reordered_partial": {
  "returns": {
   "dict": [
    [
     {
      "str": "'yaw'"
     },
     {
      "tuple": [
       {
        "list": []
       },
       {
        "dict": []
       }
      ]
     }
    ],
    [
     {
      "str": "'other'"
     },
     {
      "list": [
       {
        "int": "1"
       },
       {
        "int": "2"
       }
      ]
     }
    ],
    [
     {
      "str": "'roll_error'"
     },
     {
      "list": []
     }
    ]
   ]
  }
 },
 "transform_section/unknown_only": {
  "returns": {
   "dict": [
    [
     {
      "str": "'a'"
     },
     {
      "int": "1"
     }
    ],
    [
     {
      "str": "'b'"
     },
     {
      "list": [
       {
        "tuple": [
         {
          "int": "1"
         },
         {
          "dict": []
         }
        ]
       }
      ]
     }
    ]
   ]
  }
 },
 "transform_section/flags_from_strings": {
  "returns": {
   "dict": [
    [
     {
      "str": "'pitch_error'"
     },
     {
      "list": [
       {
        "bool": "False"
       },
       {
        "bool": "True"
       }
      ]
     }
    ],
    [
     {
      "str": "'yaw_error'"
     },
     {
      "list": [
       {
        "bool": "True"
       },
       {
        "bool": "True"
       }
      ]
     }
    ]
   ]
  }
 },
 "transform_section/flags_from_tuple": {
  "returns": {
   "dict": [
    [
     {
      "str": "'pitch_error'"
     },
     {
      "list": [
       {
        "bool": "False"
       },
       {
        "bool": "True"
       }
      ]
     }
    ]
   ]
  }
 },
 "transform_section/flags_from_generator": {
  "returns": {
   "dict": [
    [
     {
      "str": "'roll_error'"
     },
     {
      "list": [
       {
        "bool": "False"
       },
       {
        "bool": "True"
       }
      ]
     }
    ]
   ]
  }
 },
 "transform_section/flags_from_array": {
  "returns": {
   "dict": [
    [
     {
      "str": "'roll_error'"
     },
     {
      "list": [
       {
        "bool": "False"
       },
       {
        "bool": "True"
       },
       {
        "bool": "False"
       }
      ]
     }
    ]
   ]
  }
 },
 "transform_section/flags_from_dict": {
  "returns": {
   "dict": [
    [
     {
      "str": "'roll_error'"
     },
     {
      "list": [
       {
        "bool": "False"
       },
       {
        "bool": "True"
       }
      ]
     }
    ]
   ]
  }
 },
 "transform_section/bad:flags_scalar": {
  "raises": [
   "TypeError",
   "'int' object is not iterable"
  ]
 },
 "transform_section/bad:flags_none": {
  "raises": [
   "TypeError",
   "'NoneType' object is not iterable"
  ]
 },
 "transform_section/angles_scalar": {
  "returns": {
   "dict": [
    [
     {
      "str": "'pitch'"
     },
     {
      "tuple": [
       {
        "float": "1.0"
       },
       {
        "dict": []
       }
      ]
     }
    ],
    [
     {
      "str": "'roll'"
     },
     {
      "tuple": [
       {
        "NoneType": "None"
       },
       {
        "dict": []
       }
      ]
     }
    ],
    [
     {
      "str": "'yaw'"
     },
     {
      "tuple": [
       {
        "str": "'abc'"
       },
       {
        "dict": []
       }
      ]
     }
    ]
   ]
  }
 },
 "transform_section/angles_mixed_attrs": {
  "returns": {
   "dict": [
    [
     {
      "str": "'pitch'"
     },
     {
      "tuple": [
       {
        "list": [
         {
          "float": "1.0"
         },
         {
          "float": "2.0"
         }
        ]
       },
       {
        "dict": [
         [
          {
           "str": "'units'"
          },
          {
           "str": "'deg'"
          }
         ]
        ]
       }
      ]
     }
    ]
   ]
  }
 },
 "transform_section/bad:angles_uneven": {
  "raises": [
   "ValueError",
   "not enough values to unpack (expected 2, got 1)"
  ]
 },
 "transform_section/bad:mapping_none": {
  "raises": [
   "AttributeError",
   "'NoneType' object has no attribute 'items'"
  ]
 },
 "transform_section/bad:mapping_list": {
  "raises": [
   "AttributeError",
   "'list' object has no attribute 'items'"
  ]
 },
 "transform_time/lists": {
  "returns": {
   "ndarray": [
    "timedelta64[ns]",
    [
     3
    ],
    "[86400000000000, 259199999000000, 31622400005000000]"
   ]
  }
 },
 "transform_time/scalars": {
  "returns": {
   "timedelta64": "np.timedelta64(259200004000000,'ns')"
  }
 },
 "transform_time/empty": {
  "returns": {
   "ndarray": [
    "timedelta64[ns]",
    [
     0
    ],
    "[]"
   ]
  }
 },
 "transform_time/bad:unknown": {
  "raises": [
   "KeyError",
   "'x'"
  ]
 },
 "transform_attitude/four_points": {
  "returns": {
   "Group": [
    "/",
    null,
    {
     "dict": [
      [
       {
        "str": "'attitude'"
       },
       {
        "Group": [
         "/attitude",
         null,
         {
          "dict": [
           [
            {
             "str": "'pitch_error'"
            },
            {
             "Variable": [
              {
               "list": [
                {
                 "str": "'points'"
                }
               ]
              },
              {
               "list": [
                {
                 "bool": "False"
                },
                {
                 "bool": "True"
                },
                {
                 "bool": "False"
                },
                {
                 "bool": "True"
                }
               ]
              },
              {
               "dict": []
              }
             ]
            }
           ],
           [
            {
             "str": "'roll_error'"
            },
            {
             "Variable": [
              {
               "list": [
                {
                 "str": "'points'"
                }
               ]
              },
              {
               "list": [
                {
                 "bool": "False"
                },
                {
                 "bool": "False"
                },
                {
                 "bool": "False"
                },
                {
                 "bool": "False"
                }
               ]
              },
              {
               "dict": []
              }
             ]
            }
           ],
           [
            {
             "str": "'yaw_error'"
            },
            {
             "Variable": [
              {
               "list": [
                {
                 "str": "'points'"
                }
               ]
              },
              {
               "list": [
                {
                 "bool": "True"
                },
                {
                 "bool": "True"
                },
                {
                 "bool": "True"
                },
                {
                 "bool": "True"
                }
               ]
              },
              {
               "dict": []
              }
             ]
            }
           ],
           [
            {
             "str": "'pitch'"
            },
            {
             "Variable": [
              {
               "list": [
                {
                 "str": "'points'"
                }
               ]
              },
              {
               "list": [
                {
                 "float": "0.0"
                },
                {
                 "float": "0.5"
                },
                {
                 "float": "1.0"
                },
                {
                 "float": "1.5"
                }
               ]
              },
              {
               "dict": [
                [
                 {
                  "str": "'units'"
                 },
                 {
                  "str": "'deg'"
                 }
                ]
               ]
              }
             ]
            }
           ],
           [
            {
             "str": "'roll'"
            },
            {
             "Variable": [
              {
               "list": [
                {
                 "str": "'points'"
                }
               ]
              },
              {
               "list": [
                {
                 "float": "-0.0"
                },
                {
                 "float": "-1.25"
                },
                {
                 "float": "-2.5"
                },
                {
                 "float": "-3.75"
                }
               ]
              },
              {
               "dict": [
                [
                 {
                  "str": "'units'"
                 },
                 {
                  "str": "'deg'"
                 }
                ]
               ]
              }
             ]
            }
           ],
           [
            {
             "str": "'yaw'"
            },
            {
             "Variable": [
              {
               "list": [
                {
                 "str": "'points'"
                }
               ]
              },
              {
               "list": [
                {
                 "float": "3.0"
                },
                {
                 "float": "nan"
                },
                {
                 "float": "3.0"
                },
                {
                 "float": "3.0"
                }
               ]
              },
              {
               "dict": [
                [
                 {
                  "str": "'units'"
                 },
                 {
                  "str": "'deg'"
                 }
                ]
               ]
              }
             ]
            }
           ],
           [
            {
             "str": "'time'"
            },
            {
             "Variable": [
              {
               "list": [
                {
                 "str": "'points'"
                }
               ]
              },
              {
               "ndarray": [
                "timedelta64[ns]",
                [
                 4
                ],
                "[86400007000000, 172801007000000, 259202007000000, 345603007000000]"
               ]
              },
              {
               "dict": []
              }
             ]
            }
           ]
          ]
         },
         {
          "dict": [
           [
            {
             "str": "'coordinates'"
            },
            {
             "list": [
              {
               "str": "'time'"
              }
             ]
            }
           ]
          ]
         }
        ]
       }
      ],
      [
       {
        "str": "'rates'"
       },
       {
        "Group": [
         "/rates",
         null,
         {
          "dict": [
           [
            {
             "str": "'pitch_error'"
            },
            {
             "Variable": [
              {
               "list": [
                {
                 "str": "'points'"
                }
               ]
              },
              {
               "list": [
                {
                 "bool": "False"
                },
                {
                 "bool": "False"
                },
                {
                 "bool": "False"
                },
                {
                 "bool": "False"
                }
               ]
              },
              {
               "dict": []
              }
             ]
            }
           ],
           [
            {
             "str": "'roll_error'"
            },
            {
             "Variable": [
              {
               "list": [
                {
                 "str": "'points'"
                }
               ]
              },
              {
               "list": [
                {
                 "bool": "False"
                },
                {
                 "bool": "True"
                },
                {
                 "bool": "True"
                },
                {
                 "bool": "True"
                }
               ]
              },
              {
               "dict": []
              }
             ]
            }
           ],
           [
            {
             "str": "'yaw_error'"
            },
            {
             "Variable": [
              {
               "list": [
                {
                 "str": "'points'"
                }
               ]
              },
              {
               "list": [
                {
                 "bool": "False"
                },
                {
                 "bool": "False"
                },
                {
                 "bool": "False"
                },
                {
                 "bool": "False"
                }
               ]
              },
              {
               "dict": []
              }
             ]
            }
           ],
           [
            {
             "str": "'pitch'"
            },
            {
             "Variable": [
              {
               "list": [
                {
                 "str": "'points'"
                }
               ]
              },
              {
               "list": [
                {
                 "float": "0.0"
                },
                {
                 "float": "0.001"
                },
                {
                 "float": "0.002"
                },
                {
                 "float": "0.003"
                }
               ]
              },
              {
               "dict": [
                [
                 {
                  "str": "'units'"
                 },
                 {
                  "str": "'deg/s'"
                 }
                ]
               ]
              }
             ]
            }
           ],
           [
            {
             "str": "'roll'"
            },
            {
             "Variable": [
              {
               "list": [
                {
                 "str": "'points'"
                }
               ]
              },
              {
               "list": [
                {
                 "float": "0.0"
                },
                {
                 "float": "0.0"
                },
                {
                 "float": "0.0"
                },
                {
                 "float": "0.0"
                }
               ]
              },
              {
               "dict": [
                [
                 {
                  "str": "'units'"
                 },
                 {
                  "str": "'deg/s'"
                 }
                ]
               ]
              }
             ]
            }
           ],
           [
            {
             "str": "'yaw'"
            },
            {
             "Variable": [
              {
               "list": [
                {
                 "str": "'points'"
                }
               ]
              },
              {
               "list": [
                {
                 "float": "-0.002"
                },
                {
                 "float": "-0.002"
                },
                {
                 "float": "-0.002"
                },
                {
                 "float": "-0.002"
                }
               ]
              },
              {
               "dict": [
                [
                 {
                  "str": "'units'"
                 },
                 {
                  "str": "'deg/s'"
                 }
                ]
               ]
              }
             ]
            }
           ],
           [
            {
             "str": "'time'"
            },
            {
             "Variable": [
              {
               "list": [
                {
                 "str": "'points'"
                }
               ]
              },
              {
               "ndarray": [
                "timedelta64[ns]",
                [
                 4
                ],
                "[86400007000000, 172801007000000, 259202007000000, 345603007000000]"
               ]
              },
              {
               "dict": []
              }
             ]
            }
           ]
          ]
         },
         {
          "dict": [
           [
            {
             "str": "'coordinates'"
            },
            {
             "list": [
              {
               "str": "'time'"
              }
             ]
            }
           ]
          ]
         }
        ]
       }
      ]
     ]
    },
    {
     "dict": []
    }
   ]
  }
 },
 "transform_attitude/single_point": {
  "returns": {
   "Group": [
    "/",
    null,
    {
     "dict": [
      [
       {
        "str": "'attitude'"
       },
       {
        "Group": [
         "/attitude",
         null,
         {
          "dict": [
           [
            {
             "str": "'pitch_error'"
            },
            {
             "Variable": [
              {
               "list": [
                {
                 "str": "'points'"
                }
               ]
              },
              {
               "list": [
                {
                 "bool": "False"
                }
               ]
              },
              {
               "dict": []
              }
             ]
            }
           ],
           [
            {
             "str": "'roll_error'"
            },
            {
             "Variable": [
              {
               "list": [
                {
                 "str": "'points'"
                }
               ]
              },
              {
               "list": [
                {
                 "bool": "False"
                }
               ]
              },
              {
               "dict": []
              }
             ]
            }
           ],
           [
            {
             "str": "'yaw_error'"
            },
            {
             "Variable": [
              {
               "list": [
                {
                 "str": "'points'"
                }
               ]
              },
              {
               "list": [
                {
                 "bool": "True"
                }
               ]
              },
              {
               "dict": []
              }
             ]
            }
           ],
           [
            {
             "str": "'pitch'"
            },
            {
             "Variable": [
              {
               "list": [
                {
                 "str": "'points'"
                }
               ]
              },
              {
               "list": [
                {
                 "float": "0.0"
                }
               ]
              },
              {
               "dict": [
                [
                 {
                  "str": "'units'"
                 },
                 {
                  "str": "'deg'"
                 }
                ]
               ]
              }
             ]
            }
           ],
           [
            {
             "str": "'roll'"
            },
            {
             "Variable": [
              {
               "list": [
                {
                 "str": "'points'"
                }
               ]
              },
              {
               "list": [
                {
                 "float": "-0.0"
                }
               ]
              },
              {
               "dict": [
                [
                 {
                  "str": "'units'"
                 },
                 {
                  "str": "'deg'"
                 }
                ]
               ]
              }
             ]
            }
           ],
           [
            {
             "str": "'yaw'"
            },
            {
             "Variable": [
              {
               "list": [
                {
                 "str": "'points'"
                }
               ]
              },
              {
               "list": [
                {
                 "float": "3.0"
                }
               ]
              },
              {
               "dict": [
                [
                 {
                  "str": "'units'"
                 },
                 {
                  "str": "'deg'"
                 }
                ]
               ]
              }
             ]
            }
           ],
           [
            {
             "str": "'time'"
            },
            {
             "Variable": [
              {
               "list": [
                {
                 "str": "'points'"
                }
               ]
              },
              {
               "ndarray": [
                "timedelta64[ns]",
                [
                 1
                ],
                "[86400007000000]"
               ]
              },
              {
               "dict": []
              }
             ]
            }
           ]
          ]
         },
         {
          "dict": [
           [
            {
             "str": "'coordinates'"
            },
            {
             "list": [
              {
               "str": "'time'"
              }
             ]
            }
           ]
          ]
         }
        ]
       }
      ],
      [
       {
        "str": "'rates'"
       },
       {
        "Group": [
         "/rates",
         null,
         {
          "dict": [
           [
            {
             "str": "'pitch_error'"
            },
            {
             "Variable": [
              {
               "list": [
                {
                 "str": "'points'"
                }
               ]
              },
              {
               "list": [
                {
                 "bool": "False"
                }
               ]
              },
              {
               "dict": []
              }
             ]
            }
           ],
           [
            {
             "str": "'roll_error'"
            },
            {
             "Variable": [
              {
               "list": [
                {
                 "str": "'points'"
                }
               ]
              },
              {
               "list": [
                {
                 "bool": "False"
                }
               ]
              },
              {
               "dict": []
              }
             ]
            }
           ],
           [
            {
             "str": "'yaw_error'"
            },
            {
             "Variable": [
              {
               "list": [
                {
                 "str": "'points'"
                }
               ]
              },
              {
               "list": [
                {
                 "bool": "False"
                }
               ]
              },
              {
               "dict": []
              }
             ]
            }
           ],
           [
            {
             "str": "'pitch'"
            },
            {
             "Variable": [
              {
               "list": [
                {
                 "str": "'points'"
                }
               ]
              },
              {
               "list": [
                {
                 "float": "0.0"
                }
               ]
              },
              {
               "dict": [
                [
                 {
                  "str": "'units'"
                 },
                 {
                  "str": "'deg/s'"
                 }
                ]
               ]
              }
             ]
            }
           ],
           [
            {
             "str": "'roll'"
            },
            {
             "Variable": [
              {
               "list": [
                {
                 "str": "'points'"
                }
               ]
              },
              {
               "list": [
                {
                 "float": "0.0"
                }
               ]
              },
              {
               "dict": [
                [
                 {
                  "str": "'units'"
                 },
                 {
                  "str": "'deg/s'"
                 }
                ]
               ]
              }
             ]
            }
           ],
           [
            {
             "str": "'yaw'"
            },
            {
             "Variable": [
              {
               "list": [
                {
                 "str": "'points'"
                }
               ]
              },
              {
               "list": [
                {
                 "float": "-0.002"
                }
               ]
              },
              {
               "dict": [
                [
                 {
                  "str": "'units'"
                 },
                 {
                  "str": "'deg/s'"
                 }
                ]
               ]
              }
             ]
            }
           ],
           [
            {
             "str": "'time'"
            },
            {
             "Variable": [
              {
               "list": [
                {
                 "str": "'points'"
                }
               ]
              },
              {
               "ndarray": [
                "timedelta64[ns]",
                [
                 1
                ],
                "[86400007000000]"
               ]
              },
              {
               "dict": []
              }
             ]
            }
           ]
          ]
         },
         {
          "dict": [
           [
            {
             "str": "'coordinates'"
            },
            {
             "list": [
              {
               "str": "'time'"
              }
             ]
            }
           ]
          ]
         }
        ]
       }
      ]
     ]
    },
    {
     "dict": []
    }
   ]
  }
 },
 "transform_attitude/extra_record_fields": {
  "returns": {
   "Group": [
    "/",
    null,
    {
     "dict": [
      [
       {
        "str": "'attitude'"
       },
       {
        "Group": [
         "/attitude",
         null,
         {
          "dict": [
           [
            {
             "str": "'pitch_error'"
            },
            {
             "Variable": [
              {
               "list": [
                {
                 "str": "'points'"
                }
               ]
              },
              {
               "list": [
                {
                 "bool": "False"
                },
                {
                 "bool": "True"
                },
                {
                 "bool": "False"
                },
                {
                 "bool": "True"
                }
               ]
              },
              {
               "dict": []
              }
             ]
            }
           ],
           [
            {
             "str": "'roll_error'"
            },
            {
             "Variable": [
              {
               "list": [
                {
                 "str": "'points'"
                }
               ]
              },
              {
               "list": [
                {
                 "bool": "False"
                },
                {
                 "bool": "False"
                },
                {
                 "bool": "False"
                },
                {
                 "bool": "False"
                }
               ]
              },
              {
               "dict": []
              }
             ]
            }
           ],
           [
            {
             "str": "'yaw_error'"
            },
            {
             "Variable": [
              {
               "list": [
                {
                 "str": "'points'"
                }
               ]
              },
              {
               "list": [
                {
                 "bool": "True"
                },
                {
                 "bool": "True"
                },
                {
                 "bool": "True"
                },
                {
                 "bool": "True"
                }
               ]
              },
              {
               "dict": []
              }
             ]
            }
           ],
           [
            {
             "str": "'pitch'"
            },
            {
             "Variable": [
              {
               "list": [
                {
                 "str": "'points'"
                }
               ]
              },
              {
               "list": [
                {
                 "float": "0.0"
                },
                {
                 "float": "0.5"
                },
                {
                 "float": "1.0"
                },
                {
                 "float": "1.5"
                }
               ]
              },
              {
               "dict": [
                [
                 {
                  "str": "'units'"
                 },
                 {
                  "str": "'deg'"
                 }
                ]
               ]
              }
             ]
            }
           ],
           [
            {
             "str": "'roll'"
            },
            {
             "Variable": [
              {
               "list": [
                {
                 "str": "'points'"
                }
               ]
              },
              {
               "list": [
                {
                 "float": "-0.0"
                },
                {
                 "float": "-1.25"
                },
                {
                 "float": "-2.5"
                },
                {
                 "float": "-3.75"
                }
               ]
              },
              {
               "dict": [
                [
                 {
                  "str": "'units'"
                 },
                 {
                  "str": "'deg'"
                 }
                ]
               ]
              }
             ]
            }
           ],
           [
            {
             "str": "'yaw'"
            },
            {
             "Variable": [
              {
               "list": [
                {
                 "str": "'points'"
                }
               ]
              },
              {
               "list": [
                {
                 "float": "3.0"
                },
                {
                 "float": "nan"
                },
                {
                 "float": "3.0"
                },
                {
                 "float": "3.0"
                }
               ]
              },
              {
               "dict": [
                [
                 {
                  "str": "'units'"
                 },
                 {
                  "str": "'deg'"
                 }
                ]
               ]
              }
             ]
            }
           ],
           [
            {
             "str": "'time'"
            },
            {
             "Variable": [
              {
               "list": [
                {
                 "str": "'points'"
                }
               ]
              },
              {
               "ndarray": [
                "timedelta64[ns]",
                [
                 4
                ],
                "[86400007000000, 172801007000000, 259202007000000, 345603007000000]"
               ]
              },
              {
               "dict": []
              }
             ]
            }
           ]
          ]
         },
         {
          "dict": [
           [
            {
             "str": "'coordinates'"
            },
            {
             "list": [
              {
               "str": "'time'"
              }
             ]
            }
           ]
          ]
         }
        ]
       }
      ],
      [
       {
        "str": "'rates'"
       },
       {
        "Group": [
         "/rates",
         null,
         {
          "dict": [
           [
            {
             "str": "'pitch_error'"
            },
            {
             "Variable": [
              {
               "list": [
                {
                 "str": "'points'"
                }
               ]
              },
              {
               "list": [
                {
                 "bool": "False"
                },
                {
                 "bool": "False"
                },
                {
                 "bool": "False"
                },
                {
                 "bool": "False"
                }
               ]
              },
              {
               "dict": []
              }
             ]
            }
           ],
           [
            {
             "str": "'roll_error'"
            },
            {
             "Variable": [
              {
               "list": [
                {
                 "str": "'points'"
                }
               ]
              },
              {
               "list": [
                {
                 "bool": "False"
                },
                {
                 "bool": "True"
                },
                {
                 "bool": "True"
                },
                {
                 "bool": "True"
                }
               ]
              },
              {
               "dict": []
              }
             ]
            }
           ],
           [
            {
             "str": "'yaw_error'"
            },
            {
             "Variable": [
              {
               "list": [
                {
                 "str": "'points'"
                }
               ]
              },
              {
               "list": [
                {
                 "bool": "False"
                },
                {
                 "bool": "False"
                },
                {
                 "bool": "False"
                },
                {
                 "bool": "False"
                }
               ]
              },
              {
               "dict": []
              }
             ]
            }
           ],
           [
            {
             "str": "'pitch'"
            },
            {
             "Variable": [
              {
               "list": [
                {
                 "str": "'points'"
                }
               ]
              },
              {
               "list": [
                {
                 "float": "0.0"
                },
                {
                 "float": "0.001"
                },
                {
                 "float": "0.002"
                },
                {
                 "float": "0.003"
                }
               ]
              },
              {
               "dict": [
                [
                 {
                  "str": "'units'"
                 },
                 {
                  "str": "'deg/s'"
                 }
                ]
               ]
              }
             ]
            }
           ],
           [
            {
             "str": "'roll'"
            },
            {
             "Variable": [
              {
               "list": [
                {
                 "str": "'points'"
                }
               ]
              },
              {
               "list": [
                {
                 "float": "0.0"
                },
                {
                 "float": "0.0"
                },
                {
                 "float": "0.0"
                },
                {
                 "float": "0.0"
                }
               ]
              },
              {
               "dict": [
                [
                 {
                  "str": "'units'"
                 },
                 {
                  "str": "'deg/s'"
                 }
                ]
               ]
              }
             ]
            }
           ],
           [
            {
             "str": "'yaw'"
            },
            {
             "Variable": [
              {
               "list": [
                {
                 "str": "'points'"
                }
               ]
              },
              {
               "list": [
                {
                 "float": "-0.002"
                },
                {
                 "float": "-0.002"
                },
                {
                 "float": "-0.002"
                },
                {
                 "float": "-0.002"
                }
               ]
              },
              {
               "dict": [
                [
                 {
                  "str": "'units'"
                 },
                 {
                  "str": "'deg/s'"
                 }
                ]
               ]
              }
             ]
            }
           ],
           [
            {
             "str": "'time'"
            },
            {
             "Variable": [
              {
               "list": [
                {
                 "str": "'points'"
                }
               ]
              },
              {
               "ndarray": [
                "timedelta64[ns]",
                [
                 4
                ],
                "[86400007000000, 172801007000000, 259202007000000, 345603007000000]"
               ]
              },
              {
               "dict": []
              }
             ]
            }
           ]
          ]
         },
         {
          "dict": [
           [
            {
             "str": "'coordinates'"
            },
            {
             "list": [
              {
               "str": "'time'"
              }
             ]
            }
           ]
          ]
         }
        ]
       }
      ]
     ]
    },
    {
     "dict": []
    }
   ]
  }
 },
 "transform_attitude/no_rates": {
  "returns": {
   "Group": [
    "/",
    null,
    {
     "dict": [
      [
       {
        "str": "'attitude'"
       },
       {
        "Group": [
         "/attitude",
         null,
         {
          "dict": [
           [
            {
             "str": "'pitch_error'"
            },
            {
             "Variable": [
              {
               "list": [
                {
                 "str": "'points'"
                }
               ]
              },
              {
               "list": [
                {
                 "bool": "False"
                },
                {
                 "bool": "True"
                },
                {
                 "bool": "False"
                },
                {
                 "bool": "True"
                }
               ]
              },
              {
               "dict": []
              }
             ]
            }
           ],
           [
            {
             "str": "'roll_error'"
            },
            {
             "Variable": [
              {
               "list": [
                {
                 "str": "'points'"
                }
               ]
              },
              {
               "list": [
                {
                 "bool": "False"
                },
                {
                 "bool": "False"
                },
                {
                 "bool": "False"
                },
                {
                 "bool": "False"
                }
               ]
              },
              {
               "dict": []
              }
             ]
            }
           ],
           [
            {
             "str": "'yaw_error'"
            },
            {
             "Variable": [
              {
               "list": [
                {
                 "str": "'points'"
                }
               ]
              },
              {
               "list": [
                {
                 "bool": "True"
                },
                {
                 "bool": "True"
                },
                {
                 "bool": "True"
                },
                {
                 "bool": "True"
                }
               ]
              },
              {
               "dict": []
              }
             ]
            }
           ],
           [
            {
             "str": "'pitch'"
            },
            {
             "Variable": [
              {
               "list": [
                {
                 "str": "'points'"
                }
               ]
              },
              {
               "list": [
                {
                 "float": "0.0"
                },
                {
                 "float": "0.5"
                },
                {
                 "float": "1.0"
                },
                {
                 "float": "1.5"
                }
               ]
              },
              {
               "dict": [
                [
                 {
                  "str": "'units'"
                 },
                 {
                  "str": "'deg'"
                 }
                ]
               ]
              }
             ]
            }
           ],
           [
            {
             "str": "'roll'"
            },
            {
             "Variable": [
              {
               "list": [
                {
                 "str": "'points'"
                }
               ]
              },
              {
               "list": [
                {
                 "float": "-0.0"
                },
                {
                 "float": "-1.25"
                },
                {
                 "float": "-2.5"
                },
                {
                 "float": "-3.75"
                }
               ]
              },
              {
               "dict": [
                [
                 {
                  "str": "'units'"
                 },
                 {
                  "str": "'deg'"
                 }
                ]
               ]
              }
             ]
            }
           ],
           [
            {
             "str": "'yaw'"
            },
            {
             "Variable": [
              {
               "list": [
                {
                 "str": "'points'"
                }
               ]
              },
              {
               "list": [
                {
                 "float": "3.0"
                },
                {
                 "float": "nan"
                },
                {
                 "float": "3.0"
                },
                {
                 "float": "3.0"
                }
               ]
              },
              {
               "dict": [
                [
                 {
                  "str": "'units'"
                 },
                 {
                  "str": "'deg'"
                 }
                ]
               ]
              }
             ]
            }
           ],
           [
            {
             "str": "'time'"
            },
            {
             "Variable": [
              {
               "list": [
                {
                 "str": "'points'"
                }
               ]
              },
              {
               "ndarray": [
                "timedelta64[ns]",
                [
                 4
                ],
                "[86400007000000, 172801007000000, 259202007000000, 345603007000000]"
               ]
              },
              {
               "dict": []
              }
             ]
            }
           ]
          ]
         },
         {
          "dict": [
           [
            {
             "str": "'coordinates'"
            },
            {
             "list": [
              {
               "str": "'time'"
              }
             ]
            }
           ]
          ]
         }
        ]
       }
      ],
      [
       {
        "str": "'rates'"
       },
       {
        "Group": [
         "/rates",
         null,
         {
          "dict": [
           [
            {
             "str": "'time'"
            },
            {
             "Variable": [
              {
               "list": [
                {
                 "str": "'points'"
                }
               ]
              },
              {
               "ndarray": [
                "timedelta64[ns]",
                [
                 4
                ],
                "[86400007000000, 172801007000000, 259202007000000, 345603007000000]"
               ]
              },
              {
               "dict": []
              }
             ]
            }
           ]
          ]
         },
         {
          "dict": [
           [
            {
             "str": "'coordinates'"
            },
            {
             "list": [
              {
               "str": "'time'"
              }
             ]
            }
           ]
          ]
         }
        ]
       }
      ]
     ]
    },
    {
     "dict": []
    }
   ]
  }
 },
 "transform_attitude/no_time": {
  "returns": {
   "Group": [
    "/",
    null,
    {
     "dict": [
      [
       {
        "str": "'attitude'"
       },
       {
        "Group": [
         "/attitude",
         null,
         {
          "dict": [
           [
            {
             "str": "'pitch_error'"
            },
            {
             "Variable": [
              {
               "list": [
                {
                 "str": "'points'"
                }
               ]
              },
              {
               "list": [
                {
                 "bool": "False"
                },
                {
                 "bool": "True"
                },
                {
                 "bool": "False"
                },
                {
                 "bool": "True"
                }
               ]
              },
              {
               "dict": []
              }
             ]
            }
           ],
           [
            {
             "str": "'roll_error'"
            },
            {
             "Variable": [
              {
               "list": [
                {
                 "str": "'points'"
                }
               ]
              },
              {
               "list": [
                {
                 "bool": "False"
                },
                {
                 "bool": "False"
                },
                {
                 "bool": "False"
                },
                {
                 "bool": "False"
                }
               ]
              },
              {
               "dict": []
              }
             ]
            }
           ],
           [
            {
             "str": "'yaw_error'"
            },
            {
             "Variable": [
              {
               "list": [
                {
                 "str": "'points'"
                }
               ]
              },
              {
               "list": [
                {
                 "bool": "True"
                },
                {
                 "bool": "True"
                },
                {
                 "bool": "True"
                },
                {
                 "bool": "True"
                }
               ]
              },
              {
               "dict": []
              }
             ]
            }
           ],
           [
            {
             "str": "'pitch'"
            },
            {
             "Variable": [
              {
               "list": [
                {
                 "str": "'points'"
                }
               ]
              },
              {
               "list": [
                {
                 "float": "0.0"
                },
                {
                 "float": "0.5"
                },
                {
                 "float": "1.0"
                },
                {
                 "float": "1.5"
                }
               ]
              },
              {
               "dict": [
                [
                 {
                  "str": "'units'"
                 },
                 {
                  "str": "'deg'"
                 }
                ]
               ]
              }
             ]
            }
           ],
           [
            {
             "str": "'roll'"
            },
            {
             "Variable": [
              {
               "list": [
                {
                 "str": "'points'"
                }
               ]
              },
              {
               "list": [
                {
                 "float": "-0.0"
                },
                {
                 "float": "-1.25"
                },
                {
                 "float": "-2.5"
                },
                {
                 "float": "-3.75"
                }
               ]
              },
              {
               "dict": [
                [
                 {
                  "str": "'units'"
                 },
                 {
                  "str": "'deg'"
                 }
                ]
               ]
              }
             ]
            }
           ],
           [
            {
             "str": "'yaw'"
            },
            {
             "Variable": [
              {
               "list": [
                {
                 "str": "'points'"
                }
               ]
              },
              {
               "list": [
                {
                 "float": "3.0"
                },
                {
                 "float": "nan"
                },
                {
                 "float": "3.0"
                },
                {
                 "float": "3.0"
                }
               ]
              },
              {
               "dict": [
                [
                 {
                  "str": "'units'"
                 },
                 {
                  "str": "'deg'"
                 }
                ]
               ]
              }
             ]
            }
           ]
          ]
         },
         {
          "dict": [
           [
            {
             "str": "'coordinates'"
            },
            {
             "list": [
              {
               "str": "'time'"
              }
             ]
            }
           ]
          ]
         }
        ]
       }
      ],
      [
       {
        "str": "'rates'"
       },
       {
        "Group": [
         "/rates",
         null,
         {
          "dict": [
           [
            {
             "str": "'pitch_error'"
            },
            {
             "Variable": [
              {
               "list": [
                {
                 "str": "'points'"
                }
               ]
              },
              {
               "list": [
                {
                 "bool": "False"
                },
                {
                 "bool": "False"
                },
                {
                 "bool": "False"
                },
                {
                 "bool": "False"
                }
               ]
              },
              {
               "dict": []
              }
             ]
            }
           ],
           [
            {
             "str": "'roll_error'"
            },
            {
             "Variable": [
              {
               "list": [
                {
                 "str": "'points'"
                }
               ]
              },
              {
               "list": [
                {
                 "bool": "False"
                },
                {
                 "bool": "True"
                },
                {
                 "bool": "True"
                },
                {
                 "bool": "True"
                }
               ]
              },
              {
               "dict": []
              }
             ]
            }
           ],
           [
            {
             "str": "'yaw_error'"
            },
            {
             "Variable": [
              {
               "list": [
                {
                 "str": "'points'"
                }
               ]
              },
              {
               "list": [
                {
                 "bool": "False"
                },
                {
                 "bool": "False"
                },
                {
                 "bool": "False"
                },
                {
                 "bool": "False"
                }
               ]
              },
              {
               "dict": []
              }
             ]
            }
           ],
           [
            {
             "str": "'pitch'"
            },
            {
             "Variable": [
              {
               "list": [
                {
                 "str": "'points'"
                }
               ]
              },
              {
               "list": [
                {
                 "float": "0.0"
                },
                {
                 "float": "0.001"
                },
                {
                 "float": "0.002"
                },
                {
                 "float": "0.003"
                }
               ]
              },
              {
               "dict": [
                [
                 {
                  "str": "'units'"
                 },
                 {
                  "str": "'deg/s'"
                 }
                ]
               ]
              }
             ]
            }
           ],
           [
            {
             "str": "'roll'"
            },
            {
             "Variable": [
              {
               "list": [
                {
                 "str": "'points'"
                }
               ]
              },
              {
               "list": [
                {
                 "float": "0.0"
                },
                {
                 "float": "0.0"
                },
                {
                 "float": "0.0"
                },
                {
                 "float": "0.0"
                }
               ]
              },
              {
               "dict": [
                [
                 {
                  "str": "'units'"
                 },
                 {
                  "str": "'deg/s'"
                 }
                ]
               ]
              }
             ]
            }
           ],
           [
            {
             "str": "'yaw'"
            },
            {
             "Variable": [
              {
               "list": [
                {
                 "str": "'points'"
                }
               ]
              },
              {
               "list": [
                {
                 "float": "-0.002"
                },
                {
                 "float": "-0.002"
                },
                {
                 "float": "-0.002"
                },
                {
                 "float": "-0.002"
                }
               ]
              },
              {
               "dict": [
                [
                 {
                  "str": "'units'"
                 },
                 {
                  "str": "'deg/s'"
                 }
                ]
               ]
              }
             ]
            }
           ]
          ]
         },
         {
          "dict": [
           [
            {
             "str": "'coordinates'"
            },
            {
             "list": [
              {
               "str": "'time'"
              }
             ]
            }
           ]
          ]
         }
        ]
       }
      ]
     ]
    },
    {
     "dict": []
    }
   ]
  }
 },
 "transform_attitude/extra_sections": {
  "returns": {
   "Group": [
    "/",
    null,
    {
     "dict": [
      [
       {
        "str": "'scalar'"
       },
       {
        "Variable": [
         {
          "tuple": []
         },
         {
          "tuple": [
           {
            "str": "'points'"
           },
           {
            "list": [
             {
              "int": "0"
             },
             {
              "int": "1"
             },
             {
              "int": "2"
             },
             {
              "int": "3"
             }
            ]
           },
           {
            "dict": []
           }
          ]
         },
         {
          "dict": [
           [
            {
             "str": "'coordinates'"
            },
            {
             "list": [
              {
               "str": "'time'"
              }
             ]
            }
           ]
          ]
         }
        ]
       }
      ],
      [
       {
        "str": "'attitude'"
       },
       {
        "Group": [
         "/attitude",
         null,
         {
          "dict": [
           [
            {
             "str": "'pitch_error'"
            },
            {
             "Variable": [
              {
               "list": [
                {
                 "str": "'points'"
                }
               ]
              },
              {
               "list": [
                {
                 "bool": "False"
                },
                {
                 "bool": "True"
                },
                {
                 "bool": "False"
                },
                {
                 "bool": "True"
                }
               ]
              },
              {
               "dict": []
              }
             ]
            }
           ],
           [
            {
             "str": "'roll_error'"
            },
            {
             "Variable": [
              {
               "list": [
                {
                 "str": "'points'"
                }
               ]
              },
              {
               "list": [
                {
                 "bool": "False"
                },
                {
                 "bool": "False"
                },
                {
                 "bool": "False"
                },
                {
                 "bool": "False"
                }
               ]
              },
              {
               "dict": []
              }
             ]
            }
           ],
           [
            {
             "str": "'yaw_error'"
            },
            {
             "Variable": [
              {
               "list": [
                {
                 "str": "'points'"
                }
               ]
              },
              {
               "list": [
                {
                 "bool": "True"
                },
                {
                 "bool": "True"
                },
                {
                 "bool": "True"
                },
                {
                 "bool": "True"
                }
               ]
              },
              {
               "dict": []
              }
             ]
            }
           ],
           [
            {
             "str": "'pitch'"
            },
            {
             "Variable": [
              {
               "list": [
                {
                 "str": "'points'"
                }
               ]
              },
              {
               "list": [
                {
                 "float": "0.0"
                },
                {
                 "float": "0.5"
                },
                {
                 "float": "1.0"
                },
                {
                 "float": "1.5"
                }
               ]
              },
              {
               "dict": [
                [
                 {
                  "str": "'units'"
                 },
                 {
                  "str": "'deg'"
                 }
                ]
               ]
              }
             ]
            }
           ],
           [
            {
             "str": "'roll'"
            },
            {
             "Variable": [
              {
               "list": [
                {
                 "str": "'points'"
                }
               ]
              },
              {
               "list": [
                {
                 "float": "-0.0"
                },
                {
                 "float": "-1.25"
                },
                {
                 "float": "-2.5"
                },
                {
                 "float": "-3.75"
                }
               ]
              },
              {
               "dict": [
                [
                 {
                  "str": "'units'"
                 },
                 {
                  "str": "'deg'"
                 }
                ]
               ]
              }
             ]
            }
           ],
           [
            {
             "str": "'yaw'"
            },
            {
             "Variable": [
              {
               "list": [
                {
                 "str": "'points'"
                }
               ]
              },
              {
               "list": [
                {
                 "float": "3.0"
                },
                {
                 "float": "nan"
                },
                {
                 "float": "3.0"
                },
                {
                 "float": "3.0"
                }
               ]
              },
              {
               "dict": [
                [
                 {
                  "str": "'units'"
                 },
                 {
                  "str": "'deg'"
                 }
                ]
               ]
              }
             ]
            }
           ],
           [
            {
             "str": "'time'"
            },
            {
             "Variable": [
              {
               "list": [
                {
                 "str": "'points'"
                }
               ]
              },
              {
               "ndarray": [
                "timedelta64[ns]",
                [
                 4
                ],
                "[86400007000000, 172801007000000, 259202007000000, 345603007000000]"
               ]
              },
              {
               "dict": []
              }
             ]
            }
           ]
          ]
         },
         {
          "dict": [
           [
            {
             "str": "'coordinates'"
            },
            {
             "list": [
              {
               "str": "'time'"
              }
             ]
            }
           ]
          ]
         }
        ]
       }
      ],
      [
       {
        "str": "'rates'"
       },
       {
        "Group": [
         "/rates",
         null,
         {
          "dict": [
           [
            {
             "str": "'pitch_error'"
            },
            {
             "Variable": [
              {
               "list": [
                {
                 "str": "'points'"
                }
               ]
              },
              {
               "list": [
                {
                 "bool": "False"
                },
                {
                 "bool": "False"
                },
                {
                 "bool": "False"
                },
                {
                 "bool": "False"
                }
               ]
              },
              {
               "dict": []
              }
             ]
            }
           ],
           [
            {
             "str": "'roll_error'"
            },
            {
             "Variable": [
              {
               "list": [
                {
                 "str": "'points'"
                }
               ]
              },
              {
               "list": [
                {
                 "bool": "False"
                },
                {
                 "bool": "True"
                },
                {
                 "bool": "True"
                },
                {
                 "bool": "True"
                }
               ]
              },
              {
               "dict": []
              }
             ]
            }
           ],
           [
            {
             "str": "'yaw_error'"
            },
            {
             "Variable": [
              {
               "list": [
                {
                 "str": "'points'"
                }
               ]
              },
              {
               "list": [
                {
                 "bool": "False"
                },
                {
                 "bool": "False"
                },
                {
                 "bool": "False"
                },
                {
                 "bool": "False"
                }
               ]
              },
              {
               "dict": []
              }
             ]
            }
           ],
           [
            {
             "str": "'pitch'"
            },
            {
             "Variable": [
              {
               "list": [
                {
                 "str": "'points'"
                }
               ]
              },
              {
               "list": [
                {
                 "float": "0.0"
                },
                {
                 "float": "0.001"
                },
                {
                 "float": "0.002"
                },
                {
                 "float": "0.003"
                }
               ]
              },
              {
               "dict": [
                [
                 {
                  "str": "'units'"
                 },
                 {
                  "str": "'deg/s'"
                 }
                ]
               ]
              }
             ]
            }
           ],
           [
            {
             "str": "'roll'"
            },
            {
             "Variable": [
              {
               "list": [
                {
                 "str": "'points'"
                }
               ]
              },
              {
               "list": [
                {
                 "float": "0.0"
                },
                {
                 "float": "0.0"
                },
                {
                 "float": "0.0"
                },
                {
                 "float": "0.0"
                }
               ]
              },
              {
               "dict": [
                [
                 {
                  "str": "'units'"
                 },
                 {
                  "str": "'deg/s'"
                 }
                ]
               ]
              }
             ]
            }
           ],
           [
            {
             "str": "'yaw'"
            },
            {
             "Variable": [
              {
               "list": [
                {
                 "str": "'points'"
                }
               ]
              },
              {
               "list": [
                {
                 "float": "-0.002"
                },
                {
                 "float": "-0.002"
                },
                {
                 "float": "-0.002"
                },
                {
                 "float": "-0.002"
                }
               ]
              },
              {
               "dict": [
                [
                 {
                  "str": "'units'"
                 },
                 {
                  "str": "'deg/s'"
                 }
                ]
               ]
              }
             ]
            }
           ],
           [
            {
             "str": "'time'"
            },
            {
             "Variable": [
              {
               "list": [
                {
                 "str": "'points'"
                }
               ]
              },
              {
               "ndarray": [
                "timedelta64[ns]",
                [
                 4
                ],
                "[86400007000000, 172801007000000, 259202007000000, 345603007000000]"
               ]
              },
              {
               "dict": []
              }
             ]
            }
           ]
          ]
         },
         {
          "dict": [
           [
            {
             "str": "'coordinates'"
            },
            {
             "list": [
              {
               "str": "'time'"
              }
             ]
            }
           ]
          ]
         }
        ]
       }
      ],
      [
       {
        "str": "'extra'"
       },
       {
        "Group": [
         "/extra",
         null,
         {
          "dict": [
           [
            {
             "str": "'a'"
            },
            {
             "Variable": [
              {
               "list": [
                {
                 "str": "'points'"
                }
               ]
              },
              {
               "list": [
                {
                 "int": "0"
                },
                {
                 "int": "1"
                },
                {
                 "int": "2"
                },
                {
                 "int": "3"
                }
               ]
              },
              {
               "dict": []
              }
             ]
            }
           ],
           [
            {
             "str": "'b'"
            },
            {
             "Variable": [
              {
               "list": [
                {
                 "str": "'points'"
                }
               ]
              },
              {
               "list": [
                {
                 "tuple": [
                  {
                   "int": "0"
                  },
                  {
                   "dict": [
                    [
                     {
                      "str": "'u'"
                     },
                     {
                      "str": "'x'"
                     }
                    ]
                   ]
                  }
                 ]
                },
                {
                 "tuple": [
                  {
                   "int": "1"
                  },
                  {
                   "dict": [
                    [
                     {
                      "str": "'u'"
                     },
                     {
                      "str": "'x'"
                     }
                    ]
                   ]
                  }
                 ]
                },
                {
                 "tuple": [
                  {
                   "int": "2"
                  },
                  {
                   "dict": [
                    [
                     {
                      "str": "'u'"
                     },
                     {
                      "str": "'x'"
                     }
                    ]
                   ]
                  }
                 ]
                },
                {
                 "tuple": [
                  {
                   "int": "3"
                  },
                  {
                   "dict": [
                    [
                     {
                      "str": "'u'"
                     },
                     {
                      "str": "'x'"
                     }
                    ]
                   ]
                  }
                 ]
                }
               ]
              },
              {
               "dict": []
              }
             ]
            }
           ]
          ]
         },
         {
          "dict": [
           [
            {
             "str": "'coordinates'"
            },
            {
             "list": [
              {
               "str": "'time'"
              }
             ]
            }
           ]
          ]
         }
        ]
       }
      ]
     ]
    },
    {
     "dict": []
    }
   ]
  }
 },
 "transform_attitude/reordered_sections": {
  "returns": {
   "Group": [
    "/",
    null,
    {
     "dict": [
      [
       {
        "str": "'rates'"
       },
       {
        "Group": [
         "/rates",
         null,
         {
          "dict": [
           [
            {
             "str": "'pitch_error'"
            },
            {
             "Variable": [
              {
               "list": [
                {
                 "str": "'points'"
                }
               ]
              },
              {
               "list": [
                {
                 "bool": "False"
                },
                {
                 "bool": "False"
                },
                {
                 "bool": "False"
                },
                {
                 "bool": "False"
                }
               ]
              },
              {
               "dict": []
              }
             ]
            }
           ],
           [
            {
             "str": "'roll_error'"
            },
            {
             "Variable": [
              {
               "list": [
                {
                 "str": "'points'"
                }
               ]
              },
              {
               "list": [
                {
                 "bool": "False"
                },
                {
                 "bool": "True"
                },
                {
                 "bool": "True"
                },
                {
                 "bool": "True"
                }
               ]
              },
              {
               "dict": []
              }
             ]
            }
           ],
           [
            {
             "str": "'yaw_error'"
            },
            {
             "Variable": [
              {
               "list": [
                {
                 "str": "'points'"
                }
               ]
              },
              {
               "list": [
                {
                 "bool": "False"
                },
                {
                 "bool": "False"
                },
                {
                 "bool": "False"
                },
                {
                 "bool": "False"
                }
               ]
              },
              {
               "dict": []
              }
             ]
            }
           ],
           [
            {
             "str": "'pitch'"
            },
            {
             "Variable": [
              {
               "list": [
                {
                 "str": "'points'"
                }
               ]
              },
              {
               "list": [
                {
                 "float": "0.0"
                },
                {
                 "float": "0.001"
                },
                {
                 "float": "0.002"
                },
                {
                 "float": "0.003"
                }
               ]
              },
              {
               "dict": [
                [
                 {
                  "str": "'units'"
                 },
                 {
                  "str": "'deg/s'"
                 }
                ]
               ]
              }
             ]
            }
           ],
           [
            {
             "str": "'roll'"
            },
            {
             "Variable": [
              {
               "list": [
                {
                 "str": "'points'"
                }
               ]
              },
              {
               "list": [
                {
                 "float": "0.0"
                },
                {
                 "float": "0.0"
                },
                {
                 "float": "0.0"
                },
                {
                 "float": "0.0"
                }
               ]
              },
              {
               "dict": [
                [
                 {
                  "str": "'units'"
                 },
                 {
                  "str": "'deg/s'"
                 }
                ]
               ]
              }
             ]
            }
           ],
           [
            {
             "str": "'yaw'"
            },
            {
             "Variable": [
              {
               "list": [
                {
                 "str": "'points'"
                }
               ]
              },
              {
               "list": [
                {
                 "float": "-0.002"
                },
                {
                 "float": "-0.002"
                },
                {
                 "float": "-0.002"
                },
                {
                 "float": "-0.002"
                }
               ]
              },
              {
               "dict": [
                [
                 {
                  "str": "'units'"
                 },
                 {
                  "str": "'deg/s'"
                 }
                ]
               ]
              }
             ]
            }
           ],
           [
            {
             "str": "'time'"
            },
            {
             "Variable": [
              {
               "list": [
                {
                 "str": "'points'"
                }
               ]
              },
              {
               "ndarray": [
                "timedelta64[ns]",
                [
                 4
                ],
                "[86400007000000, 172801007000000, 259202007000000, 345603007000000]"
               ]
              },
              {
               "dict": []
              }
             ]
            }
           ]
          ]
         },
         {
          "dict": [
           [
            {
             "str": "'coordinates'"
            },
            {
             "list": [
              {
               "str": "'time'"
              }
             ]
            }
           ]
          ]
         }
        ]
       }
      ],
      [
       {
        "str": "'attitude'"
       },
       {
        "Group": [
         "/attitude",
         null,
         {
          "dict": [
           [
            {
             "str": "'pitch_error'"
            },
            {
             "Variable": [
              {
               "list": [
                {
                 "str": "'points'"
                }
               ]
              },
              {
               "list": [
                {
                 "bool": "False"
                },
                {
                 "bool": "True"
                },
                {
                 "bool": "False"
                },
                {
                 "bool": "True"
                }
               ]
              },
              {
               "dict": []
              }
             ]
            }
           ],
           [
            {
             "str": "'roll_error'"
            },
            {
             "Variable": [
              {
               "list": [
                {
                 "str": "'points'"
                }
               ]
              },
              {
               "list": [
                {
                 "bool": "False"
                },
                {
                 "bool": "False"
                },
                {
                 "bool": "False"
                },
                {
                 "bool": "False"
                }
               ]
              },
              {
               "dict": []
              }
             ]
            }
           ],
           [
            {
             "str": "'yaw_error'"
            },
            {
             "Variable": [
              {
               "list": [
                {
                 "str": "'points'"
                }
               ]
              },
              {
               "list": [
                {
                 "bool": "True"
                },
                {
                 "bool": "True"
                },
                {
                 "bool": "True"
                },
                {
                 "bool": "True"
                }
               ]
              },
              {
               "dict": []
              }
             ]
            }
           ],
           [
            {
             "str": "'pitch'"
            },
            {
             "Variable": [
              {
               "list": [
                {
                 "str": "'points'"
                }
               ]
              },
              {
               "list": [
                {
                 "float": "0.0"
                },
                {
                 "float": "0.5"
                },
                {
                 "float": "1.0"
                },
                {
                 "float": "1.5"
                }
               ]
              },
              {
               "dict": [
                [
                 {
                  "str": "'units'"
                 },
                 {
                  "str": "'deg'"
                 }
                ]
               ]
              }
             ]
            }
           ],
           [
            {
             "str": "'roll'"
            },
            {
             "Variable": [
              {
               "list": [
                {
                 "str": "'points'"
                }
               ]
              },
              {
               "list": [
                {
                 "float": "-0.0"
                },
                {
                 "float": "-1.25"
                },
                {
                 "float": "-2.5"
                },
                {
                 "float": "-3.75"
                }
               ]
              },
              {
               "dict": [
                [
                 {
                  "str": "'units'"
                 },
                 {
                  "str": "'deg'"
                 }
                ]
               ]
              }
             ]
            }
           ],
           [
            {
             "str": "'yaw'"
            },
            {
             "Variable": [
              {
               "list": [
                {
                 "str": "'points'"
                }
               ]
              },
              {
               "list": [
                {
                 "float": "3.0"
                },
                {
                 "float": "nan"
                },
                {
                 "float": "3.0"
                },
                {
                 "float": "3.0"
                }
               ]
              },
              {
               "dict": [
                [
                 {
                  "str": "'units'"
                 },
                 {
                  "str": "'deg'"
                 }
                ]
               ]
              }
             ]
            }
           ],
           [
            {
             "str": "'time'"
            },
            {
             "Variable": [
              {
               "list": [
                {
                 "str": "'points'"
                }
               ]
              },
              {
               "ndarray": [
                "timedelta64[ns]",
                [
                 4
                ],
                "[86400007000000, 172801007000000, 259202007000000, 345603007000000]"
               ]
              },
              {
               "dict": []
              }
             ]
            }
           ]
          ]
         },
         {
          "dict": [
           [
            {
             "str": "'coordinates'"
            },
            {
             "list": [
              {
               "str": "'time'"
              }
             ]
            }
           ]
          ]
         }
        ]
       }
      ]
     ]
    },
    {
     "dict": []
    }
   ]
  }
 },
 "transform_attitude/uneven_points": {
  "returns": {
   "Group": [
    "/",
    null,
    {
     "dict": [
      [
       {
        "str": "'attitude'"
       },
       {
        "Group": [
         "/attitude",
         null,
         {
          "dict": [
           [
            {
             "str": "'pitch_error'"
            },
            {
             "Variable": [
              {
               "list": [
                {
                 "str": "'points'"
                }
               ]
              },
              {
               "list": [
                {
                 "bool": "False"
                },
                {
                 "bool": "True"
                }
               ]
              },
              {
               "dict": []
              }
             ]
            }
           ],
           [
            {
             "str": "'roll_error'"
            },
            {
             "Variable": [
              {
               "list": [
                {
                 "str": "'points'"
                }
               ]
              },
              {
               "list": [
                {
                 "bool": "False"
                },
                {
                 "bool": "False"
                }
               ]
              },
              {
               "dict": []
              }
             ]
            }
           ],
           [
            {
             "str": "'yaw_error'"
            },
            {
             "Variable": [
              {
               "list": [
                {
                 "str": "'points'"
                }
               ]
              },
              {
               "list": [
                {
                 "bool": "True"
                },
                {
                 "bool": "True"
                }
               ]
              },
              {
               "dict": []
              }
             ]
            }
           ],
           [
            {
             "str": "'pitch'"
            },
            {
             "Variable": [
              {
               "list": [
                {
                 "str": "'points'"
                }
               ]
              },
              {
               "list": [
                {
                 "float": "0.0"
                },
                {
                 "float": "0.5"
                }
               ]
              },
              {
               "dict": [
                [
                 {
                  "str": "'units'"
                 },
                 {
                  "str": "'deg'"
                 }
                ]
               ]
              }
             ]
            }
           ],
           [
            {
             "str": "'roll'"
            },
            {
             "Variable": [
              {
               "list": [
                {
                 "str": "'points'"
                }
               ]
              },
              {
               "list": [
                {
                 "float": "-0.0"
                },
                {
                 "float": "-1.25"
                }
               ]
              },
              {
               "dict": [
                [
                 {
                  "str": "'units'"
                 },
                 {
                  "str": "'deg'"
                 }
                ]
               ]
              }
             ]
            }
           ],
           [
            {
             "str": "'yaw'"
            },
            {
             "Variable": [
              {
               "list": [
                {
                 "str": "'points'"
                }
               ]
              },
              {
               "list": [
                {
                 "float": "3.0"
                },
                {
                 "float": "nan"
                }
               ]
              },
              {
               "dict": [
                [
                 {
                  "str": "'units'"
                 },
                 {
                  "str": "'deg'"
                 }
                ]
               ]
              }
             ]
            }
           ],
           [
            {
             "str": "'time'"
            },
            {
             "Variable": [
              {
               "list": [
                {
                 "str": "'points'"
                }
               ]
              },
              {
               "ndarray": [
                "timedelta64[ns]",
                [
                 2
                ],
                "[86400007000000, 172801007000000]"
               ]
              },
              {
               "dict": []
              }
             ]
            }
           ]
          ]
         },
         {
          "dict": [
           [
            {
             "str": "'coordinates'"
            },
            {
             "list": [
              {
               "str": "'time'"
              }
             ]
            }
           ]
          ]
         }
        ]
       }
      ],
      [
       {
        "str": "'rates'"
       },
       {
        "Group": [
         "/rates",
         null,
         {
          "dict": [
           [
            {
             "str": "'pitch_error'"
            },
            {
             "Variable": [
              {
               "list": [
                {
                 "str": "'points'"
                }
               ]
              },
              {
               "list": [
                {
                 "bool": "False"
                }
               ]
              },
              {
               "dict": []
              }
             ]
            }
           ],
           [
            {
             "str": "'roll_error'"
            },
            {
             "Variable": [
              {
               "list": [
                {
                 "str": "'points'"
                }
               ]
              },
              {
               "list": [
                {
                 "bool": "False"
                }
               ]
              },
              {
               "dict": []
              }
             ]
            }
           ],
           [
            {
             "str": "'yaw_error'"
            },
            {
             "Variable": [
              {
               "list": [
                {
                 "str": "'points'"
                }
               ]
              },
              {
               "list": [
                {
                 "bool": "False"
                }
               ]
              },
              {
               "dict": []
              }
             ]
            }
           ],
           [
            {
             "str": "'pitch'"
            },
            {
             "Variable": [
              {
               "list": [
                {
                 "str": "'points'"
                }
               ]
              },
              {
               "list": [
                {
                 "float": "0.0"
                }
               ]
              },
              {
               "dict": [
                [
                 {
                  "str": "'units'"
                 },
                 {
                  "str": "'deg/s'"
                 }
                ]
               ]
              }
             ]
            }
           ],
           [
            {
             "str": "'roll'"
            },
            {
             "Variable": [
              {
               "list": [
                {
                 "str": "'points'"
                }
               ]
              },
              {
               "list": [
                {
                 "float": "0.0"
                }
               ]
              },
              {
               "dict": [
                [
                 {
                  "str": "'units'"
                 },
                 {
                  "str": "'deg/s'"
                 }
                ]
               ]
              }
             ]
            }
           ],
           [
            {
             "str": "'yaw'"
            },
            {
             "Variable": [
              {
               "list": [
                {
                 "str": "'points'"
                }
               ]
              },
              {
               "list": [
                {
                 "float": "-0.002"
                }
               ]
              },
              {
               "dict": [
                [
                 {
                  "str": "'units'"
                 },
                 {
                  "str": "'deg/s'"
                 }
                ]
               ]
              }
             ]
            }
           ],
           [
            {
             "str": "'time'"
            },
            {
             "Variable": [
              {
               "list": [
                {
                 "str": "'points'"
                }
               ]
              },
              {
               "ndarray": [
                "timedelta64[ns]",
                [
                 2
                ],
                "[86400007000000, 172801007000000]"
               ]
              },
              {
               "dict": []
              }
             ]
            }
           ]
          ]
         },
         {
          "dict": [
           [
            {
             "str": "'coordinates'"
            },
            {
             "list": [
              {
               "str": "'time'"
              }
             ]
            }
           ]
          ]
         }
        ]
       }
      ]
     ]
    },
    {
     "dict": []
    }
   ]
  }
 },
 "transform_attitude/no_points": {
  "raises": [
   "AttributeError",
   "'list' object has no attribute 'keys'"
  ]
 },
 "transform_attitude/bad:points_not_dicts": {
  "raises": [
   "AttributeError",
   "'list' object has no attribute 'keys'"
  ]
 },
 "transform_attitude/bad:points_none": {
  "raises": [
   "AttributeError",
   "'NoneType' object has no attribute 'keys'"
  ]
 },
 "transform_attitude/bad:missing_data_points": {
  "raises": [
   "KeyError",
   "'data_points'"
  ]
 },
 "transform_attitude/bad:mapping_none": {
  "raises": [
   "TypeError",
   "'NoneType' object is not subscriptable"
  ]
 },
 "transform_attitude/bad:mapping_list": {
  "raises": [
   "TypeError",
   "list indices must be integers or slices, not str"
  ]
 },
 "transform_attitude/bad:mapping_str": {
  "raises": [
   "TypeError",
   "string indices must be integers, not 'str'"
  ]
 },
 "transform_attitude/bad:time_not_numbers": {
  "raises": [
   "ValueError",
   "Could not convert object to NumPy timedelta"
  ]
 },
 "transform_attitude/bad:time_unknown_field": {
  "raises": [
   "KeyError",
   "'year'"
  ]
 },
 "transform_attitude/bad:time_missing_field": {
  "raises": [
   "KeyError",
   "'millisecond_of_day'"
  ]
 },
 "transform_attitude/bad:section_flag_scalar_nested": {
  "returns": {
   "Group": [
    "/",
    null,
    {
     "dict": [
      [
       {
        "str": "'attitude'"
       },
       {
        "Group": [
         "/attitude",
         null,
         {
          "dict": [
           [
            {
             "str": "'pitch_error'"
            },
            {
             "Variable": [
              {
               "list": [
                {
                 "str": "'points'"
                }
               ]
              },
              {
               "list": [
                {
                 "bool": "True"
                }
               ]
              },
              {
               "dict": []
              }
             ]
            }
           ]
          ]
         },
         {
          "dict": [
           [
            {
             "str": "'coordinates'"
            },
            {
             "list": [
              {
               "str": "'time'"
              }
             ]
            }
           ]
          ]
         }
        ]
       }
      ]
     ]
    },
    {
     "dict": []
    }
   ]
  }
 },
 "parsed/three_points": {
  "returns": {
   "Group": [
    "/",
    null,
    {
     "dict": [
      [
       {
        "str": "'attitude'"
       },
       {
        "Group": [
         "/attitude",
         null,
         {
          "dict": [
           [
            {
             "str": "'pitch_error'"
            },
            {
             "Variable": [
              {
               "list": [
                {
                 "str": "'points'"
                }
               ]
              },
              {
               "list": [
                {
                 "bool": "False"
                },
                {
                 "bool": "True"
                },
                {
                 "bool": "False"
                }
               ]
              },
              {
               "dict": []
              }
             ]
            }
           ],
           [
            {
             "str": "'roll_error'"
            },
            {
             "Variable": [
              {
               "list": [
                {
                 "str": "'points'"
                }
               ]
              },
              {
               "list": [
                {
                 "bool": "False"
                },
                {
                 "bool": "False"
                },
                {
                 "bool": "False"
                }
               ]
              },
              {
               "dict": []
              }
             ]
            }
           ],
           [
            {
             "str": "'yaw_error'"
            },
            {
             "Variable": [
              {
               "list": [
                {
                 "str": "'points'"
                }
               ]
              },
              {
               "list": [
                {
                 "bool": "True"
                },
                {
                 "bool": "True"
                },
                {
                 "bool": "True"
                }
               ]
              },
              {
               "dict": []
              }
             ]
            }
           ],
           [
            {
             "str": "'pitch'"
            },
            {
             "Variable": [
              {
               "list": [
                {
                 "str": "'points'"
                }
               ]
              },
              {
               "list": [
                {
                 "float": "0.25"
                },
                {
                 "float": "1.25"
                },
                {
                 "float": "2.25"
                }
               ]
              },
              {
               "dict": [
                [
                 {
                  "str": "'units'"
                 },
                 {
                  "str": "'deg'"
                 }
                ]
               ]
              }
             ]
            }
           ],
           [
            {
             "str": "'roll'"
            },
            {
             "Variable": [
              {
               "list": [
                {
                 "str": "'points'"
                }
               ]
              },
              {
               "list": [
                {
                 "float": "-0.0"
                },
                {
                 "float": "-1.0"
                },
                {
                 "float": "-2.0"
                }
               ]
              },
              {
               "dict": [
                [
                 {
                  "str": "'units'"
                 },
                 {
                  "str": "'deg'"
                 }
                ]
               ]
              }
             ]
            }
           ],
           [
            {
             "str": "'yaw'"
            },
            {
             "Variable": [
              {
               "list": [
                {
                 "str": "'points'"
                }
               ]
              },
              {
               "list": [
                {
                 "float": "7.5"
                },
                {
                 "float": "7.5"
                },
                {
                 "float": "7.5"
                }
               ]
              },
              {
               "dict": [
                [
                 {
                  "str": "'units'"
                 },
                 {
                  "str": "'deg'"
                 }
                ]
               ]
              }
             ]
            }
           ],
           [
            {
             "str": "'time'"
            },
            {
             "Variable": [
              {
               "list": [
                {
                 "str": "'points'"
                }
               ]
              },
              {
               "ndarray": [
                "timedelta64[ns]",
                [
                 3
                ],
                "[864123456000000, 950646912000000, 1037170368000000]"
               ]
              },
              {
               "dict": []
              }
             ]
            }
           ]
          ]
         },
         {
          "dict": [
           [
            {
             "str": "'coordinates'"
            },
            {
             "list": [
              {
               "str": "'time'"
              }
             ]
            }
           ]
          ]
         }
        ]
       }
      ],
      [
       {
        "str": "'rates'"
       },
       {
        "Group": [
         "/rates",
         null,
         {
          "dict": [
           [
            {
             "str": "'pitch_error'"
            },
            {
             "Variable": [
              {
               "list": [
                {
                 "str": "'points'"
                }
               ]
              },
              {
               "list": [
                {
                 "bool": "False"
                },
                {
                 "bool": "True"
                },
                {
                 "bool": "False"
                }
               ]
              },
              {
               "dict": []
              }
             ]
            }
           ],
           [
            {
             "str": "'roll_error'"
            },
            {
             "Variable": [
              {
               "list": [
                {
                 "str": "'points'"
                }
               ]
              },
              {
               "list": [
                {
                 "bool": "False"
                },
                {
                 "bool": "False"
                },
                {
                 "bool": "False"
                }
               ]
              },
              {
               "dict": []
              }
             ]
            }
           ],
           [
            {
             "str": "'yaw_error'"
            },
            {
             "Variable": [
              {
               "list": [
                {
                 "str": "'points'"
                }
               ]
              },
              {
               "list": [
                {
                 "bool": "True"
                },
                {
                 "bool": "True"
                },
                {
                 "bool": "True"
                }
               ]
              },
              {
               "dict": []
              }
             ]
            }
           ],
           [
            {
             "str": "'pitch'"
            },
            {
             "Variable": [
              {
               "list": [
                {
                 "str": "'points'"
                }
               ]
              },
              {
               "list": [
                {
                 "float": "0.00025"
                },
                {
                 "float": "0.00125"
                },
                {
                 "float": "0.00225"
                }
               ]
              },
              {
               "dict": [
                [
                 {
                  "str": "'units'"
                 },
                 {
                  "str": "'deg/s'"
                 }
                ]
               ]
              }
             ]
            }
           ],
           [
            {
             "str": "'roll'"
            },
            {
             "Variable": [
              {
               "list": [
                {
                 "str": "'points'"
                }
               ]
              },
              {
               "list": [
                {
                 "float": "-0.0"
                },
                {
                 "float": "-0.001"
                },
                {
                 "float": "-0.002"
                }
               ]
              },
              {
               "dict": [
                [
                 {
                  "str": "'units'"
                 },
                 {
                  "str": "'deg/s'"
                 }
                ]
               ]
              }
             ]
            }
           ],
           [
            {
             "str": "'yaw'"
            },
            {
             "Variable": [
              {
               "list": [
                {
                 "str": "'points'"
                }
               ]
              },
              {
               "list": [
                {
                 "float": "0.0075"
                },
                {
                 "float": "0.0075"
                },
                {
                 "float": "0.0075"
                }
               ]
              },
              {
               "dict": [
                [
                 {
                  "str": "'units'"
                 },
                 {
                  "str": "'deg/s'"
                 }
                ]
               ]
              }
             ]
            }
           ],
           [
            {
             "str": "'time'"
            },
            {
             "Variable": [
              {
               "list": [
                {
                 "str": "'points'"
                }
               ]
              },
              {
               "ndarray": [
                "timedelta64[ns]",
                [
                 3
                ],
                "[864123456000000, 950646912000000, 1037170368000000]"
               ]
              },
              {
               "dict": []
              }
             ]
            }
           ]
          ]
         },
         {
          "dict": [
           [
            {
             "str": "'coordinates'"
            },
            {
             "list": [
              {
               "str": "'time'"
              }
             ]
            }
           ]
          ]
         }
        ]
       }
      ]
     ]
    },
    {
     "dict": []
    }
   ]
  }
 },
 "parsed/one_point": {
  "returns": {
   "Group": [
    "/",
    null,
    {
     "dict": [
      [
       {
        "str": "'attitude'"
       },
       {
        "Group": [
         "/attitude",
         null,
         {
          "dict": [
           [
            {
             "str": "'pitch_error'"
            },
            {
             "Variable": [
              {
               "list": [
                {
                 "str": "'points'"
                }
               ]
              },
              {
               "list": [
                {
                 "bool": "False"
                }
               ]
              },
              {
               "dict": []
              }
             ]
            }
           ],
           [
            {
             "str": "'roll_error'"
            },
            {
             "Variable": [
              {
               "list": [
                {
                 "str": "'points'"
                }
               ]
              },
              {
               "list": [
                {
                 "bool": "False"
                }
               ]
              },
              {
               "dict": []
              }
             ]
            }
           ],
           [
            {
             "str": "'yaw_error'"
            },
            {
             "Variable": [
              {
               "list": [
                {
                 "str": "'points'"
                }
               ]
              },
              {
               "list": [
                {
                 "bool": "True"
                }
               ]
              },
              {
               "dict": []
              }
             ]
            }
           ],
           [
            {
             "str": "'pitch'"
            },
            {
             "Variable": [
              {
               "list": [
                {
                 "str": "'points'"
                }
               ]
              },
              {
               "list": [
                {
                 "float": "0.25"
                }
               ]
              },
              {
               "dict": [
                [
                 {
                  "str": "'units'"
                 },
                 {
                  "str": "'deg'"
                 }
                ]
               ]
              }
             ]
            }
           ],
           [
            {
             "str": "'roll'"
            },
            {
             "Variable": [
              {
               "list": [
                {
                 "str": "'points'"
                }
               ]
              },
              {
               "list": [
                {
                 "float": "-0.0"
                }
               ]
              },
              {
               "dict": [
                [
                 {
                  "str": "'units'"
                 },
                 {
                  "str": "'deg'"
                 }
                ]
               ]
              }
             ]
            }
           ],
           [
            {
             "str": "'yaw'"
            },
            {
             "Variable": [
              {
               "list": [
                {
                 "str": "'points'"
                }
               ]
              },
              {
               "list": [
                {
                 "float": "7.5"
                }
               ]
              },
              {
               "dict": [
                [
                 {
                  "str": "'units'"
                 },
                 {
                  "str": "'deg'"
                 }
                ]
               ]
              }
             ]
            }
           ],
           [
            {
             "str": "'time'"
            },
            {
             "Variable": [
              {
               "list": [
                {
                 "str": "'points'"
                }
               ]
              },
              {
               "ndarray": [
                "timedelta64[ns]",
                [
                 1
                ],
                "[864123456000000]"
               ]
              },
              {
               "dict": []
              }
             ]
            }
           ]
          ]
         },
         {
          "dict": [
           [
            {
             "str": "'coordinates'"
            },
            {
             "list": [
              {
               "str": "'time'"
              }
             ]
            }
           ]
          ]
         }
        ]
       }
      ],
      [
       {
        "str": "'rates'"
       },
       {
        "Group": [
         "/rates",
         null,
         {
          "dict": [
           [
            {
             "str": "'pitch_error'"
            },
            {
             "Variable": [
              {
               "list": [
                {
                 "str": "'points'"
                }
               ]
              },
              {
               "list": [
                {
                 "bool": "False"
                }
               ]
              },
              {
               "dict": []
              }
             ]
            }
           ],
           [
            {
             "str": "'roll_error'"
            },
            {
             "Variable": [
              {
               "list": [
                {
                 "str": "'points'"
                }
               ]
              },
              {
               "list": [
                {
                 "bool": "False"
                }
               ]
              },
              {
               "dict": []
              }
             ]
            }
           ],
           [
            {
             "str": "'yaw_error'"
            },
            {
             "Variable": [
              {
               "list": [
                {
                 "str": "'points'"
                }
               ]
              },
              {
               "list": [
                {
                 "bool": "True"
                }
               ]
              },
              {
               "dict": []
              }
             ]
            }
           ],
           [
            {
             "str": "'pitch'"
            },
            {
             "Variable": [
              {
               "list": [
                {
                 "str": "'points'"
                }
               ]
              },
              {
               "list": [
                {
                 "float": "0.00025"
                }
               ]
              },
              {
               "dict": [
                [
                 {
                  "str": "'units'"
                 },
                 {
                  "str": "'deg/s'"
                 }
                ]
               ]
              }
             ]
            }
           ],
           [
            {
             "str": "'roll'"
            },
            {
             "Variable": [
              {
               "list": [
                {
                 "str": "'points'"
                }
               ]
              },
              {
               "list": [
                {
                 "float": "-0.0"
                }
               ]
              },
              {
               "dict": [
                [
                 {
                  "str": "'units'"
                 },
                 {
                  "str": "'deg/s'"
                 }
                ]
               ]
              }
             ]
            }
           ],
           [
            {
             "str": "'yaw'"
            },
            {
             "Variable": [
              {
               "list": [
                {
                 "str": "'points'"
                }
               ]
              },
              {
               "list": [
                {
                 "float": "0.0075"
                }
               ]
              },
              {
               "dict": [
                [
                 {
                  "str": "'units'"
                 },
                 {
                  "str": "'deg/s'"
                 }
                ]
               ]
              }
             ]
            }
           ],
           [
            {
             "str": "'time'"
            },
            {
             "Variable": [
              {
               "list": [
                {
                 "str": "'points'"
                }
               ]
              },
              {
               "ndarray": [
                "timedelta64[ns]",
                [
                 1
                ],
                "[864123456000000]"
               ]
              },
              {
               "dict": []
              }
             ]
            }
           ]
          ]
         },
         {
          "dict": [
           [
            {
             "str": "'coordinates'"
            },
            {
             "list": [
              {
               "str": "'time'"
              }
             ]
            }
           ]
          ]
         }
        ]
       }
      ]
     ]
    },
    {
     "dict": []
    }
   ]
  }
 },
 "parsed/exact_length": {
  "returns": {
   "Group": [
    "/",
    null,
    {
     "dict": [
      [
       {
        "str": "'attitude'"
       },
       {
        "Group": [
         "/attitude",
         null,
         {
          "dict": [
           [
            {
             "str": "'pitch_error'"
            },
            {
             "Variable": [
              {
               "list": [
                {
                 "str": "'points'"
                }
               ]
              },
              {
               "list": [
                {
                 "bool": "False"
                },
                {
                 "bool": "True"
                }
               ]
              },
              {
               "dict": []
              }
             ]
            }
           ],
           [
            {
             "str": "'roll_error'"
            },
            {
             "Variable": [
              {
               "list": [
                {
                 "str": "'points'"
                }
               ]
              },
              {
               "list": [
                {
                 "bool": "False"
                },
                {
                 "bool": "False"
                }
               ]
              },
              {
               "dict": []
              }
             ]
            }
           ],
           [
            {
             "str": "'yaw_error'"
            },
            {
             "Variable": [
              {
               "list": [
                {
                 "str": "'points'"
                }
               ]
              },
              {
               "list": [
                {
                 "bool": "True"
                },
                {
                 "bool": "True"
                }
               ]
              },
              {
               "dict": []
              }
             ]
            }
           ],
           [
            {
             "str": "'pitch'"
            },
            {
             "Variable": [
              {
               "list": [
                {
                 "str": "'points'"
                }
               ]
              },
              {
               "list": [
                {
                 "float": "0.25"
                },
                {
                 "float": "1.25"
                }
               ]
              },
              {
               "dict": [
                [
                 {
                  "str": "'units'"
                 },
                 {
                  "str": "'deg'"
                 }
                ]
               ]
              }
             ]
            }
           ],
           [
            {
             "str": "'roll'"
            },
            {
             "Variable": [
              {
               "list": [
                {
                 "str": "'points'"
                }
               ]
              },
              {
               "list": [
                {
                 "float": "-0.0"
                },
                {
                 "float": "-1.0"
                }
               ]
              },
              {
               "dict": [
                [
                 {
                  "str": "'units'"
                 },
                 {
                  "str": "'deg'"
                 }
                ]
               ]
              }
             ]
            }
           ],
           [
            {
             "str": "'yaw'"
            },
            {
             "Variable": [
              {
               "list": [
                {
                 "str": "'points'"
                }
               ]
              },
              {
               "list": [
                {
                 "float": "7.5"
                },
                {
                 "float": "7.5"
                }
               ]
              },
              {
               "dict": [
                [
                 {
                  "str": "'units'"
                 },
                 {
                  "str": "'deg'"
                 }
                ]
               ]
              }
             ]
            }
           ],
           [
            {
             "str": "'time'"
            },
            {
             "Variable": [
              {
               "list": [
                {
                 "str": "'points'"
                }
               ]
              },
              {
               "ndarray": [
                "timedelta64[ns]",
                [
                 2
                ],
                "[864123456000000, 950646912000000]"
               ]
              },
              {
               "dict": []
              }
             ]
            }
           ]
          ]
         },
         {
          "dict": [
           [
            {
             "str": "'coordinates'"
            },
            {
             "list": [
              {
               "str": "'time'"
              }
             ]
            }
           ]
          ]
         }
        ]
       }
      ],
      [
       {
        "str": "'rates'"
       },
       {
        "Group": [
         "/rates",
         null,
         {
          "dict": [
           [
            {
             "str": "'pitch_error'"
            },
            {
             "Variable": [
              {
               "list": [
                {
                 "str": "'points'"
                }
               ]
              },
              {
               "list": [
                {
                 "bool": "False"
                },
                {
                 "bool": "True"
                }
               ]
              },
              {
               "dict": []
              }
             ]
            }
           ],
           [
            {
             "str": "'roll_error'"
            },
            {
             "Variable": [
              {
               "list": [
                {
                 "str": "'points'"
                }
               ]
              },
              {
               "list": [
                {
                 "bool": "False"
                },
                {
                 "bool": "False"
                }
               ]
              },
              {
               "dict": []
              }
             ]
            }
           ],
           [
            {
             "str": "'yaw_error'"
            },
            {
             "Variable": [
              {
               "list": [
                {
                 "str": "'points'"
                }
               ]
              },
              {
               "list": [
                {
                 "bool": "True"
                },
                {
                 "bool": "True"
                }
               ]
              },
              {
               "dict": []
              }
             ]
            }
           ],
           [
            {
             "str": "'pitch'"
            },
            {
             "Variable": [
              {
               "list": [
                {
                 "str": "'points'"
                }
               ]
              },
              {
               "list": [
                {
                 "float": "0.00025"
                },
                {
                 "float": "0.00125"
                }
               ]
              },
              {
               "dict": [
                [
                 {
                  "str": "'units'"
                 },
                 {
                  "str": "'deg/s'"
                 }
                ]
               ]
              }
             ]
            }
           ],
           [
            {
             "str": "'roll'"
            },
            {
             "Variable": [
              {
               "list": [
                {
                 "str": "'points'"
                }
               ]
              },
              {
               "list": [
                {
                 "float": "-0.0"
                },
                {
                 "float": "-0.001"
                }
               ]
              },
              {
               "dict": [
                [
                 {
                  "str": "'units'"
                 },
                 {
                  "str": "'deg/s'"
                 }
                ]
               ]
              }
             ]
            }
           ],
           [
            {
             "str": "'yaw'"
            },
            {
             "Variable": [
              {
               "list": [
                {
                 "str": "'points'"
                }
               ]
              },
              {
               "list": [
                {
                 "float": "0.0075"
                },
                {
                 "float": "0.0075"
                }
               ]
              },
              {
               "dict": [
                [
                 {
                  "str": "'units'"
                 },
                 {
                  "str": "'deg/s'"
                 }
                ]
               ]
              }
             ]
            }
           ],
           [
            {
             "str": "'time'"
            },
            {
             "Variable": [
              {
               "list": [
                {
                 "str": "'points'"
                }
               ]
              },
              {
               "ndarray": [
                "timedelta64[ns]",
                [
                 2
                ],
                "[864123456000000, 950646912000000]"
               ]
              },
              {
               "dict": []
              }
             ]
            }
           ]
          ]
         },
         {
          "dict": [
           [
            {
             "str": "'coordinates'"
            },
            {
             "list": [
              {
               "str": "'time'"
              }
             ]
            }
           ]
          ]
         }
        ]
       }
      ]
     ]
    },
    {
     "dict": []
    }
   ]
  }
 },
 "parsed/blank_point": {
  "returns": {
   "Group": [
    "/",
    null,
    {
     "dict": [
      [
       {
        "str": "'attitude'"
       },
       {
        "Group": [
         "/attitude",
         null,
         {
          "dict": [
           [
            {
             "str": "'pitch_error'"
            },
            {
             "Variable": [
              {
               "list": [
                {
                 "str": "'points'"
                }
               ]
              },
              {
               "list": [
                {
                 "bool": "False"
                },
                {
                 "bool": "True"
                },
                {
                 "bool": "True"
                }
               ]
              },
              {
               "dict": []
              }
             ]
            }
           ],
           [
            {
             "str": "'roll_error'"
            },
            {
             "Variable": [
              {
               "list": [
                {
                 "str": "'points'"
                }
               ]
              },
              {
               "list": [
                {
                 "bool": "False"
                },
                {
                 "bool": "False"
                },
                {
                 "bool": "True"
                }
               ]
              },
              {
               "dict": []
              }
             ]
            }
           ],
           [
            {
             "str": "'yaw_error'"
            },
            {
             "Variable": [
              {
               "list": [
                {
                 "str": "'points'"
                }
               ]
              },
              {
               "list": [
                {
                 "bool": "True"
                },
                {
                 "bool": "True"
                },
                {
                 "bool": "True"
                }
               ]
              },
              {
               "dict": []
              }
             ]
            }
           ],
           [
            {
             "str": "'pitch'"
            },
            {
             "Variable": [
              {
               "list": [
                {
                 "str": "'points'"
                }
               ]
              },
              {
               "list": [
                {
                 "float": "0.25"
                },
                {
                 "float": "1.25"
                },
                {
                 "float": "nan"
                }
               ]
              },
              {
               "dict": [
                [
                 {
                  "str": "'units'"
                 },
                 {
                  "str": "'deg'"
                 }
                ]
               ]
              }
             ]
            }
           ],
           [
            {
             "str": "'roll'"
            },
            {
             "Variable": [
              {
               "list": [
                {
                 "str": "'points'"
                }
               ]
              },
              {
               "list": [
                {
                 "float": "-0.0"
                },
                {
                 "float": "-1.0"
                },
                {
                 "float": "nan"
                }
               ]
              },
              {
               "dict": [
                [
                 {
                  "str": "'units'"
                 },
                 {
                  "str": "'deg'"
                 }
                ]
               ]
              }
             ]
            }
           ],
           [
            {
             "str": "'yaw'"
            },
            {
             "Variable": [
              {
               "list": [
                {
                 "str": "'points'"
                }
               ]
              },
              {
               "list": [
                {
                 "float": "7.5"
                },
                {
                 "float": "7.5"
                },
                {
                 "float": "nan"
                }
               ]
              },
              {
               "dict": [
                [
                 {
                  "str": "'units'"
                 },
                 {
                  "str": "'deg'"
                 }
                ]
               ]
              }
             ]
            }
           ],
           [
            {
             "str": "'time'"
            },
            {
             "Variable": [
              {
               "list": [
                {
                 "str": "'points'"
                }
               ]
              },
              {
               "ndarray": [
                "timedelta64[ns]",
                [
                 3
                ],
                "[864123456000000, 950646912000000, -86400001000000]"
               ]
              },
              {
               "dict": []
              }
             ]
            }
           ]
          ]
         },
         {
          "dict": [
           [
            {
             "str": "'coordinates'"
            },
            {
             "list": [
              {
               "str": "'time'"
              }
             ]
            }
           ]
          ]
         }
        ]
       }
      ],
      [
       {
        "str": "'rates'"
       },
       {
        "Group": [
         "/rates",
         null,
         {
          "dict": [
           [
            {
             "str": "'pitch_error'"
            },
            {
             "Variable": [
              {
               "list": [
                {
                 "str": "'points'"
                }
               ]
              },
              {
               "list": [
                {
                 "bool": "False"
                },
                {
                 "bool": "True"
                },
                {
                 "bool": "True"
                }
               ]
              },
              {
               "dict": []
              }
             ]
            }
           ],
           [
            {
             "str": "'roll_error'"
            },
            {
             "Variable": [
              {
               "list": [
                {
                 "str": "'points'"
                }
               ]
              },
              {
               "list": [
                {
                 "bool": "False"
                },
                {
                 "bool": "False"
                },
                {
                 "bool": "True"
                }
               ]
              },
              {
               "dict": []
              }
             ]
            }
           ],
           [
            {
             "str": "'yaw_error'"
            },
            {
             "Variable": [
              {
               "list": [
                {
                 "str": "'points'"
                }
               ]
              },
              {
               "list": [
                {
                 "bool": "True"
                },
                {
                 "bool": "True"
                },
                {
                 "bool": "True"
                }
               ]
              },
              {
               "dict": []
              }
             ]
            }
           ],
           [
            {
             "str": "'pitch'"
            },
            {
             "Variable": [
              {
               "list": [
                {
                 "str": "'points'"
                }
               ]
              },
              {
               "list": [
                {
                 "float": "0.00025"
                },
                {
                 "float": "0.00125"
                },
                {
                 "float": "nan"
                }
               ]
              },
              {
               "dict": [
                [
                 {
                  "str": "'units'"
                 },
                 {
                  "str": "'deg/s'"
                 }
                ]
               ]
              }
             ]
            }
           ],
           [
            {
             "str": "'roll'"
            },
            {
             "Variable": [
              {
               "list": [
                {
                 "str": "'points'"
                }
               ]
              },
              {
               "list": [
                {
                 "float": "-0.0"
                },
                {
                 "float": "-0.001"
                },
                {
                 "float": "nan"
                }
               ]
              },
              {
               "dict": [
                [
                 {
                  "str": "'units'"
                 },
                 {
                  "str": "'deg/s'"
                 }
                ]
               ]
              }
             ]
            }
           ],
           [
            {
             "str": "'yaw'"
            },
            {
             "Variable": [
              {
               "list": [
                {
                 "str": "'points'"
                }
               ]
              },
              {
               "list": [
                {
                 "float": "0.0075"
                },
                {
                 "float": "0.0075"
                },
                {
                 "float": "nan"
                }
               ]
              },
              {
               "dict": [
                [
                 {
                  "str": "'units'"
                 },
                 {
                  "str": "'deg/s'"
                 }
                ]
               ]
              }
             ]
            }
           ],
           [
            {
             "str": "'time'"
            },
            {
             "Variable": [
              {
               "list": [
                {
                 "str": "'points'"
                }
               ]
              },
              {
               "ndarray": [
                "timedelta64[ns]",
                [
                 3
                ],
                "[864123456000000, 950646912000000, -86400001000000]"
               ]
              },
              {
               "dict": []
              }
             ]
            }
           ]
          ]
         },
         {
          "dict": [
           [
            {
             "str": "'coordinates'"
            },
            {
             "list": [
              {
               "str": "'time'"
              }
             ]
            }
           ]
          ]
         }
        ]
       }
      ]
     ]
    },
    {
     "dict": []
    }
   ]
  }
 },
 "parsed/zero_points": {
  "raises": [
   "AttributeError",
   "'list' object has no attribute 'keys'"
  ]
 },
 "prepend_dim/input_unchanged": true,
 "transform_attitude/input_unchanged": true,
 "prepend_dim/identity": [
  false,
  false,
  true,
  true,
  true,
  true,
  true,
  "dict"
 ],
 "transform_attitude/identity": [
  false,
  false,
  true,
  false,
  false,
  true
 ],
 "transform_section/flag_types": [
  "list",
  [
   "bool",
   "bool"
  ]
 ]
}
"""

if __name__ == "__main__":
    if "--record" in sys.argv:
        print(json.dumps(collect(), indent=1, ensure_ascii=True))
    else:
        test_equivalence()
        print(f"ok: {len(json.loads(EXPECTED))} snapshots identical")
