"""Equivalence check for refactoring 1: results recorded from the unchanged code.

Run: cd /tmp/wt6/e44 && PYTHONPATH=/tmp/wt6/e44 /venv/bin/python _eq/1/equiv.py
(also collectable by pytest: `pytest _eq/1/equiv.py`).
"""
import datetime
import sys

from ceos_alos2.hierarchy import Group, Variable

try:
    ExceptionGroup
except NameError:  # pragma: no cover
    from exceptiongroup import ExceptionGroup


def canon(obj):
    """Canonical, type- and order-preserving text form of a result."""
    if isinstance(obj, Group):
        return (
            f"Group(path={obj.path!r}, url={obj.url!r}, "
            f"data={canon(obj.data)}, attrs={canon(obj.attrs)})"
        )
    if isinstance(obj, Variable):  # pragma: no cover
        return f"Variable(dims={obj.dims!r}, data={obj.data!r}, attrs={canon(obj.attrs)})"
    if type(obj) is dict:
        return "{" + ", ".join(f"{canon(k)}: {canon(v)}" for k, v in obj.items()) + "}"
    if type(obj) is list:
        return "[" + ", ".join(canon(v) for v in obj) + "]"
    if type(obj) is tuple:
        return "(" + ", ".join(canon(v) for v in obj) + ",)"
    if isinstance(obj, (str, bytes, int, float, bool, type(None), datetime.datetime)):
        return f"{type(obj).__name__}:{obj!r}"
    return f"<{type(obj).__qualname__}>:{obj!r}"


def canon_exc(e):
    text = f"{type(e).__name__}{e.args!r}"
    if isinstance(e, ExceptionGroup):
        text += "[" + "; ".join(canon_exc(sub) for sub in e.exceptions) + "]"
    if e.__cause__ is not None:
        text += f" from {canon_exc(e.__cause__)}"
    return text


def outcome(func, *args, **kwargs):
    try:
        result = func(*args, **kwargs)
    except BaseException as e:  # noqa: B902 - StopIteration etc. are part of the record
        return "RAISES " + canon_exc(e)
    return "RETURNS " + canon(result)


def check(cases, expected, run):
    """Run every case; with --record print the table, otherwise compare."""
    actual = {name: run(*case) for name, case in cases.items()}
    if "--record" in sys.argv:
        print("EXPECTED = {")
        for name, value in actual.items():
            print(f"    {name!r}: (\n        {value!r}\n    ),")
        print("}")
        return 0

    assert list(actual) == list(expected), "case list and EXPECTED are out of sync"
    failures = [name for name in cases if actual[name] != expected[name]]
    for name in failures:
        print(f"MISMATCH {name}\n  expected: {expected[name]}\n  actual:   {actual[name]}")
    assert not failures, f"{len(failures)} of {len(cases)} cases differ"
    print(f"ok: {len(cases)} cases identical to the recorded behaviour")
    return 0


from ceos_alos2 import summary

VALID = "\n".join(
    [
        'Odi_SceneId="ALOS2290760600-191011"',
        'Odi_SiteDateTime="20191011 14:43:15"',
        'Scs_SceneID="ALOS2290760600-191011"',
        'Scs_SceneShift="0"',
        'Pds_ProductID="WWDR1.1__D"',
        'Pds_UTM_ZoneNo=""',
        'Img_SceneCenterDateTime="20191011 14:43:15.525"',
        'Pdi_CntOfL11ProductFileName="4"',
        'Pdi_L11ProductFileName01="VOL-ALOS2290760600-191011-WWDR1.1__D"',
        'Pdi_NoOfPixels_1=" 9196"',
        'Ach_TimeCheck=""',
        'Rad_PracticeResultCode="GOOD"',
        'Lbi_Satellite="ALOS2"',
    ]
)

CASES = {
    "empty": ("",),
    "only_newline": ("\n",),
    "full": (VALID,),
    "trailing_newline": (VALID + "\n",),
    "crlf": (VALID.replace("\n", "\r\n"),),
    "single": ('Scs_SceneShift="0"',),
    "test_suite_valid": ('Scs_SceneShift="0"\nPds_ProductID="WWDR1.1__D"',),
    "test_suite_invalid": ('Scs_SceneShift"0"\nPdsProductID="WWDR1.1__D"',),
    # sections interleaved: a section keeps the position of its first line
    "interleaved": ('Scs_A="1"\nPds_B="2"\nScs_C="3"\nOdi_D="4"\nPds_E="5"\nScs_F="6"',),
    # repeated keyword: last value wins, first position is kept
    "repeated_keyword": ('Scs_A="1"\nScs_B="2"\nScs_A="3"',),
    # section codes that only differ by case collapse after lower-casing
    "case_collision": ('Scs_A="1"\nScs_B="2"\nPds_X="9"\nSCS_B="3"\nscs_C="4"\nSCS_D="5"',),
    "case_collision_reversed": ('scs_A="1"\nPds_X="9"\nScs_B="2"',),
    "upper_only": ('ODI_A="1"\nPDS_B="2"',),
    "unknown_section": ('Xyz_Key="value"\nabc_k="v"',),
    "empty_keyword_and_value": ('Scs_=""',),
    "keyword_with_underscores": ('Pdi_NoOfPixels_HH_1="12"\nPdi__="x"',),
    "value_with_equals": ('Scs_A="b=c"\nScs_D="e_f=g"',),
    "value_with_quote": ('Scs_A="b"c"',),
    "two_entries_one_line": ('Scs_A="1" Scs_B="2"',),
    "two_entries_no_gap": ('Scs_A="1"Scs_B="2"',),
    "unicode": ('Scs_Näme="värde"\nScs_日本="語"',),
    "blank_line_between": ('Scs_A="1"\n\nScs_B="2"',),
    "blank_lines_only": ("\n\n\n",),
    "leading_whitespace": (' Scs_A="1"',),
    "trailing_whitespace": ('Scs_A="1" ',),
    "short_section": ('Sc_A="1"',),
    "long_section": ('Scsx_A="1"',),
    "digit_section": ('S1s_A="1"',),
    "missing_quotes": ("Scs_A=1",),
    "single_quotes": ("Scs_A='1'",),
    "first_bad": ('garbage\nScs_A="1"\nScs_B="2"',),
    "last_bad": ('Scs_A="1"\nScs_B="2"\ngarbage',),
    "middle_bad": ('Scs_A="1"\nnope\nScs_B="2"\nnope again\nScs_C="3"',),
    "all_bad": ("a\nb\nc",),
    "many_lines_bad": ("\n".join(['Scs_A="1"'] * 12 + ["bad"] + ['Scs_B="2"'] * 90 + ["bad"]),),
    "form_feed_splits": ('Scs_A="1"\x0cScs_B="2"',),
    "vertical_tab_bad": ('Scs_A="1"\x0b\x0bScs_B="2"',),
    "not_a_string": (None,),
    "bytes": (b'Scs_A="1"',),
}


def run(content):
    return outcome(summary.parse_summary, content)

# fmt: off
EXPECTED = {
    'empty': (
        'RETURNS {}'
    ),
    'only_newline': (
        "RAISES ExceptionGroup('failed to parse the summary', [ValueError('line 00: invalid line')])[ValueError('line 00: invalid line',)]"
    ),
    'full': (
        "RETURNS {str:'odi': {str:'SceneId': str:'ALOS2290760600-191011', str:'SiteDateTime': str:'20191011 14:43:15'}, str:'scs': {str:'SceneID': str:'ALOS2290760600-191011', str:'SceneShift': str:'0'}, str:'pds': {str:'ProductID': str:'WWDR1.1__D', str:'UTM_ZoneNo': str:''}, str:'img': {str:'SceneCenterDateTime': str:'20191011 14:43:15.525'}, str:'pdi': {str:'CntOfL11ProductFileName': str:'4', str:'L11ProductFileName01': str:'VOL-ALOS2290760600-191011-WWDR1.1__D', str:'NoOfPixels_1': str:' 9196'}, str:'ach': {str:'TimeCheck': str:''}, str:'rad': {str:'PracticeResultCode': str:'GOOD'}, str:'lbi': {str:'Satellite': str:'ALOS2'}}"
    ),
    'trailing_newline': (
        "RETURNS {str:'odi': {str:'SceneId': str:'ALOS2290760600-191011', str:'SiteDateTime': str:'20191011 14:43:15'}, str:'scs': {str:'SceneID': str:'ALOS2290760600-191011', str:'SceneShift': str:'0'}, str:'pds': {str:'ProductID': str:'WWDR1.1__D', str:'UTM_ZoneNo': str:''}, str:'img': {str:'SceneCenterDateTime': str:'20191011 14:43:15.525'}, str:'pdi': {str:'CntOfL11ProductFileName': str:'4', str:'L11ProductFileName01': str:'VOL-ALOS2290760600-191011-WWDR1.1__D', str:'NoOfPixels_1': str:' 9196'}, str:'ach': {str:'TimeCheck': str:''}, str:'rad': {str:'PracticeResultCode': str:'GOOD'}, str:'lbi': {str:'Satellite': str:'ALOS2'}}"
    ),
    'crlf': (
        "RETURNS {str:'odi': {str:'SceneId': str:'ALOS2290760600-191011', str:'SiteDateTime': str:'20191011 14:43:15'}, str:'scs': {str:'SceneID': str:'ALOS2290760600-191011', str:'SceneShift': str:'0'}, str:'pds': {str:'ProductID': str:'WWDR1.1__D', str:'UTM_ZoneNo': str:''}, str:'img': {str:'SceneCenterDateTime': str:'20191011 14:43:15.525'}, str:'pdi': {str:'CntOfL11ProductFileName': str:'4', str:'L11ProductFileName01': str:'VOL-ALOS2290760600-191011-WWDR1.1__D', str:'NoOfPixels_1': str:' 9196'}, str:'ach': {str:'TimeCheck': str:''}, str:'rad': {str:'PracticeResultCode': str:'GOOD'}, str:'lbi': {str:'Satellite': str:'ALOS2'}}"
    ),
    'single': (
        "RETURNS {str:'scs': {str:'SceneShift': str:'0'}}"
    ),
    'test_suite_valid': (
        "RETURNS {str:'scs': {str:'SceneShift': str:'0'}, str:'pds': {str:'ProductID': str:'WWDR1.1__D'}}"
    ),
    'test_suite_invalid': (
        "RAISES ExceptionGroup('failed to parse the summary', [ValueError('line 00: invalid line'), ValueError('line 01: invalid line')])[ValueError('line 00: invalid line',); ValueError('line 01: invalid line',)]"
    ),
    'interleaved': (
        "RETURNS {str:'scs': {str:'A': str:'1', str:'C': str:'3', str:'F': str:'6'}, str:'pds': {str:'B': str:'2', str:'E': str:'5'}, str:'odi': {str:'D': str:'4'}}"
    ),
    'repeated_keyword': (
        "RETURNS {str:'scs': {str:'A': str:'3', str:'B': str:'2'}}"
    ),
    'case_collision': (
        "RETURNS {str:'scs': {str:'C': str:'4'}, str:'pds': {str:'X': str:'9'}}"
    ),
    'case_collision_reversed': (
        "RETURNS {str:'scs': {str:'B': str:'2'}, str:'pds': {str:'X': str:'9'}}"
    ),
    'upper_only': (
        "RETURNS {str:'odi': {str:'A': str:'1'}, str:'pds': {str:'B': str:'2'}}"
    ),
    'unknown_section': (
        "RETURNS {str:'xyz': {str:'Key': str:'value'}, str:'abc': {str:'k': str:'v'}}"
    ),
    'empty_keyword_and_value': (
        "RETURNS {str:'scs': {str:'': str:''}}"
    ),
    'keyword_with_underscores': (
        "RETURNS {str:'pdi': {str:'NoOfPixels_HH_1': str:'12', str:'_': str:'x'}}"
    ),
    'value_with_equals': (
        "RETURNS {str:'scs': {str:'A': str:'b=c', str:'D': str:'e_f=g'}}"
    ),
    'value_with_quote': (
        'RETURNS {str:\'scs\': {str:\'A\': str:\'b"c\'}}'
    ),
    'two_entries_one_line': (
        'RETURNS {str:\'scs\': {str:\'A\': str:\'1" Scs_B="2\'}}'
    ),
    'two_entries_no_gap': (
        'RETURNS {str:\'scs\': {str:\'A\': str:\'1"Scs_B="2\'}}'
    ),
    'unicode': (
        "RETURNS {str:'scs': {str:'Näme': str:'värde', str:'日本': str:'語'}}"
    ),
    'blank_line_between': (
        "RAISES ExceptionGroup('failed to parse the summary', [ValueError('line 01: invalid line')])[ValueError('line 01: invalid line',)]"
    ),
    'blank_lines_only': (
        "RAISES ExceptionGroup('failed to parse the summary', [ValueError('line 00: invalid line'), ValueError('line 01: invalid line'), ValueError('line 02: invalid line')])[ValueError('line 00: invalid line',); ValueError('line 01: invalid line',); ValueError('line 02: invalid line',)]"
    ),
    'leading_whitespace': (
        "RAISES ExceptionGroup('failed to parse the summary', [ValueError('line 00: invalid line')])[ValueError('line 00: invalid line',)]"
    ),
    'trailing_whitespace': (
        "RAISES ExceptionGroup('failed to parse the summary', [ValueError('line 00: invalid line')])[ValueError('line 00: invalid line',)]"
    ),
    'short_section': (
        "RAISES ExceptionGroup('failed to parse the summary', [ValueError('line 00: invalid line')])[ValueError('line 00: invalid line',)]"
    ),
    'long_section': (
        "RAISES ExceptionGroup('failed to parse the summary', [ValueError('line 00: invalid line')])[ValueError('line 00: invalid line',)]"
    ),
    'digit_section': (
        "RAISES ExceptionGroup('failed to parse the summary', [ValueError('line 00: invalid line')])[ValueError('line 00: invalid line',)]"
    ),
    'missing_quotes': (
        "RAISES ExceptionGroup('failed to parse the summary', [ValueError('line 00: invalid line')])[ValueError('line 00: invalid line',)]"
    ),
    'single_quotes': (
        "RAISES ExceptionGroup('failed to parse the summary', [ValueError('line 00: invalid line')])[ValueError('line 00: invalid line',)]"
    ),
    'first_bad': (
        "RAISES ExceptionGroup('failed to parse the summary', [ValueError('line 00: invalid line')])[ValueError('line 00: invalid line',)]"
    ),
    'last_bad': (
        "RAISES ExceptionGroup('failed to parse the summary', [ValueError('line 02: invalid line')])[ValueError('line 02: invalid line',)]"
    ),
    'middle_bad': (
        "RAISES ExceptionGroup('failed to parse the summary', [ValueError('line 01: invalid line'), ValueError('line 03: invalid line')])[ValueError('line 01: invalid line',); ValueError('line 03: invalid line',)]"
    ),
    'all_bad': (
        "RAISES ExceptionGroup('failed to parse the summary', [ValueError('line 00: invalid line'), ValueError('line 01: invalid line'), ValueError('line 02: invalid line')])[ValueError('line 00: invalid line',); ValueError('line 01: invalid line',); ValueError('line 02: invalid line',)]"
    ),
    'many_lines_bad': (
        "RAISES ExceptionGroup('failed to parse the summary', [ValueError('line 12: invalid line'), ValueError('line 103: invalid line')])[ValueError('line 12: invalid line',); ValueError('line 103: invalid line',)]"
    ),
    'form_feed_splits': (
        "RETURNS {str:'scs': {str:'A': str:'1', str:'B': str:'2'}}"
    ),
    'vertical_tab_bad': (
        "RAISES ExceptionGroup('failed to parse the summary', [ValueError('line 01: invalid line')])[ValueError('line 01: invalid line',)]"
    ),
    'not_a_string': (
        'RAISES AttributeError("\'NoneType\' object has no attribute \'splitlines\'",)'
    ),
    'bytes': (
        "RAISES TypeError('cannot use a string pattern on a bytes-like object',)"
    ),
}
# fmt: on


def test_equivalence():
    check(CASES, EXPECTED, run)


if __name__ == "__main__":
    check(CASES, EXPECTED, run)
